"""Reference WSGI environ (PEP 3333 + RFC 3875 meta-variables) for an HTTP/1.x request.

Written from the two documents only; shares no code with tornado.  `expected_environ` returns
exact expectations where the documents pin a value and *sets of acceptable values* where they
leave room (SERVER_NAME with/without IPv6 brackets, absent vs empty CONTENT_*).
"""
from __future__ import annotations

import re

HEX = "0123456789abcdefABCDEF"


def pct_decode_latin1(path: str) -> str:
    """Percent-decode an ASCII path to bytes and present them as a latin-1 'native string' (PEP 3333)."""
    b = path.encode("latin-1")
    out = bytearray()
    i, n = 0, len(b)
    while i < n:
        if b[i] == 0x25 and i + 2 < n and chr(b[i + 1]) in HEX and chr(b[i + 2]) in HEX:
            out.append(int(b[i + 1:i + 3].decode("ascii"), 16))
            i += 3
        else:
            out.append(b[i])
            i += 1
    return out.decode("latin-1")


def split_authority(host: str):
    """RFC 3986 host [":" port] -> (host, port-string or None), or None if `host` is not of that form."""
    m = re.fullmatch(r"(\[[0-9A-Fa-f:.]+\])(?::([0-9]*))?", host)
    if m:
        return m.group(1), m.group(2)
    m = re.fullmatch(r"([A-Za-z0-9._~!$&'()*+,;=%-]*)(?::([0-9]*))?", host)
    if m and m.group(1):
        return m.group(1), m.group(2)
    return None


def norm_list(v: str):
    return [p.strip(" \t") for p in v.split(",")]


def expected_environ(method, target, version, headers, body):
    """headers: [(name, value-as-latin1-str)] as sent. Returns dict key -> ('eq', v) | ('in', set) |
    ('absent_or', v) | ('list', [...]) (comma-joined header values, whitespace around commas free)."""
    path, _sep, query = target.partition("?")
    exp = {
        "REQUEST_METHOD": ("eq", method),
        "QUERY_STRING": ("eq", query),
        "SERVER_PROTOCOL": ("eq", version),
        "wsgi.version": ("eq", (1, 0)),
    }
    exp["_path"] = pct_decode_latin1(path)      # SCRIPT_NAME + PATH_INFO
    by = {}
    for n, v in headers:
        by.setdefault(n.lower(), []).append(v.strip(" \t"))
    for n, vals in by.items():
        if n == "content-type":
            exp["CONTENT_TYPE"] = ("list", [p for v in vals for p in norm_list(v)])
        elif n == "content-length":
            exp["CONTENT_LENGTH"] = ("list", [p for v in vals for p in norm_list(v)])
        else:
            exp["HTTP_" + n.upper().replace("-", "_")] = ("list", [p for v in vals for p in norm_list(v)])
    if "content-type" not in by:
        exp["CONTENT_TYPE"] = ("absent_or", "")
    if "content-length" not in by:
        exp["CONTENT_LENGTH"] = ("absent_or", "")
    hosts = by.get("host")
    if hosts and len(hosts) == 1:
        sp = split_authority(hosts[0])
        if sp is not None:
            name, port = sp
            names = {name.lower()}
            if name.startswith("["):
                names.add(name[1:-1].lower())
            exp["_server_name"] = names
            exp["_server_port"] = port if port else None   # None => default port of the scheme
    exp["_body"] = body
    return exp
