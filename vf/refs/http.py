"""Independent strict HTTP/1.x *response* reader (RFC 9112), three-valued.

Shares no code with tornado. Used as the oracle for what Tornado's server
writes (C02/C03/C29/C47...) and for what Tornado's client must extract (C08).

    r = read_response(data, method="GET", eof=False)

returns a Response (complete message, `rest` = bytes after it) or raises

    Incomplete   more bytes are needed (and eof is False)
    Reject(why)  the stream is not a well-framed response (MUST-REJECT class)
    Unspec(why)  syntactically outside the strict grammar but in a class whose
                 verdict the properties do not pin (obs-fold, bare LF, chunk
                 extensions, trailers ...)
"""
from __future__ import annotations

import re
import zlib

TOKEN = rb"[!#$%&'*+\-.^_`|~0-9A-Za-z]+"
STATUS_RE = re.compile(rb"HTTP/(1\.[0-9]) ([0-9]{3}) ([\t \x21-\x7e\x80-\xff]*)\Z")
STATUS_NOSP_RE = re.compile(rb"HTTP/(1\.[0-9]) ([0-9]{3})\Z")
FIELD_RE = re.compile(rb"(" + TOKEN + rb"):[ \t]*((?:[\x21-\x7e\x80-\xff](?:[ \t\x21-\x7e\x80-\xff]*[\x21-\x7e\x80-\xff])?)?)[ \t]*\Z")


class Incomplete(Exception):
    pass


class Reject(Exception):
    pass


class Unspec(Exception):
    pass


class Response:
    def __init__(self):
        self.version = None
        self.status = None
        self.reason = None
        self.headers = []      # [(name bytes as sent, value bytes)]
        self.body = b""
        self.framing = None    # 'none' | 'cl' | 'chunked' | 'close'
        self.rest = b""
        self.head_len = 0
        self.chunks = None     # chunk sizes when framing == 'chunked'

    def get_all(self, name):
        n = name.lower().encode() if isinstance(name, str) else name.lower()
        return [v for k, v in self.headers if k.lower() == n]

    def get(self, name, default=None):
        v = self.get_all(name)
        return v[0] if v else default

    def as_dict(self):
        return {"status": self.status, "reason": self.reason, "version": self.version,
                "headers": self.headers, "body_len": len(self.body), "framing": self.framing}


def _line(data, pos, eof, what):
    i = data.find(b"\n", pos)
    if i < 0:
        if eof:
            raise Reject(f"EOF inside {what}")
        raise Incomplete(what)
    if i == pos or data[i - 1:i] != b"\r":
        raise Unspec(f"bare LF line ending in {what}")
    line = data[pos:i - 1]
    if b"\r" in line:
        raise Reject(f"bare CR inside {what}")
    return line, i + 1


def read_head(data, eof=False):
    """Returns (Response with status line + headers, position after the blank line)."""
    r = Response()
    line, pos = _line(data, 0, eof, "status line")
    m = STATUS_RE.match(line)
    if not m:
        if STATUS_NOSP_RE.match(line):
            raise Unspec("status line without SP after the status code")
        raise Reject(f"malformed status line {line[:80]!r}")
    r.version = m.group(1).decode()
    r.status = int(m.group(2))
    r.reason = m.group(3)
    while True:
        line, pos = _line(data, pos, eof, "header block")
        if line == b"":
            break
        if line[:1] in (b" ", b"\t"):
            raise Unspec("obs-fold in header block")
        if b"\x00" in line:
            raise Reject("NUL in header line")
        m = FIELD_RE.match(line)
        if not m:
            raise Reject(f"malformed header line {line[:80]!r}")
        r.headers.append((m.group(1), m.group(2)))
    r.head_len = pos
    return r, pos


def content_length(r):
    vals = r.get_all("content-length")
    if not vals:
        return None
    pieces = []
    for v in vals:
        pieces += [p.strip(b" \t") for p in v.split(b",")]
    for p in pieces:
        if not re.fullmatch(rb"[0-9]+", p):
            raise Reject(f"non-numeric Content-Length {p[:40]!r}")
    if len({int(p) for p in pieces}) != 1:
        raise Reject("conflicting Content-Length values")
    return int(pieces[0])


def read_chunked(data, pos, eof):
    body = bytearray()
    sizes = []
    while True:
        line, pos = _line(data, pos, eof, "chunk size line")
        if b";" in line:
            raise Unspec("chunk extension")
        if not re.fullmatch(rb"[0-9A-Fa-f]+", line):
            raise Reject(f"malformed chunk size {line[:40]!r}")
        n = int(line, 16)
        sizes.append(n)
        if n == 0:
            line, pos = _line(data, pos, eof, "chunked trailer")
            if line != b"":
                raise Unspec("trailer fields")
            return bytes(body), pos, sizes
        if len(data) < pos + n + 2:
            if eof:
                raise Reject("EOF inside chunk data")
            raise Incomplete("chunk data")
        body += data[pos:pos + n]
        if data[pos + n:pos + n + 2] != b"\r\n":
            raise Reject("chunk data not followed by CRLF")
        pos += n + 2


def read_response(data: bytes, method="GET", eof=False) -> Response:
    r, pos = read_head(data, eof)
    te = r.get_all("transfer-encoding")
    cl_present = bool(r.get_all("content-length"))
    if (100 <= r.status < 200) or r.status in (204, 304) or method.upper() == "HEAD":
        # no body whatever the headers say (they describe the would-be representation)
        if te and (r.status < 200 or r.status == 204):
            raise Reject("Transfer-Encoding on a 1xx/204 response")
        if cl_present and (r.status < 200 or r.status == 204):
            content_length(r)  # must still be syntactically valid
            r.cl_on_bodiless = True
        r.framing = "none"
        r.rest = data[pos:]
        return r
    if te:
        if cl_present:
            raise Reject("both Transfer-Encoding and Content-Length")
        codings = [c.strip(b" \t").lower() for v in te for c in v.split(b",")]
        if codings != [b"chunked"]:
            raise Reject(f"transfer coding other than chunked: {codings!r}")
        if r.version == "1.0":
            raise Unspec("chunked in an HTTP/1.0 response")
        r.body, pos, r.chunks = read_chunked(data, pos, eof)
        r.framing = "chunked"
        r.rest = data[pos:]
        return r
    n = content_length(r)
    if n is not None:
        if len(data) < pos + n:
            if eof:
                raise Reject("EOF before Content-Length bytes arrived")
            raise Incomplete("body")
        r.body = data[pos:pos + n]
        r.framing = "cl"
        r.rest = data[pos + n:]
        return r
    if not eof:
        raise Incomplete("close-delimited body")
    r.body = data[pos:]
    r.framing = "close"
    r.rest = b""
    return r


def read_all_responses(data: bytes, methods, eof=True):
    """Delimits a sequence of responses, one per request method in `methods`
    (interim 1xx responses are attached to the following final response).
    Returns (responses, leftover_bytes). Raises like read_response."""
    out = []
    rest = data
    for m in methods:
        interim = []
        while True:
            if not rest:
                return out, rest
            r = read_response(rest, m, eof)
            rest = r.rest
            if 100 <= r.status < 200 and r.status != 101:
                interim.append(r)
                continue
            r.interim = interim
            out.append(r)
            break
        if r.framing == "close":
            break
    return out, rest


def gunzip_strict(data: bytes, limit=None) -> bytes:
    """Full-stream gzip decode: every member must be complete; no trailing garbage."""
    out = bytearray()
    rest = data
    if not rest:
        raise Reject("empty gzip stream")
    while rest:
        d = zlib.decompressobj(16 + zlib.MAX_WBITS)
        try:
            out += d.decompress(rest)
        except zlib.error as e:
            raise Reject(f"corrupt gzip stream: {e}")
        if not d.eof:
            raise Reject("truncated gzip stream")
        rest = d.unused_data
        if limit is not None and len(out) > limit:
            raise Reject("decompressed size over limit")
    return bytes(out)
