"""ClientRig (DESIGN §2.2): SimpleAsyncHTTPClient against harness-owned origins.

* FakeResolver  - tornado.netutil.Resolver subclass; resolves synchronously (inside the loop,
                  no executor thread) to [(AF_UNIX, "<scratch>/<host>_<port>.sock")].  Hosts
                  listed in `hang` get a Future that never resolves (a connect phase that
                  never finishes, without creating any socket).
* FakeOrigin    - one (scheme, host, port) triple = one AF_UNIX listener written with plain
                  asyncio streams and a hand-written request reader (NO tornado code), so the
                  observer shares no parser with the code under test.  Records every request
                  line + header list + body it receives; answers from a script.
* Rig           - scratch dir, origins, client factory, stream/fd accounting.
* RigClient     - SimpleAsyncHTTPClient subclass (force_instance) whose TCPClient creates
                  ScriptedIOStream (client-side read plans) and which reports submit / start /
                  completion events of every fetch to the rig.

Everything lives in one (virtual) loop; AF_UNIX makes delivery synchronous, so the virtual
clock jump of vf.vloop is sound here.
"""
from __future__ import annotations

import asyncio
import os
import shutil
import socket
import ssl
import tempfile

from vf import core
from vf.vloop import settle

core.use_repo()

from tornado.netutil import Resolver  # noqa: E402
from tornado.simple_httpclient import SimpleAsyncHTTPClient  # noqa: E402
from tornado.tcpclient import TCPClient  # noqa: E402
from vf.wire import ScriptedIOStream  # noqa: E402

CERT = os.path.join(core.REPO, "tornado", "test", "test.crt")
KEY = os.path.join(core.REPO, "tornado", "test", "test.key")
if not os.path.exists(CERT):  # mutant scratch copies always contain tornado/test, but be safe
    CERT = "/repo/tornado/test/test.crt"
    KEY = "/repo/tornado/test/test.key"


_SSL_CTX = None


def server_ssl_context():
    global _SSL_CTX
    if _SSL_CTX is None:
        _SSL_CTX = ssl.SSLContext(ssl.PROTOCOL_TLS_SERVER)
        _SSL_CTX.load_cert_chain(CERT, KEY)
    return _SSL_CTX


def default_port(scheme):
    return 443 if scheme == "https" else 80


class FakeResolver(Resolver):
    """Synchronous in-loop resolver: (host, port) -> one AF_UNIX path."""

    def initialize(self, scratch=None, hang=(), families=None):
        self.scratch = scratch
        self.hang = {h.lower() for h in hang}
        self.calls = []          # [(host, port)] in call order
        self.families = families  # optional {(host, port): [(af_label, path), ...]}

    def path_for(self, host, port):
        return os.path.join(self.scratch, f"{host.lower()}_{int(port)}.sock")

    def resolve(self, host, port, family=socket.AF_UNSPEC):
        self.calls.append((host, port))
        fut = asyncio.get_event_loop().create_future()
        if host.lower() in self.hang:
            return fut  # never resolves: "connect phase hangs", no socket is ever created
        if self.families and (host.lower(), port) in self.families:
            fut.set_result(list(self.families[(host.lower(), port)]))
        else:
            fut.set_result([(socket.AF_UNIX, self.path_for(host, port))])
        return fut

    def close(self):
        pass


class Req:
    """One request as seen by an origin."""
    __slots__ = ("origin", "conn", "t", "line", "method", "target", "version", "headers", "body",
                 "raw_head", "complete")

    def __init__(self):
        self.headers = []
        self.body = b""
        self.complete = False
        self.line = self.method = self.target = self.version = None
        self.raw_head = b""

    def get_all(self, name):
        n = name.lower()
        return [v for k, v in self.headers if k.lower() == n]

    def as_dict(self):
        return {"origin": self.origin.name, "t": round(self.t, 6), "line": self.line,
                "headers": self.headers, "body_len": len(self.body)}


class FakeOrigin:
    """responder(req: Req) -> list of actions:
        ("send", bytes) | ("segs", bytes, [n, ...]) | ("sleep", secs) | ("close",) |
        ("abort",) | ("hold",) | ("eof",)
    After the list is exhausted the connection is closed unless the last action was
    ("hold",) (wait for the peer to close) ."""

    def __init__(self, rig, scheme, host, port, responder):
        self.rig = rig
        self.scheme, self.host, self.port = scheme, host.lower(), int(port)
        self.name = f"{scheme}://{self.host}:{self.port}"
        self.responder = responder
        self.path = rig.resolver.path_for(host, port)
        self.requests = []
        self.accepted = 0
        self.open_conns = 0
        self.max_open = 0
        self.server = None
        self.tasks = set()
        self.writers = set()
        self.stopping = False

    async def start(self):
        ctx = server_ssl_context() if self.scheme == "https" else None
        self.server = await asyncio.start_unix_server(self._conn, path=self.path, ssl=ctx)

    async def _read_request(self, reader, req):
        head = await reader.readuntil(b"\r\n\r\n")
        req.raw_head = head
        lines = head[:-4].split(b"\r\n")
        req.line = lines[0].decode("latin-1")
        parts = req.line.split(" ")
        if len(parts) == 3:
            req.method, req.target, req.version = parts
        for ln in lines[1:]:
            k, _, v = ln.partition(b":")
            req.headers.append((k.decode("latin-1"), v.strip(b" \t").decode("latin-1")))
        cl = req.get_all("content-length")
        te = req.get_all("transfer-encoding")
        if te:
            body = bytearray()
            while True:
                szl = await reader.readuntil(b"\r\n")
                n = int(szl[:-2].split(b";")[0], 16)
                if n == 0:
                    await reader.readuntil(b"\r\n")
                    break
                body += await reader.readexactly(n)
                await reader.readexactly(2)
            req.body = bytes(body)
        elif cl:
            req.body = await reader.readexactly(int(cl[0]))
        req.complete = True

    async def _conn(self, reader, writer):
        task = asyncio.current_task()
        self.tasks.add(task)
        self.writers.add(writer)
        self.accepted += 1
        self.open_conns += 1
        self.max_open = max(self.max_open, self.open_conns)
        self.rig.origin_open += 1
        self.rig.origin_max_open = max(self.rig.origin_max_open, self.rig.origin_open)
        loop = asyncio.get_event_loop()
        req = Req()
        req.origin, req.conn, req.t = self, self.accepted, loop.time()
        hold = False
        try:
            try:
                await self._read_request(reader, req)
            except (asyncio.IncompleteReadError, ConnectionError, ValueError, asyncio.LimitOverrunError):
                return
            self.requests.append(req)
            self.rig.arrivals.append(req)
            for act in self.responder(req):
                kind = act[0]
                if kind == "send":
                    writer.write(act[1])
                    await settle()
                elif kind == "segs":
                    data, pos = act[1], 0
                    for n in list(act[2]) + [len(act[1])]:
                        if pos >= len(data):
                            break
                        writer.write(data[pos:pos + n])
                        pos += n
                        await settle()
                elif kind == "sleep":
                    await asyncio.sleep(act[1])
                    if self.stopping:
                        break
                elif kind == "eof":
                    try:
                        writer.write_eof()
                    except (OSError, NotImplementedError, RuntimeError):
                        pass
                    await settle()
                elif kind == "close":
                    break
                elif kind == "abort":
                    writer.transport.abort()
                    return
                elif kind == "hold":
                    hold = True
                    break
                if writer.transport.is_closing():
                    break
            if hold:
                # wait until the peer goes away (never by wall clock: EOF is an fd event)
                try:
                    while await reader.read(65536):
                        pass
                except (ConnectionError, OSError):
                    pass
        except (ConnectionError, OSError, ssl.SSLError):
            pass
        finally:
            self.open_conns -= 1
            self.rig.origin_open -= 1
            try:
                writer.close()
            except Exception:
                pass
            self.tasks.discard(task)
            self.writers.discard(writer)

    async def stop(self):
        # Handler tasks are never cancelled (asyncio.streams logs a spurious error for a
        # cancelled handler): their transports are aborted, which ends every read; a handler
        # inside a scripted sleep finishes it in virtual time.
        self.stopping = True
        if self.server is not None:
            self.server.close()
        for w in list(self.writers):
            try:
                w.transport.abort()
            except Exception:
                pass
        for t in list(self.tasks):
            try:
                await t
            except BaseException:
                pass
        try:
            os.unlink(self.path)
        except OSError:
            pass


class ScriptedTCPClient(TCPClient):
    """TCPClient whose streams are ScriptedIOStream on AF_UNIX sockets.  `af` coming from the
    resolver is only a *label* for _Connector's family split; the socket is always AF_UNIX."""

    def __init__(self, resolver, rig):
        super().__init__(resolver=resolver)
        self.rig = rig

    def _create_stream(self, max_buffer_size, af, addr, source_ip=None, source_port=None):
        rig = self.rig
        sock = socket.socket(socket.AF_UNIX)
        plan = rig.next_read_plan(addr)
        stream = ScriptedIOStream(sock, max_buffer_size=max_buffer_size, read_plan=plan)
        open_now = sum(1 for s, _ in rig.streams if not s.closed() and s.socket is not None) + len(
            [t for t in rig.tls_streams if not t.closed()])
        rig.streams.append((stream, addr))
        rig.max_open_streams = max(rig.max_open_streams, open_now + 1)
        if rig.on_create_stream is not None:
            rig.on_create_stream(stream, af, addr, open_now)
        return stream, stream.connect(addr)


class RigClient(SimpleAsyncHTTPClient):
    """Reports submit/start/complete of every fetch_impl call (redirect hops included)."""

    def initialize(self, rig=None, **kw):
        super().initialize(**kw)
        self.rig = rig
        self.tcp_client = ScriptedTCPClient(self.resolver, rig)

    def fetch_impl(self, request, callback):
        rig = self.rig
        fid = len(rig.fetches)
        rec = {"fid": fid, "request": request, "url": request.url, "submitted": self.io_loop.time(),
               "started": None, "completions": 0, "responses": []}
        rig.fetches.append(rec)
        rig.by_req[id(request)] = rec
        rig.events.append(("submit", fid))

        def cb(response):
            rec["completions"] += 1
            rec["responses"].append(response)
            rig.events.append(("complete", fid))
            if rig.on_complete is not None:
                rig.on_complete(rec, response)
            callback(response)

        super().fetch_impl(request, cb)

    def _handle_request(self, request, release_callback, final_callback):
        rig = self.rig
        rec = rig.by_req.get(id(request))
        if rec is not None:
            rec["started"] = self.io_loop.time()
            rig.events.append(("start", rec["fid"]))
            rig.start_order.append(rec["fid"])
        if rig.on_start is not None:
            rig.on_start(rec, self)
        super()._handle_request(request, release_callback, final_callback)


class Rig:
    def __init__(self, hang=()):
        self.scratch = tempfile.mkdtemp(prefix="vfc", dir="/tmp")
        self.resolver = FakeResolver(scratch=self.scratch, hang=hang)
        self.origins = {}
        self.arrivals = []        # every Req in arrival order across origins
        self.streams = []         # [(ScriptedIOStream, addr)]
        self.tls_streams = []     # SSLIOStreams produced by start_tls (registered by RigClient)
        self.max_open_streams = 0
        self.origin_open = 0
        self.origin_max_open = 0
        self.read_plans = []      # consumed one per created stream
        self.fetches = []
        self.by_req = {}
        self.events = []
        self.start_order = []
        self.on_create_stream = None
        self.on_complete = None
        self.on_start = None
        self.clients = []

    def next_read_plan(self, addr):
        if self.read_plans:
            return self.read_plans.pop(0)
        return None

    async def origin(self, scheme, host, port, responder):
        o = FakeOrigin(self, scheme, host, port, responder)
        await o.start()
        self.origins[(scheme, host.lower(), int(port))] = o
        return o

    def client(self, **kw):
        c = RigClient(force_instance=True, resolver=self.resolver, rig=self, **kw)
        self.clients.append(c)
        return c

    def open_streams(self):
        # a stream converted by start_tls() has socket None and is superseded by an SSLIOStream
        return [(s, a) for s, a in self.streams if not s.closed() and s.socket is not None]

    async def close(self):
        for c in self.clients:
            try:
                c.close()
            except Exception:
                pass
        for o in list(self.origins.values()):
            await o.stop()
        shutil.rmtree(self.scratch, ignore_errors=True)

    def cleanup_sync(self):
        shutil.rmtree(self.scratch, ignore_errors=True)


def fd_count():
    try:
        return len(os.listdir("/proc/self/fd"))
    except OSError:
        return -1
