"""Three-valued classifier for HTTP/1.x start lines (RFC 9112 §3, §4; RFC 3986 §3).

Shares no code with tornado.  For any `str` the classifier answers

    ("accept", parts)   the line is in the RFC 9112 grammar restricted to what is certain:
                        request-line = token SP request-target SP "HTTP/1." DIGIT with the
                        request-target in one of the four RFC 9112 §3.2 forms built only from
                        RFC 3986 characters (unreserved / sub-delims / ":" / "@" / "/" / "?" and
                        well-formed pct-encoded triplets);
                        status-line  = "HTTP/1." DIGIT SP 3DIGIT SP [ reason-phrase ] with
                        reason-phrase = 1*( HTAB / SP / VCHAR / obs-text ).
    ("reject", why)     no reading of RFC 9112 (including the robustness MAYs of §3 ¶3 and §4 ¶3:
                        "parse on whitespace-delimited word boundaries", SP / HTAB / VT / FF /
                        bare CR as separators, ignored leading/trailing whitespace) admits it.
    ("unspec", why)     everything in between: the property statement does not pin the verdict
                        (request-targets with characters outside RFC 3986 such as `"<>\\^`{|}`,
                        `[`, `]`, `#`, a bare `%` or obs-text octets; targets that
                        are not one of the four forms; lenient whitespace; HTTP versions other
                        than 1.x, which match HTTP-version but which an HTTP/1.x parser may refuse;
                        a status line without the SP after the code; VT/FF/CR inside a reason phrase).

Code points above U+00FF (incl. lone surrogates) anywhere in the line are MUST-REJECT.  The RFC 9112
grammar is defined over octets (§2.2: a message is parsed "as a sequence of octets"; every terminal of
request-line / status-line is an octet range: tchar, DIGIT, SP, VCHAR, obs-text = %x80-FF, ...).  A `str`
handed to the parsers denotes octets one code point per octet (latin-1: that is how tornado's HTTP/1
connection produces these strings, and the only denotation under which `obs-text` U+0080-U+00FF is one
octet each).  A code point above U+00FF denotes no octet, so no line containing one is derivable from
any production - neither the strict ones nor the robustness readings of §3 ¶3 / §4 ¶3, whose whitespace
set is SP / HTAB / VT / FF / CR only (U+2028, U+3000, U+2003 ... are not whitespace there).  The
UNSPECIFIED leniencies above are about which *octets* a lenient parser may additionally take; they do
not extend the alphabet.  "Accept exactly the grammar and raise HTTPInputError otherwise" therefore pins
rejection.

"DIGIT" is ASCII 0-9 only; all classes are spelled out so that Unicode digits/spaces never match.
"""
from __future__ import annotations

import ipaddress
import re

TCHAR = r"!#$%&'*+\-.^_`|~0-9A-Za-z"
TOKEN_RE = re.compile(rf"[{TCHAR}]+")

_UNRES = r"A-Za-z0-9\-._~"
_SUB = r"!$&'()*+,;="
_PCT = r"%[0-9A-Fa-f]{2}"
_PCHAR = rf"(?:[{_UNRES}{_SUB}:@]|{_PCT})"
_QUERY = rf"(?:{_PCHAR}|[/?])*"
_ORIGIN = rf"(?:/{_PCHAR}*)+(?:\?{_QUERY})?"
_REGNAME = rf"(?:[{_UNRES}{_SUB}]|{_PCT})*"
_IPLIT = r"\[([0-9A-Fa-f:.]+)\]"
_USERINFO = rf"(?:[{_UNRES}{_SUB}:]|{_PCT})*"

ORIGIN_RE = re.compile(_ORIGIN)
# absolute-form with an authority: scheme "://" [userinfo "@"] host [":" port] path-abempty ["?" query]
ABSOLUTE_RE = re.compile(
    rf"[A-Za-z][A-Za-z0-9+\-.]*://(?:{_USERINFO}@)?(?:{_IPLIT}|{_REGNAME})(?::[0-9]*)?"
    rf"(?:/{_PCHAR}*)*(?:\?{_QUERY})?")
# absolute-form without authority (path-rootless), e.g. urn:example:animal
ROOTLESS_RE = re.compile(rf"[A-Za-z][A-Za-z0-9+\-.]*:{_PCHAR}+(?:/{_PCHAR}*)*(?:\?{_QUERY})?")
AUTHORITY_RE = re.compile(rf"(?:{_IPLIT}|{_REGNAME}):[0-9]+")

WS = " \t\x0b\x0c\r"
_WS_SPLIT = re.compile(r"[ \t\x0b\x0c\r]+")
_ANYVERSION_RE = re.compile(r"HTTP/[0-9]\.[0-9]")
_VERSION1_RE = re.compile(r"HTTP/1\.[0-9]")
_CTL_OR_SP = re.compile(r"[\x00-\x20\x7f]")

_STRICT_STATUS = re.compile(r"(HTTP/1\.[0-9]) ([0-9]{3}) ([\t \x21-\x7e\x80-\xff]*)")
_LOOSE_STATUS = re.compile(
    r"[ \t\x0b\x0c\r]*HTTP/[0-9]\.[0-9][ \t\x0b\x0c\r]+[0-9]{3}"
    r"(?:[ \t\x0b\x0c\r][^\x00-\x08\x0a\x0e-\x1f\x7f]*)?")


def _iplit_ok(m, group=1):
    lit = m.group(group)
    if lit is None:
        return True
    try:
        ipaddress.IPv6Address(lit)
        return True
    except ValueError:
        return False


def strict_target(t: str) -> str | None:
    """Name of the RFC 9112 §3.2 form `t` certainly is, or None."""
    if t == "*":
        return "asterisk"
    if ORIGIN_RE.fullmatch(t):
        return "origin"
    m = ABSOLUTE_RE.fullmatch(t)
    if m and _iplit_ok(m):
        return "absolute"
    m = AUTHORITY_RE.fullmatch(t)
    if m and _iplit_ok(m):
        return "authority"
    if ROOTLESS_RE.fullmatch(t):
        return "absolute-rootless"
    return None


_NON_OCTET = re.compile("[^\x00-\xff]")
NON_OCTET_WHY = "code point above U+00FF denotes no octet"


def classify_request_line(s: str):
    verdict, info = _classify_request_line_octets(s)
    if verdict == "unspec" and _NON_OCTET.search(s):
        # (lines rejected for another reason keep that reason)
        return "reject", NON_OCTET_WHY
    return verdict, info


def classify_status_line(s: str):
    verdict, info = _classify_status_line_octets(s)
    if verdict == "unspec" and _NON_OCTET.search(s):
        return "reject", NON_OCTET_WHY
    return verdict, info


def _classify_request_line_octets(s: str):
    parts = s.split(" ")
    if len(parts) == 3:
        method, target, version = parts
        if TOKEN_RE.fullmatch(method) and _VERSION1_RE.fullmatch(version):
            form = strict_target(target)
            if form is not None:
                return "accept", (method, target, version, form)
    # envelope of readings the RFC tolerates or the statement leaves open
    words = _WS_SPLIT.split(s.strip(WS))
    if len(words) != 3:
        return "reject", "not three whitespace-delimited words"
    method, target, version = words
    if not TOKEN_RE.fullmatch(method):
        return "reject", "method is not a token"
    if not _ANYVERSION_RE.fullmatch(version):
        return "reject", "HTTP-version malformed"
    if not target or _CTL_OR_SP.search(target):
        return "reject", "control character in request-target"
    if not _VERSION1_RE.fullmatch(version):
        return "unspec", "HTTP-version is not 1.x"
    if s != " ".join(words):
        return "unspec", "lenient whitespace"
    return "unspec", "request-target outside the RFC 3986 forms"


def _classify_status_line_octets(s: str):
    m = _STRICT_STATUS.fullmatch(s)
    if m:
        return "accept", (m.group(1), int(m.group(2)), m.group(3))
    if _LOOSE_STATUS.fullmatch(s):
        return "unspec", "lenient whitespace / non-1.x version / reason with VT, FF or CR"
    return "reject", "not a status-line under any reading"
