"""Independent RFC 5849 HMAC-SHA1 signer (OAuth 1.0), written from the RFC text.

Shares no code with tornado (no urllib.parse.quote either: the percent-encoder of
§3.6 is spelled out).  `variant` switches reproduce, one at a time, the ways an
implementation is known to deviate; the check uses them only to *name* the
mechanism of an observed mismatch, never to accept one.

  §3.4.1.1  base string = METHOD(upper) & enc(base-string-URI) & enc(normalised parameters)
  §3.4.1.2  base string URI: scheme and host lower-cased, port dropped iff it is the
            scheme's default (http:80, https:443), path as sent, no query/fragment.
            "host" is the RFC 3986 host component: an IPv6 literal keeps its brackets
            ("[::1]:8080" is what the Host header field carries, which §3.4.1.2 item 2
            requires host and port to match); its hex digits are lower-cased with the host.
            Not pinned: a port written with leading zeros or an empty port ("h:080", "h:") —
            §3.4.1.2 neither asks for nor forbids numeric normalisation of the port text.
  §3.4.1.3.2 parameters: encode names and values, sort by encoded name (then encoded
            value) in ascending byte order, name=value joined by &
  §3.4.2    key = enc(client shared-secret) & enc(token shared-secret)
  §3.6      enc: UTF-8, every octet but ALPHA / DIGIT / "-" / "." / "_" / "~" becomes %XX (upper-case hex)
"""
from __future__ import annotations

import base64
import hashlib
import hmac
import re

_UNRESERVED = frozenset(b"ABCDEFGHIJKLMNOPQRSTUVWXYZabcdefghijklmnopqrstuvwxyz0123456789-._~")
_URL_RE = re.compile(r"^([A-Za-z][A-Za-z0-9+.\-]*)://([^/?#]*)([^?#]*)(?:\?([^#]*))?(?:#(.*))?$", re.S)


def enc(s) -> str:
    if isinstance(s, str):
        s = s.encode("utf-8")
    return "".join(chr(b) if b in _UNRESERVED else "%%%02X" % b for b in s)


def base_string_uri(url: str, keep_default_port=False, drop_path_params=False, drop_ipv6_brackets=False) -> str:
    m = _URL_RE.match(url)
    if not m:
        raise ValueError("not an absolute http(s) URL: %r" % url)
    scheme, authority, path = m.group(1).lower(), m.group(2).lower(), m.group(3)
    if not keep_default_port:
        default = {"http": ":80", "https": ":443"}.get(scheme)
        if default and authority.endswith(default):
            authority = authority[: -len(default)]
    if drop_ipv6_brackets and authority.startswith("["):
        # deviation: authority rebuilt from SplitResult.hostname, which strips the brackets of an IP-literal
        authority = authority[1:].replace("]", "", 1)
    if drop_path_params:
        # what urllib.parse.urlparse()[2] yields: ";params" of the last segment cut off
        last = path.rfind("/")
        semi = path.find(";", last + 1 if last >= 0 else 0)
        if semi >= 0:
            path = path[:semi]
    return scheme + "://" + authority + path


def normalized_parameters(params, raw_names=False) -> str:
    """params: iterable of (name, value) str pairs."""
    if raw_names:
        # deviation: names neither encoded nor used encoded for sorting
        pairs = sorted((k, v) for k, v in params)
        return "&".join(k + "=" + enc(v) for k, v in pairs)
    pairs = sorted((enc(k).encode("ascii"), enc(v).encode("ascii")) for k, v in params)
    return "&".join(k.decode() + "=" + v.decode() for k, v in pairs)


def signature_base_string(method, url, params, **variant) -> str:
    uri = base_string_uri(url, keep_default_port=variant.get("keep_default_port", False),
                          drop_path_params=variant.get("drop_path_params", False),
                          drop_ipv6_brackets=variant.get("drop_ipv6_brackets", False))
    norm = normalized_parameters(params, raw_names=variant.get("raw_names", False))
    return "&".join([enc(method.upper()), enc(uri), enc(norm)])


def hmac_sha1_signature(method, url, params, consumer_secret, token_secret="", **variant) -> bytes:
    base = signature_base_string(method, url, params, **variant)
    if variant.get("raw_key"):
        key = consumer_secret.encode("utf-8") + b"&" + token_secret.encode("utf-8")
    else:
        key = (enc(consumer_secret) + "&" + enc(token_secret)).encode("ascii")
    return base64.b64encode(hmac.new(key, base.encode("ascii"), hashlib.sha1).digest())
