"""Additions to the strict response reader used by C02/C03/C07/C29.

Nothing here imports tornado.  `vf.refs.http` is not modified; everything is a
new function layered on top of it.

    ex = read_exchange(rx, eof, methods)

delimits everything a peer received on one connection for the request methods
it sent (in order) and classifies the tail, never guessing:

    ex.responses   complete responses, in order
    ex.state       'clean'        every byte belongs to a complete response
                   'empty'        no byte at all was received
                   'incomplete'   the last message is not complete and the
                                  connection is still open (needs more bytes)
                   'truncated'    EOF arrived inside the last message
                   'malformed'    the strict reader REJECTS the tail
                   'unspec'       tail is in a class the reader does not pin
                   'leftover'     bytes remain after the last expected response
    ex.why         reader's reason for incomplete/truncated/malformed/unspec
    ex.tail        the undelimited bytes (for the witness)
"""
from __future__ import annotations

import re

from vf.refs import http as H


class Exchange:
    def __init__(self):
        self.responses = []
        self.state = "clean"
        self.why = None
        self.tail = b""

    def as_dict(self):
        return {"state": self.state, "why": self.why, "tail": self.tail[:300],
                "responses": [r.as_dict() for r in self.responses]}


def read_exchange(rx: bytes, eof: bool, methods) -> Exchange:
    ex = Exchange()
    rest = bytes(rx)
    if not rest:
        ex.state = "empty"
        return ex
    for m in methods:
        if not rest:
            break
        try:
            r = H.read_response(rest, m, eof)
        except H.Incomplete as e:
            ex.state, ex.why, ex.tail = "incomplete", str(e), rest
            return ex
        except H.Reject as e:
            why = str(e)
            ex.state = "truncated" if (eof and why.startswith("EOF")) else "malformed"
            ex.why, ex.tail = why, rest
            return ex
        except H.Unspec as e:
            ex.state, ex.why, ex.tail = "unspec", str(e), rest
            return ex
        ex.responses.append(r)
        rest = r.rest
        if r.framing == "close":
            break
    if rest:
        ex.state, ex.tail = "leftover", rest
    return ex


def raw_head(data: bytes):
    """Independent byte-level split of the first message head: returns
    (status_line, [header line bytes...], offset_after_blank_line) splitting on
    CRLF only, or None when no CRLF CRLF terminator is present."""
    end = data.find(b"\r\n\r\n")
    if end < 0:
        return None
    lines = data[:end].split(b"\r\n")
    return lines[0], lines[1:], end + 4


def conn_tokens(resp) -> list:
    """Lower-cased connection options of a response."""
    out = []
    for v in resp.get_all("connection"):
        out += [t.strip(b" \t").lower().decode("latin-1") for t in v.split(b",") if t.strip(b" \t")]
    return out


def header_map(resp) -> dict:
    """lower-cased name -> list of value bytes in wire order."""
    d = {}
    for k, v in resp.headers:
        d.setdefault(k.lower().decode("latin-1"), []).append(v)
    return d


_CTL = re.compile(rb"[\r\n\x00]")


def ctl_bytes_in_lines(lines) -> list:
    """CR / LF / NUL occurrences inside CRLF-delimited head lines."""
    bad = []
    for i, ln in enumerate(lines):
        m = _CTL.search(ln)
        if m:
            bad.append((i, ln[:120], m.group(0)))
    return bad


def vary_tokens(resp) -> list:
    out = []
    for v in resp.get_all("vary"):
        out += [t.strip(b" \t").lower().decode("latin-1") for t in v.split(b",") if t.strip(b" \t")]
    return out
