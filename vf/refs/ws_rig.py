"""Rigs shared by the WebSocket properties C14..C17.

* server role: the real Application/HTTPServer/WebSocketHandler is driven through
  ServerRig.handle_stream over a socketpair; the harness end is a raw `Peer`
  speaking through vf.refs.ws (independent codec).
* client role: the real tornado.websocket.websocket_connect connects through a
  FakeResolver to an abstract AF_UNIX listener owned by the harness; the accepted
  socket is the raw `Peer` (raw server), or is handed to a ServerRig (tornado <-> tornado).

Everything runs on the virtual loop; waiting is done with settle() only.
"""
from __future__ import annotations

import asyncio
import itertools
import os
import socket

from vf import core
from vf.refs import ws
from vf.vloop import settle
from vf.wire import Peer, ScriptedIOStream, ServerRig

core.use_repo()

import tornado.web  # noqa: E402
import tornado.websocket as tws  # noqa: E402
from tornado.netutil import Resolver  # noqa: E402

HOST = "127.0.0.1:9999"
KEY = "dGhlIHNhbXBsZSBub25jZQ=="


class Rec:
    """Application-level event log (what the property statements call 'delivered')."""

    def __init__(self):
        self.events = []
        self.handler = None

    def add(self, *ev):
        self.events.append(ev)

    def messages(self):
        return [e[1] for e in self.events if e[0] == "msg"]

    def count(self, kind):
        return sum(1 for e in self.events if e[0] == kind)


def make_handler(rec: Rec, compression=None, select=None, on_message=None, origin_ok=None,
                 open_hook=None):
    """WebSocketHandler subclass recording at the public callback boundary.
    compression: None | dict -> get_compression_options();  select: callable(list)->str|None;
    on_message: optional callable(handler, msg) (may return an awaitable), run after recording."""

    class H(tws.WebSocketHandler):
        def get_compression_options(self):
            return compression

        def select_subprotocol(self, subprotocols):
            rec.add("select", list(subprotocols))
            if select is None:
                return None
            return select(subprotocols)

        def open(self, *a, **k):
            rec.handler = self
            rec.add("open")
            if open_hook is not None:
                return open_hook(self)

        def on_message(self, message):
            rec.add("msg", message)
            if on_message is not None:
                return on_message(self, message)

        def on_ping(self, data):
            rec.add("ping", bytes(data))

        def on_pong(self, data):
            rec.add("pong", bytes(data))

        def on_close(self):
            rec.add("close", self.close_code, self.close_reason)

    if origin_ok is not None:
        H.check_origin = lambda self, origin: origin_ok
    return H


class ServerSession:
    """Tornado is the server; self.peer is the raw client."""

    def __init__(self, handler_cls, settings=None, read_plan=None, write_plan=None):
        app = tornado.web.Application([("/ws", handler_cls)], **(settings or {}))
        self.rig = ServerRig(app, record=False)
        self.peer = self.rig.connect(read_plan=read_plan, write_plan=write_plan)
        self.stream = self.rig.streams[-1]
        self.head = None
        self.parser = ws.FrameParser()

    async def handshake(self, headers=None, request=None, cuts=None):
        """Send the upgrade request, return the parsed response head (or None)."""
        req = request if request is not None else ws.client_request(
            "/ws", headers if headers is not None else ws.std_client_headers(HOST, KEY))
        await self.peer.send(req, cuts)
        await self.peer.drain(2)
        self.head = ws.parse_head(bytes(self.peer.rx))
        if self.head is not None:
            del self.peer.rx[:len(self.peer.rx) - len(self.head.rest)]
        return self.head

    def frames(self):
        """Decode whatever tornado has sent since the last call."""
        self.peer.pump()
        data = bytes(self.peer.rx)
        del self.peer.rx[:]
        return self.parser.feed(data)

    async def close(self):
        self.peer.close()
        await settle()
        await self.rig.close()


_counter = itertools.count()


class Listener:
    """Abstract-namespace AF_UNIX listener (no filesystem entry; Linux)."""

    def __init__(self):
        self.addr = "\0vf-ws-%d-%d" % (os.getpid(), next(_counter))
        self.sock = socket.socket(socket.AF_UNIX, socket.SOCK_STREAM)
        self.sock.bind(self.addr)
        self.sock.listen(16)
        self.sock.setblocking(False)

    def accept(self):
        try:
            s, _ = self.sock.accept()
        except BlockingIOError:
            return None
        s.setblocking(False)
        return s

    def close(self):
        self.sock.close()


class FakeResolver(Resolver):
    """resolve() answers synchronously with one AF_UNIX address (DESIGN 2.1)."""

    def initialize(self, addr=None):
        self.addr = addr

    async def resolve(self, host, port, family=socket.AF_UNSPEC):
        return [(socket.AF_UNIX, self.addr)]


_listener = None


def listener() -> Listener:
    global _listener
    if _listener is None:
        _listener = Listener()
    return _listener


class ClientSession:
    """Tornado is the client (websocket_connect); self.peer is the raw server."""

    def __init__(self, rec: Rec, callback_style=True, **connect_kw):
        self.rec = rec
        self.callback_style = callback_style
        self.connect_kw = connect_kw
        self.conn = None
        self.error = None
        self.peer = None
        self.request = None
        self.parser = ws.FrameParser()
        self.future = None
        self.hook = None          # optional callable(message) run inside on_message_callback

    def start(self, url="ws://testhost/ws"):
        kw = dict(self.connect_kw)
        if self.callback_style:
            rec = self.rec

            def cb(m):
                if m is None:
                    rec.add("close_msg")
                else:
                    rec.add("msg", m)
                if self.hook is not None:
                    self.hook(m)
            kw["on_message_callback"] = cb
        lst = listener()
        self.future = asyncio.ensure_future(
            tws.websocket_connect(url, resolver=FakeResolver(addr=lst.addr), **kw))
        return self.future

    async def accept(self):
        """Accept the TCP connection and read the upgrade request head."""
        await settle()
        s = listener().accept()
        if s is None:
            return None
        self.peer = Peer(s)
        await self.peer.drain(2)
        self.request = ws.parse_head(bytes(self.peer.rx))
        del self.peer.rx[:]
        return self.request

    async def respond(self, response: bytes, cuts=None):
        """Send the handshake response; returns the connection or None (self.error set)."""
        await self.peer.send(response, cuts)
        return await self.result()

    async def result(self):
        try:
            self.conn = await self.future
        except Exception as e:  # the connect future carries the rejection
            self.error = e
            self.conn = None
        await self.peer.drain(1)
        return self.conn

    def frames(self):
        self.peer.pump()
        data = bytes(self.peer.rx)
        del self.peer.rx[:]
        return self.parser.feed(data)

    async def close(self):
        if self.conn is not None and self.conn.protocol is not None:
            try:
                self.conn.protocol._abort()
            except Exception:
                pass
        if self.peer is not None:
            self.peer.close()
        if self.future is not None and not self.future.done():
            self.future.cancel()
        await settle(2)


async def pump_until_idle(peer: Peer, max_rounds=4000):
    """settle()+pump until two consecutive rounds bring nothing new."""
    idle = 0
    last = len(peer.rx)
    for _ in range(max_rounds):
        await settle()
        peer.pump()
        if len(peer.rx) == last:
            idle += 1
            if idle >= 2:
                return
        else:
            idle = 0
            last = len(peer.rx)


def deflate_offer(params: dict) -> str:
    return ws.format_extension("permessage-deflate", params)


class TimedPeer(Peer):
    """Peer whose socket is watched by the loop: every frame tornado sends is decoded by the
    reference parser and stamped with the virtual time at which it became readable; EOF likewise.
    (Synchronous AF_UNIX delivery => the stamp is the time tornado wrote / closed.)"""

    def __init__(self, sock, loop, leftover=b""):
        super().__init__(sock)
        self.loop = loop
        self.parser = ws.FrameParser()
        self.frames = []          # [(t, Frame)]
        self.eof_time = None
        self.on_frame = None
        self._watching = True
        if leftover:
            self._feed(leftover)
        loop.add_reader(sock.fileno(), self.pump)

    def _feed(self, data):
        now = self.loop.time()
        for f in self.parser.feed(data):
            self.frames.append((now, f))
            if self.on_frame is not None:
                self.on_frame(now, f)

    def pump(self):
        if self.sock is None:
            return
        from vf.wire import recv_available
        d, eof = recv_available(self.sock)
        if d:
            self._feed(d)
        if eof and self.eof_time is None:
            self.eof = True
            self.eof_time = self.loop.time()
            self._unwatch()

    def _unwatch(self):
        if self._watching and self.sock is not None:
            self._watching = False
            try:
                self.loop.remove_reader(self.sock.fileno())
            except Exception:
                pass

    def close(self):
        self._unwatch()
        super().close()

    def send_now(self, data: bytes):
        """Put bytes into the socket without yielding to the loop (small frames only)."""
        try:
            self.sock.send(data)
        except OSError as e:
            self.send_error = e
