"""Reference router for C31: first rule whose patterns match the *whole* host and path.

A routing table is a tree written in a neutral form (independent of tornado's classes):

    table  := [rule, ...]
    rule   := {"cond": ("path", regex) | ("host", regex) | ("any",),
               "leaf": id | None, "sub": table | None, "kwargs": dict, "name": str | None}

`resolve(table, host_name, path)` walks it depth first and returns the first leaf all of whose
conditions (its own and its ancestors') `re.fullmatch` the host name / the path, together with the
percent-decoded captures of the leaf's own path condition.  No `$` is appended and `match` is never
used: that is exactly the part of the real implementation this oracle must not share.
"""
from __future__ import annotations

import re

HEXDIGITS = b"0123456789abcdefABCDEF"


def pct_decode(s: str) -> bytes:
    """RFC 3986 percent-decoding of the UTF-8 encoding of `s`; malformed escapes are kept verbatim."""
    b = s.encode("utf-8")
    out = bytearray()
    i, n = 0, len(b)
    while i < n:
        if b[i] == 0x25 and i + 2 < n and b[i + 1] in HEXDIGITS and b[i + 2] in HEXDIGITS:
            out.append(int(b[i + 1:i + 3].decode("ascii"), 16))
            i += 3
        else:
            out.append(b[i])
            i += 1
    return bytes(out)


def host_name_of(host_header: str) -> str:
    """Host header -> lower-cased host without the port."""
    h = host_header.lower()
    m = re.fullmatch(r"(.+):([0-9]+)", h, re.DOTALL)
    return m.group(1) if m else h


def cond_matches(cond, host_name, path):
    """Returns None (no match) or (args, kwargs) with percent-decoded captures."""
    kind = cond[0]
    if kind == "any":
        return [], {}
    if kind == "host":
        return ([], {}) if re.fullmatch(cond[1], host_name) else None
    if kind == "path":
        m = re.fullmatch(cond[1], path)
        if m is None:
            return None
        rx = m.re
        if rx.groupindex:
            return [], {k: (None if v is None else pct_decode(v)) for k, v in m.groupdict().items()}
        return [None if v is None else pct_decode(v) for v in m.groups()], {}
    raise ValueError(kind)


def resolve(table, host_name, path):
    """First matching leaf: returns (leaf_id, args, kwargs, target_kwargs) or None."""
    for rule in table:
        r = cond_matches(rule["cond"], host_name, path)
        if r is None:
            continue
        if rule.get("sub") is not None:
            got = resolve(rule["sub"], host_name, path)
            if got is not None:
                return got
            continue
        return rule["leaf"], r[0], r[1], rule.get("kwargs") or {}
    return None


def leaves(table, prefix=()):
    """Yields (rule, ancestors) for every leaf rule in order."""
    for rule in table:
        if rule.get("sub") is not None:
            yield from leaves(rule["sub"], prefix + (rule,))
        else:
            yield rule, prefix
