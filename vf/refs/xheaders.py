"""Reference resolution of proxy headers (oracle of C32), deliberately the most lenient reading.

For one request (only its own headers, the socket address and the configuration are inputs —
nothing from earlier requests) it returns

    must     the value remote_ip has to have, or None where the statement does not pin it
    allowed  the set of values remote_ip may have at all

"numeric IP":  strict_ip  = inet_pton(AF_INET | AF_INET6) accepts it           (used for MUST)
               lenient_ip = strict, or IPv6 with a %zone suffix, or a legacy inet_aton form
                            (used for MAY)
"""
from __future__ import annotations

import socket


def _pton(fam, s):
    try:
        return socket.inet_pton(fam, s)
    except (OSError, ValueError, UnicodeError):
        return None


def packed(s):
    if not isinstance(s, str) or not s or "\x00" in s:
        return None
    return _pton(socket.AF_INET, s) or _pton(socket.AF_INET6, s)


def strict_ip(s) -> bool:
    return packed(s) is not None


def lenient_ip(s) -> bool:
    if not isinstance(s, str) or not s or "\x00" in s:
        return False
    if strict_ip(s):
        return True
    if "%" in s:
        head, _, zone = s.partition("%")
        if zone and _pton(socket.AF_INET6, head) is not None:
            return True
    try:
        socket.inet_aton(s)
        return True
    except (OSError, ValueError, UnicodeError):
        return False


def split_list(values):
    """Header lines -> comma separated entries with surrounding whitespace removed."""
    out = []
    for v in values:
        out += [e.strip(" \t") for e in v.split(",")]
    return out


def resolve_ip(sock_ip, real_lines, xff_lines, trusted):
    """Returns (must, allowed)."""
    trusted = list(trusted or [])
    xff = split_list(xff_lines)
    real_pieces = split_list(real_lines)
    allowed = {sock_ip}
    for e in xff + real_pieces + [v.strip(" \t") for v in real_lines]:
        # an implementation may trim more than HTTP's OWS (str.strip() also removes NBSP, form feed ...)
        for cand in (e, e.strip()):
            if lenient_ip(cand):
                allowed.add(cand)
    must = None
    if len(real_lines) == 1 and strict_ip(real_lines[0].strip(" \t")):
        must = real_lines[0].strip(" \t")
    elif not real_lines and not xff_lines:
        must = sock_ip
    elif not real_lines:
        tpacked = {packed(t) for t in trusted if packed(t) is not None}
        cand = None
        for e in reversed(xff):
            if e not in trusted:
                cand = e
                break
        if cand is not None and strict_ip(cand) and packed(cand) not in tpacked:
            # every entry to the right of cand is trusted by exact text; make sure none of them is
            # merely *equivalent* to a trusted address under another spelling (not pinned)
            must = cand
    return must, allowed


def resolve_protocol(sock_proto, scheme_lines, proto_lines):
    """Returns (must, allowed)."""
    allowed = {sock_proto}
    for e in split_list(list(scheme_lines) + list(proto_lines)):
        if e in ("http", "https"):
            allowed.add(e)
    allowed &= {"http", "https"} | {sock_proto}
    must = sock_proto if not scheme_lines and not proto_lines else None
    return must, allowed
