"""Cursor model of the BaseIOStream read contracts (oracle side of C11 / C13).

Written from the docstrings of tornado/iostream.py and the property statements;
shares no code with tornado.  The incoming stream S is known to the harness, so
a read result is judged by *where the cursor is* and *what the request's
contract determines*:

    ("bytes", n, partial)         read_bytes(n, partial)
    ("into", n, partial)          read_into(bytearray(n), partial)
    ("until", delim, max_bytes)   read_until(delim, max_bytes)
    ("regex", rx, max_bytes)      read_until_regex(source(rx), max_bytes)
    ("close",)                    read_until_close()

Regex requests are restricted to *arrival-independent* families, for which the
end of the result does not depend on how much of the stream had arrived when the
search ran (the leftmost match is also the earliest-ending one and lies entirely
inside every prefix that contains any match):

    ("alt", (b"ab", b"cd"))       alternation of equal-width literals
    ("cls", (b"ab", b"\\r\\n"))     sequence of byte classes (one byte each)
    ("http",)                     \\r?\\n\\r?\\n   (the header terminator used by http1connection)
    ("greedy", pattern)           UNSPECIFIED end: only prefix + ends-at-a-match is demanded
"""
from __future__ import annotations

import re


def kind_of(req):
    k = req[0]
    if k in ("bytes", "into"):
        return k + ("_partial" if req[2] else "")
    if k in ("until", "regex"):
        return k + ("_max" if req[2] is not None else "")
    return k


def regex_source(rx) -> bytes:
    fam = rx[0]
    if fam == "alt":
        return b"|".join(re.escape(a) for a in rx[1])
    if fam == "cls":
        return b"".join(b"[" + b"".join(re.escape(bytes([c])) for c in cls) + b"]" for cls in rx[1])
    if fam == "http":
        return rb"\r?\n\r?\n"
    if fam == "greedy":
        return rx[1]
    raise ValueError(rx)


def is_greedy(req):
    return req[0] == "regex" and req[1][0] == "greedy"


def first_match_end(req, data: bytes):
    """End offset (exclusive) of the earliest-ending match of a delimiter/regex
    request in `data`, or None.  Hand-written scanners, no `re`."""
    k = req[0]
    if k == "until":
        d = req[1]
        i = data.find(d)
        return None if i < 0 else i + len(d)
    if k != "regex":
        return None
    rx = req[1]
    fam = rx[0]
    if fam == "alt":
        best = None
        for a in rx[1]:
            i = data.find(a)
            if i >= 0 and (best is None or i + len(a) < best):
                best = i + len(a)
        return best
    if fam == "cls":
        classes = rx[1]
        w = len(classes)
        first = classes[0]
        n = len(data)
        # candidate starts: any byte of the first class
        pos = 0
        while True:
            nxt = -1
            for c in first:
                j = data.find(bytes([c]), pos)
                if j >= 0 and (nxt < 0 or j < nxt):
                    nxt = j
            if nxt < 0 or nxt + w > n:
                return None
            if all(data[nxt + t] in classes[t] for t in range(1, w)):
                return nxt + w
            pos = nxt + 1
    if fam == "http":
        pos = 0
        n = len(data)
        while True:
            p = data.find(b"\n", pos)
            if p < 0:
                return None
            if p + 1 < n and data[p + 1] == 10:
                return p + 2
            if p + 2 < n and data[p + 1] == 13 and data[p + 2] == 10:
                return p + 3
            pos = p + 1
    return None


def expect(req, m, avail, eof):
    """What the contract determines for request `req` when `avail` bytes at/after
    the cursor are available to the stream and (eof) no more can ever come.

    m = first_match_end(req, <all remaining stream>)  (arrival independent).
    Returns ("data", k) | ("partial", lo, hi) | ("unsat",) | ("pending",) | ("fail",) | ("unspec",)
    """
    k = req[0]
    if k in ("bytes", "into"):
        n, partial = req[1], req[2]
        if partial:
            if n == 0:
                return ("data", 0)
            if avail > 0:
                return ("partial", 1, min(n, avail))
        elif avail >= n:
            return ("data", n)
        return ("fail",) if eof else ("pending",)
    if k == "close":
        return ("data", avail) if eof else ("pending",)
    if k in ("until", "regex"):
        if is_greedy(req):
            return ("unspec",)
        mb = req[2]
        if m is not None and (mb is None or m <= mb):
            if avail >= m:
                return ("data", m)
            return ("fail",) if eof else ("pending",)
        if mb is not None and avail > mb:
            return ("unsat",)
        return ("fail",) if eof else ("pending",)
    raise ValueError(req)


def conformance(req, data: bytes, S: bytes, c: int, m, limit: int):
    """Contract violations of a *successful* read result `data` (bytes actually
    delivered; for read_into the first `count` bytes of the caller's buffer) at
    cursor c.  `limit` = absolute stream offset the result may not pass (bytes
    that exist for the stream).  Returns list of (mechanism_suffix, text)."""
    out = []
    n = len(data)
    if data != S[c:c + n]:
        out.append(("not-at-cursor", "result is not the stream content at the read cursor "
                                     "(bytes lost, duplicated or reordered)"))
        return out
    if c + n > limit:
        out.append(("beyond-available", "result contains bytes that had not been delivered to the stream yet"))
    k = req[0]
    if k in ("bytes", "into"):
        want, partial = req[1], req[2]
        if partial:
            if n > want or (n == 0 and want > 0):
                out.append(("partial-length", "partial read returned a length outside 1..n"))
        elif n != want:
            out.append(("length", "fixed-size read returned a different number of bytes"))
    elif k == "until":
        d, mb = req[1], req[2]
        if not data.endswith(d):
            out.append(("no-delimiter-at-end", "read_until result does not end with the delimiter"))
        elif data.find(d) != n - len(d):
            out.append(("not-first-delimiter", "read_until result runs past the first occurrence of the delimiter"))
        if mb is not None and n > mb:
            out.append(("over-max-bytes", "delimiter read returned more than max_bytes"))
    elif k == "regex":
        mb = req[2]
        if is_greedy(req):
            if re.search(b"(?:" + regex_source(req[1]) + b")\\Z", data) is None:
                out.append(("no-match-at-end", "regex read result does not end at a match"))
        elif m is None or n != m:
            out.append(("wrong-match-end", "regex read result does not end at the end of the first match"))
        if mb is not None and n > mb:
            out.append(("over-max-bytes", "regex read returned more than max_bytes"))
    return out
