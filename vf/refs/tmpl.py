"""Generate-and-know reference for tornado.template (C19, C20).

An AST is generated, *printed* to template source with randomised legal spacing
and *evaluated* by the direct interpreter below.  Nothing here imports
tornado.template.  `lex()` is the printer self-check: a tokenizer of the
documented lexical rules that must split the printed source back into exactly
the intended segments, otherwise the case is discarded by the caller.

Node shapes (tuples, lexical order of bodies = print order):
  ("text", s) ("esc", "{{"|"{%"|"{#") ("expr", src) ("raw", src) ("module", src)
  ("set", name, src) ("import", stmt) ("break",) ("continue",)
  ("if", [(cond, body), ...], else|None) ("for", var, it, body, else|None)
  ("while", cond, body, else|None)
  ("try", body, [(exc|None, asname|None, body), ...], else|None, finally|None)
  ("apply", fn, body) ("block", name, body)
  ("comment", s) ("tcomment", s) ("autoescape", fn|None) ("whitespace", mode)
  ("extends", ref, target) ("include", ref, target)
  ("bad", kind, source_text, token)      malformed insertion, printed verbatim
"""
from __future__ import annotations

import decimal
import enum
import fractions
import functools
import json
import re
import urllib.parse

# ------------------------------------------------------------------------------------------
# namespace shared by both sides (plain python objects; no tornado)

_TABLE = {"&": "&amp;", "<": "&lt;", ">": "&gt;", "\"": "&quot;", "'": "&#x27;"}


def table_escape(v):
    if isinstance(v, bytes):
        v = v.decode("utf-8")
    return "".join(_TABLE.get(c, c) for c in v)


class Obj:
    def __init__(self, s):
        self.s = s

    def __str__(self):
        return self.s

    def __repr__(self):
        return "Obj(%r)" % (self.s,)


class Mods:
    def M(self, x):
        return x

    def Two(self, x, y="<y&>"):
        return "%s|%s" % (x, y)


def _up(x):
    return (x.decode("utf-8") if isinstance(x, bytes) else str(x)).upper()


def _boom(*a):
    raise ValueError("boom")


def _kerr(*a):
    raise KeyError("k")


def _wrap(b):
    return b"[[" + b + b"]]"


def _rev(b):
    return b.decode("utf-8")[::-1]


def _ident(b):
    return b


def _blen(b):
    return "%d" % len(b)


def _myesc(v):
    return "«" + table_escape(v) + "»"


def _besc(v):
    return table_escape(v).encode("utf-8")


def _tagesc(v):
    """A custom escaping function that transforms *every* input (wraps it), returning bytes."""
    return b"(:" + table_escape(v).encode("utf-8") + b":)"


def marker(k):
    return "<M%d>&\"'p" % k


# Values whose *type* is (a subclass of) a builtin that needs no escaping by itself but whose str() is markup:
# the value an expression tag shows is str(value), whatever the type (C20 "whatever its type or content").

class MInt(int):
    def __str__(self):
        return marker(int(self))


class MFloat(float):
    def __str__(self):
        return marker(int(self))


class MComplex(complex):
    def __str__(self):
        return marker(int(self.real))


class MFraction(fractions.Fraction):
    def __str__(self):
        return marker(int(self))


class MDecimal(decimal.Decimal):
    def __str__(self):
        return marker(int(self))


class MList(list):
    def __str__(self):
        return marker(self[0])


class MTuple(tuple):
    def __str__(self):
        return marker(self[0])


class MDict(dict):
    def __str__(self):
        return marker(self["k"])


class MStr(str):
    """A str subclass whose content is the marker (no __str__ override: the content is the value)."""


class MBytes(bytes):
    pass


@functools.lru_cache(maxsize=None)
def _menum(k):
    class MEnum(int, enum.Enum):
        A = k

        def __str__(self):
            return marker(self.value)
    return MEnum.A


@functools.lru_cache(maxsize=None)
def _mflag(k):
    class MFlag(enum.IntFlag):
        A = k

        def __str__(self):
            return marker(self.value)
    return MFlag.A


NUM_BASE = 97530000          # plain numeric markers: 9753kkkk never occurs in generated text


def num_marker(k):
    return NUM_BASE + k


# marker constructors offered to the C20 generator: name -> (callable, value class used in mechanism keys)
MARKER_FNS = {
    "mk": (marker, "str"),
    "mkb": (lambda k: marker(k).encode("utf-8"), "bytes"),
    "mko": (lambda k: Obj(marker(k)), "object"),
    "mki": (MInt, "int-subclass"),
    "mkf": (lambda k: MFloat(k), "float-subclass"),
    "mkc": (lambda k: MComplex(k, 1), "complex-subclass"),
    "mkq": (lambda k: MFraction(k), "fraction-subclass"),
    "mkd": (lambda k: MDecimal(k), "decimal-subclass"),
    "mke": (_menum, "int-enum"),
    "mkg": (_mflag, "int-flag"),
    "mkl": (lambda k: MList([k]), "list-subclass"),
    "mkt": (lambda k: MTuple((k,)), "tuple-subclass"),
    "mkm": (lambda k: MDict(k=k), "dict-subclass"),
    "mks": (lambda k: MStr(marker(k)), "str-subclass"),
    "mky": (lambda k: MBytes(marker(k).encode("utf-8")), "bytes-subclass"),
    "mkx": (lambda k: ValueError(marker(k)), "exception"),
    # plain numbers: their text needs no HTML escaping, but a custom escaping function still has to see them
    "mkn": (num_marker, "int"),
    "mkr": (lambda k: num_marker(k) + 0.5, "float"),
}
NUMERIC_MARKERS = ("mkn", "mkr")


def user_namespace():
    """Names passed to Template.generate(**kw) and visible to the interpreter."""
    return {
        "s": "<b>&\"'x", "t": "plain", "u": "é中\U0001f600", "b": b"by<tes>\xc3\xa9", "n": 3, "z": 0, "f": 2.5,
        "items": ["a", "<i>", 3], "empty": [], "d": {"k": "v&", "j": 2}, "none": None, "obj": Obj("<o&>"),
        "T": True, "F": False, "up": _up, "boom": _boom, "kerr": _kerr, "wrap": _wrap, "rev": _rev, "ident": _ident,
        "blen": _blen, "myesc": _myesc, "besc": _besc, "tagesc": _tagesc, "_tt_modules": Mods(),
        **{name: fn for name, (fn, _cls) in MARKER_FNS.items()},
    }


def default_namespace():
    """What the documentation says every template gets (own implementations)."""
    return {
        "escape": table_escape, "xhtml_escape": table_escape,
        "url_escape": lambda v, plus=True: (urllib.parse.quote_plus if plus else urllib.parse.quote)(v),
        "json_encode": lambda v: json.dumps(v).replace("</", "<\\/"),
        "squeeze": lambda v: re.sub(r"[\x00-\x20]+", " ", v).strip(),
    }


# ------------------------------------------------------------------------------------------
# whitespace filtering, from the documentation text of filter_whitespace

PLAIN_WS = " \t\n"


def has_exotic_ws(s):
    return any(c.isspace() and c not in PLAIN_WS for c in s)


def ref_filter(mode, text):
    """all: unchanged; single: every whitespace run becomes one character, a newline if the run
    held one, else a space; oneline: every whitespace run becomes one space.  Only defined here
    for the whitespace characters space, tab and newline (callers exclude others)."""
    if mode == "all":
        return text
    out = []
    i, n = 0, len(text)
    while i < n:
        if text[i] in PLAIN_WS:
            j = i
            while j < n and text[j] in PLAIN_WS:
                j += 1
            if mode == "oneline":
                out.append(" ")
            else:
                out.append("\n" if "\n" in text[i:j] else " ")
            i = j
        else:
            out.append(text[i])
            i += 1
    return "".join(out)


# The same documentation text read for the other ASCII whitespace characters (C19 only; Interp(ws_doc=True)).
#   oneline: "Collapse all runs of whitespace into a single space character, removing all newlines" -- a maximal run
#            of whitespace becomes one space whatever whitespace characters it is made of.
#   single:  "Collapse consecutive whitespace with a single whitespace character, preserving newlines" -- a run that
#            holds a newline becomes one newline; a run of spaces/tabs one space.  Which character stands for a
#            run of other whitespace without a newline (a lone CR, VT VT ...) the text does not say: not pinned.
# "Whitespace" is pinned for the six characters every definition agrees on (string.whitespace: space, tab, LF, CR,
# VT, FF).  Characters only str.isspace() / the regex class \s count as whitespace (FS..US, NEL, NBSP, U+2028,
# U+3000 ...) stay unspecified, and so does a whole text segment that contains one (it may sit inside a run).
ASCII_WS = " \t\n\r\x0b\x0c"


def ref_filter_doc(mode, text):
    """-> the filtered text, or None where the documentation does not pin the result."""
    if mode == "all":
        return text
    if any(c.isspace() and c not in ASCII_WS for c in text):
        return None
    out = []
    i, n = 0, len(text)
    while i < n:
        if text[i] not in ASCII_WS:
            out.append(text[i])
            i += 1
            continue
        j = i
        while j < n and text[j] in ASCII_WS:
            j += 1
        run = text[i:j]
        if mode == "oneline":
            out.append(" ")
        elif "\n" in run:
            out.append("\n")
        elif all(c in " \t" for c in run):
            out.append(" ")
        else:
            return None
        i = j
    return "".join(out)


# ------------------------------------------------------------------------------------------
# printer self-check: tokenizer of the documented lexical rules

_CLOSE = {"{": "}}", "%": "%}", "#": "#}"}
_KIND = {"{": "expr", "%": "tag", "#": "comment"}


def lex(src):
    toks = []
    text = []
    i, n = 0, len(src)

    def flush():
        s = "".join(text)
        del text[:]
        if s:
            toks.append(("text", s))

    while i < n:
        j = src.find("{", i)
        if j == -1 or j + 1 >= n:
            text.append(src[i:])
            break
        c = src[j + 1]
        if c not in "{%#":
            text.append(src[i:j + 1])
            i = j + 1
            continue
        if c == "{" and j + 2 < n and src[j + 2] == "{":   # more than two braces: the innermost pair opens
            text.append(src[i:j + 1])
            i = j + 1
            continue
        text.append(src[i:j])
        flush()
        if j + 2 < n and src[j + 2] == "!":
            toks.append(("esc", src[j:j + 2]))
            i = j + 3
            continue
        k = src.find(_CLOSE[c], j + 2)
        if k == -1:
            toks.append(("unterminated", c))
            return toks
        toks.append((_KIND[c], src[j + 2:k].strip()))
        i = k + 2
    flush()
    return toks


# ------------------------------------------------------------------------------------------
# lexical-order helpers

def bodies(node):
    """Bodies of a compound node in print order."""
    k = node[0]
    if k == "if":
        return [b for _, b in node[1]] + ([node[2]] if node[2] is not None else [])
    if k == "for":
        return [node[3]] + ([node[4]] if node[4] is not None else [])
    if k == "while":
        return [node[2]] + ([node[3]] if node[3] is not None else [])
    if k == "try":
        return ([node[1]] + [h[2] for h in node[2]] + ([node[3]] if node[3] is not None else [])
                + ([node[4]] if node[4] is not None else []))
    if k in ("apply", "block"):
        return [node[2]]
    return []


def map_bodies(node, f):
    """New node with every body replaced by f(body), applied in print order."""
    k = node[0]
    if k == "if":
        br = [(c, f(b)) for c, b in node[1]]
        return ("if", br, f(node[2]) if node[2] is not None else None)
    if k == "for":
        b = f(node[3])
        return ("for", node[1], node[2], b, f(node[4]) if node[4] is not None else None)
    if k == "while":
        b = f(node[2])
        return ("while", node[1], b, f(node[3]) if node[3] is not None else None)
    if k == "try":
        b = f(node[1])
        hs = [(e, a, f(hb)) for e, a, hb in node[2]]
        el = f(node[3]) if node[3] is not None else None
        return ("try", b, hs, el, f(node[4]) if node[4] is not None else None)
    if k in ("apply", "block"):
        return (k, node[1], f(node[2]))
    return node


_OPENER = re.compile(r"\{(?=[{%#])")


def _opens_with_double_brace(nd):
    return nd[0] == "expr" or (nd[0] == "esc" and nd[1] == "{{")


def merge_text(nodes):
    """Adjacent literals are one lexical segment; empty literals vanish (recursively).  A literal
    never contains an opener, and never ends in "{" before anything but "{{" (where the documented
    innermost-braces rule keeps the brace literal)."""
    out = _merge_text(nodes)
    return _seal(out, None)


def _seal(nodes, follower):
    res = []
    for i, nd in enumerate(nodes):
        nxt = nodes[i + 1] if i + 1 < len(nodes) else follower
        if nd[0] == "text":
            s = _OPENER.sub("{ ", nd[1])
            if s.endswith("{") and nxt is not None and not _opens_with_double_brace(nxt):
                s += " "
            res.append(("text", s))
        else:
            # whatever follows a body is a tag ({% else %}, {% end %} ...)
            res.append(map_bodies(nd, lambda b: _seal(b, ("tag",))))
    return res


def _merge_text(nodes):
    out = []
    for nd in nodes:
        nd = map_bodies(nd, _merge_text)
        if nd[0] == "text":
            if not nd[1]:
                continue
            if out and out[-1][0] == "text":
                out[-1] = ("text", out[-1][1] + nd[1])
                continue
        out.append(nd)
    return out


# ------------------------------------------------------------------------------------------
# printer

class StopPrint(Exception):
    pass


class Printer:
    def __init__(self, rng, newlines_in_tags=True):
        self.rng = rng
        self.nl = newlines_in_tags
        self.out = []
        self.toks = []
        self.nlines = 0          # newlines emitted so far
        self.bad_line = None
        self.multiline = {"comment": 0, "tag": 0, "expr": 0, "text": 0}    # constructs spanning lines emitted so far
        self.multiline_before_bad = None

    def emit(self, s):
        self.out.append(s)
        self.nlines += s.count("\n")

    def sp(self):
        r = self.rng.random()
        if r < 0.3:
            return ""
        if r < 0.7:
            return " "
        if r < 0.8:
            return "  "
        if r < 0.88 or not self.nl:
            return "\t"
        return self.rng.choice(["\n", " \n ", "\n\t"])

    def tag(self, contents):
        self.construct("tag", "{%" + self.sp() + contents + self.sp() + "%}")
        self.toks.append(("tag", contents))

    def construct(self, kind, s):
        if "\n" in s:
            self.multiline[kind] += 1
        self.emit(s)

    def op(self, name, arg=""):
        if arg:
            return name + " " + self.rng.choice(["", "", " ", "\t"]) + arg
        return name

    def text(self, s):
        self.construct("text", s)
        if self.toks and self.toks[-1][0] == "text":
            self.toks[-1] = ("text", self.toks[-1][1] + s)
        else:
            self.toks.append(("text", s))

    def nodes(self, nodes):
        for nd in nodes:
            self.node(nd)

    def node(self, nd):
        k = nd[0]
        if k == "text":
            self.text(nd[1])
        elif k == "esc":
            self.emit(nd[1] + "!")
            self.toks.append(("esc", nd[1]))
        elif k == "expr":
            src = nd[1]
            a, b = self.sp(), self.sp()
            if src.startswith(("{", "!")) and not a:
                a = " "
            if src.endswith("}") and not b:
                b = " "
            self.construct("expr", "{{" + a + src + b + "}}")
            self.toks.append(("expr", src))
        elif k in ("raw", "module"):
            self.tag(self.op(k, nd[1]))
        elif k == "set":
            eq = self.rng.choice(["=", " = ", " =", "= "])
            self.tag(self.op("set", nd[1] + eq + nd[2]))
        elif k == "import":
            self.tag(nd[1])
        elif k in ("break", "continue"):
            self.tag(k)
        elif k == "if":
            for i, (c, body) in enumerate(nd[1]):
                self.tag(self.op("if" if i == 0 else "elif", c))
                self.nodes(body)
            if nd[2] is not None:
                self.tag("else")
                self.nodes(nd[2])
            self.tag("end")
        elif k == "for":
            self.tag(self.op("for", nd[1] + " in " + nd[2]))
            self.nodes(nd[3])
            if nd[4] is not None:
                self.tag("else")
                self.nodes(nd[4])
            self.tag("end")
        elif k == "while":
            self.tag(self.op("while", nd[1]))
            self.nodes(nd[2])
            if nd[3] is not None:
                self.tag("else")
                self.nodes(nd[3])
            self.tag("end")
        elif k == "try":
            self.tag("try")
            self.nodes(nd[1])
            for exc, asname, hb in nd[2]:
                arg = ""
                if exc is not None:
                    arg = exc + (" as " + asname if asname else "")
                self.tag(self.op("except", arg))
                self.nodes(hb)
            if nd[3] is not None:
                self.tag("else")
                self.nodes(nd[3])
            if nd[4] is not None:
                self.tag("finally")
                self.nodes(nd[4])
            self.tag("end")
        elif k in ("apply", "block"):
            self.tag(self.op(k, nd[1]))
            self.nodes(nd[2])
            self.tag("end")
        elif k == "comment":
            body = nd[1]
            a = self.sp()
            if body.startswith("!") and not a:
                a = " "
            self.construct("comment", "{#" + a + body + self.sp() + "#}")
            self.toks.append(("comment", body.strip()))
        elif k == "tcomment":
            self.tag(self.op("comment", nd[1]))
        elif k == "autoescape":
            self.tag(self.op("autoescape", "None" if nd[1] is None else nd[1]))
        elif k == "whitespace":
            self.tag(self.op("whitespace", nd[1]))
        elif k in ("extends", "include"):
            q = self.rng.choice(['"', '"', "'", ""])
            self.tag(self.op(k, q + nd[1] + q))
        elif k == "bad":
            _, kind, text, token = nd
            self.bad_line = self.nlines + 1
            self.multiline_before_bad = dict(self.multiline)
            self.emit(text)
            if isinstance(token, list):
                self.toks.extend(token)
            elif token is not None:
                self.toks.append(token)
            if kind.startswith("unterminated"):
                raise StopPrint()
        else:
            raise AssertionError(k)


def print_file(nodes, rng, newlines_in_tags=True):
    """-> (source, intended tokens, line of the ("bad", ...) node or None, total lines)."""
    p = Printer(rng, newlines_in_tags)
    try:
        p.nodes(nodes)
    except StopPrint:
        pass
    src = "".join(p.out)
    return src, p.toks, p.bad_line, p.nlines + 1


def print_file_ex(nodes, rng, newlines_in_tags=True):
    """print_file plus {construct kind: how many of them spanned lines before the ("bad", ...) node} (or None)."""
    p = Printer(rng, newlines_in_tags)
    try:
        p.nodes(nodes)
    except StopPrint:
        pass
    return "".join(p.out), p.toks, p.bad_line, p.nlines + 1, p.multiline_before_bad


# ------------------------------------------------------------------------------------------
# direct interpreter

class _Break(BaseException):
    pass


class _Continue(BaseException):
    pass


UNSET = "<unset>"


def _suffix_ws(name):
    return "single" if name.endswith((".html", ".js")) else "all"


def file_settings(case):
    """-> {file name: (initial whitespace mode, autoescape before directives)} from the documented
    precedence: constructor argument, then loader setting, then file-name suffix / xhtml_escape."""
    cfg = case["cfg"]
    out = {}
    for name in case["files"]:
        ws = cfg.get("loader_ws") or _suffix_ws(name)
        auto = cfg.get("loader_autoescape", UNSET)
        if auto == UNSET:
            auto = "xhtml_escape"
        out[name] = (ws, auto)
    if cfg["via"] == "ctor":
        main = case["main"]
        shown = cfg.get("ctor_name") or "<string>"
        if cfg.get("ctor_ws"):
            ws = cfg["ctor_ws"]
        elif cfg.get("ctor_cw") is not None:
            ws = "single" if cfg["ctor_cw"] else "all"
        elif cfg.get("loader") and cfg.get("loader_ws"):
            ws = cfg["loader_ws"]
        else:
            ws = _suffix_ws(shown)
        auto = cfg.get("ctor_autoescape", UNSET)
        if auto == UNSET:
            auto = out[main][1] if cfg.get("loader") else "xhtml_escape"
        out[main] = (ws, auto)
    return out


class Interp:
    def __init__(self, case, ns, ws_doc=False):
        self.ns = dict(default_namespace())
        self.ns.update(ns)
        self.unspecified = set()
        self.ws_doc = ws_doc         # C19: other ASCII whitespace under a filtering mode is judged where documented
        self.ws_pinned = {}          # mode -> number of text segments with such whitespace that were pinned
        self.emits = []              # (src, file, escaped?, inside apply?) for every expression emitted
        self.files = {}
        self.auto = {}
        self.blocks = {}
        settings = file_settings(case)
        for name, nodes in case["files"].items():
            ws0, auto0 = settings[name]
            st = {"ws": ws0, "auto": []}
            self.files[name] = self._annotate(nodes, st)
            if len(st["auto"]) > 1:
                self.unspecified.add("several-autoescape-directives")
            self.auto[name] = st["auto"][-1] if st["auto"] else auto0
            blocks = {}
            self._collect_blocks(self.files[name], blocks)
            self.blocks[name] = blocks
        self.chain = [case["main"]]
        while True:
            ext = [nd for nd in self.files[self.chain[-1]] if nd[0] == "extends"]
            if not ext:
                break
            self.chain.append(ext[0][2])
        self.apply_depth = 0

    def _annotate(self, nodes, st):
        out = []
        for nd in nodes:
            k = nd[0]
            if k == "text":
                s = nd[1]
                if "<pre>" in s:
                    f = s
                else:
                    f = None
                    if st["ws"] != "all" and has_exotic_ws(s):
                        if self.ws_doc:
                            f = ref_filter_doc(st["ws"], s)
                        if f is None:
                            self.unspecified.add("exotic-whitespace-under-filtering")
                        else:
                            key = st["ws"] + ("" if any(c in PLAIN_WS for c in s) else "-no-plain-ws-in-segment")
                            self.ws_pinned[key] = self.ws_pinned.get(key, 0) + 1
                    if f is None:
                        f = ref_filter(st["ws"], s)
                out.append(("text", f))
            elif k == "whitespace":
                st["ws"] = nd[1]
            elif k == "autoescape":
                st["auto"].append(nd[1])
            else:
                out.append(map_bodies(nd, lambda b: self._annotate(b, st)))
        return out

    def _collect_blocks(self, nodes, acc):
        for nd in nodes:
            if nd[0] == "block":
                if nd[1] in acc:
                    self.unspecified.add("duplicate-block-name-in-file")
                acc[nd[1]] = nd[2]
            for b in bodies(nd):
                self._collect_blocks(b, acc)

    def render(self):
        out = []
        root = self.chain[-1]
        self.run(self.files[root], root, out)
        return b"".join(out)

    # -- helpers
    def _bytes(self, v):
        if isinstance(v, bytes):
            return v
        if isinstance(v, str):
            return v.encode("utf-8")
        if v is None:
            return None
        raise TypeError("Expected bytes, unicode, or None")

    def _emit_value(self, src, raw, file, out):
        v = eval(src, self.ns)
        if isinstance(v, (str, bytes)):
            b = self._bytes(v)
        else:
            b = str(v).encode("utf-8")
        fn = self.auto[file]
        escaped = False
        if not raw and fn is not None:
            b = self._bytes(eval(fn, self.ns)(b))
            escaped = True
        out.append(b)
        self.emits.append((src, file, escaped, self.apply_depth > 0))

    def run(self, nodes, file, out):
        ns = self.ns
        for nd in nodes:
            k = nd[0]
            if k == "text":
                if nd[1]:
                    out.append(nd[1].encode("utf-8"))
            elif k == "esc":
                out.append(nd[1].encode("ascii"))
            elif k == "expr":
                self._emit_value(nd[1], False, file, out)
            elif k == "raw":
                self._emit_value(nd[1], True, file, out)
            elif k == "module":
                self._emit_value("_tt_modules." + nd[1], True, file, out)
            elif k == "set":
                exec(nd[1] + " = " + nd[2], ns)
            elif k == "import":
                exec(nd[1], ns)
            elif k == "break":
                raise _Break()
            elif k == "continue":
                raise _Continue()
            elif k == "if":
                for cond, body in nd[1]:
                    if eval(cond, ns):
                        self.run(body, file, out)
                        break
                else:
                    if nd[2] is not None:
                        self.run(nd[2], file, out)
            elif k == "for":
                broke = False
                for item in eval(nd[2], ns):
                    ns["__item"] = item
                    exec(nd[1] + " = __item", ns)
                    try:
                        self.run(nd[3], file, out)
                    except _Continue:
                        continue
                    except _Break:
                        broke = True
                        break
                if not broke and nd[4] is not None:
                    self.run(nd[4], file, out)
            elif k == "while":
                broke = False
                guard = 0
                while eval(nd[1], ns):
                    guard += 1
                    if guard > 2000:
                        raise RuntimeError("reference interpreter: unbounded while loop")
                    try:
                        self.run(nd[2], file, out)
                    except _Continue:
                        continue
                    except _Break:
                        broke = True
                        break
                if not broke and nd[3] is not None:
                    self.run(nd[3], file, out)
            elif k == "try":
                self._try(nd, file, out)
            elif k == "apply":
                buf = []
                fn = eval(nd[1], ns)
                self.apply_depth += 1
                saved, self.emits = self.emits, []
                try:
                    self.run(nd[2], file, buf)
                    res = self._bytes(fn(b"".join(buf)))
                    saved.extend(self.emits)        # output of a failed apply body is discarded with its buffer
                finally:
                    self.apply_depth -= 1
                    self.emits = saved
                out.append(res)
            elif k == "block":
                body, owner = nd[2], file
                for f in self.chain:
                    if nd[1] in self.blocks[f]:
                        body, owner = self.blocks[f][nd[1]], f
                        break
                self.run(body, owner, out)
            elif k == "include":
                self.run(self.files[nd[2]], nd[2], out)
            elif k in ("comment", "tcomment", "extends"):
                pass
            else:
                raise AssertionError(k)

    def _try(self, nd, file, out):
        _, body, handlers, else_body, fin = nd
        ns = self.ns
        try:
            try:
                self.run(body, file, out)
            except (_Break, _Continue):
                raise
            except Exception as e:
                for exc, asname, hb in handlers:
                    if exc is None or isinstance(e, eval(exc, ns)):
                        if asname:
                            ns[asname] = e
                        try:
                            self.run(hb, file, out)
                        finally:
                            if asname:
                                ns.pop(asname, None)
                        break
                else:
                    raise
            else:
                if else_body is not None:
                    self.run(else_body, file, out)
        finally:
            if fin is not None:
                self.run(fin, file, out)


# ------------------------------------------------------------------------------------------
# generator

EXPRS = ["s", "t", "u", "b", "n", "n + 1", "f", "items", "d['k']", "none", "obj", "T", "len(items)", "up(t)", "s + t",
         "t * 2", "'lit\"q'", '"d\'q"', "n > 2 and 'yes' or 'no'", "[x for x in items if x != 3]", "d.get('zz', '<dflt>')",
         "{'a': 1}['a']", "escape(s)", "url_escape(u)", "json_encode(d)", "squeeze(' a  b ')", "1 if T else 2", "t[1:3]",
         "'%s-%d' % (t, n)", "n % 2", "t.upper()", "'}' + t", "'%' + '>'", "'#' * n", "'\\\\' + t", "'é' + u", "b + b'!'",
         "'{' + t + '}'", "str(f) + '%'", "'<&>'", "(n, f)", "'\\n'.join(['a', 'b'])", "z", "''", "b''"]
RAISERS = ["boom()", "1 / z", "d['nokey']", "kerr()", "int('x')", "items[9]"]
CONDS = ["T", "F", "n > 2", "z", "items", "empty", "none is None", "s", "not t", "len(items) == 3", "n < 2", "d.get('j') == 2",
         "'<' in s", "F or T", "T and F"]
ITERS = [("items", 1), ("range(n)", 1), ("range(0)", 1), ("empty", 1), ("sorted(d.items())", 2), ("t", 1), ("[1, 2, 3]", 1),
         ("enumerate(items)", 2), ("'ab', 'cd'", 1), ("range(5)", 1)]
EXCS = ["ValueError", "ZeroDivisionError", "KeyError", "(KeyError, ValueError)", "Exception", "LookupError", "ArithmeticError",
        "TypeError"]
APPLY = ["wrap", "rev", "ident", "blen", "up"]
APPLY_SAFE = ["wrap", "ident"]
# an import binds a function-local name just like {% set %}: every import gets a fresh alias (%s)
IMPORTS = [("import math as %s", "%s.floor(f)"), ("from os.path import basename as %s", "%s('a/b.c')"),
           ("import os.path as %s", "%s.join('a', 'b')"), ("from json import dumps as %s", "%s([1, 's'])")]
WORDS = ["hello", "Hello World", "<b>", "</b>", "<p class=\"x\">", "it's", "\\", "\\n", "\\'", "'''", '"""', "}", "}}", "%}", "#}",
         "%", "#", "!", "{", "{ ", "{!", "{ {", "{}", "$", "é", "中文", "\U0001f600", "<pre>", "</pre>", "<pre >", "a", "b", "0",
         "&amp;", "&", "=", "_tt_tmp", "end", "{ % x % }", "\\x00", "\x00", "\x7f", "`", "<!-- c -->", "<script>var a={};</script>"]
WS = [" ", "  ", "\n", "\n\n", "\t", " \n ", "\t \t", "\n  ", "   \n\n  "]
EXOTIC_WS = ["\r\n", "\r", "\x0b", "\x0c", "\xa0", "\u2028", "\x1f", "\x85"]
MODES = ["all", "single", "oneline"]
DIRS = ["", "sub/", "a/", "a/b/"]
MARKER_POOL = sorted(set(MARKER_FNS) - set(NUMERIC_MARKERS))
AUTOESCAPES = [None, "xhtml_escape", "myesc", "besc", "escape", "tagesc"]


class Gen:
    """mode "c19": full expression pool; mode "c20": every emitted value is a unique taint marker."""

    def __init__(self, rng, mode="c19", plain_lines=False):
        self.rng = rng
        self.mode = mode
        self.plain_lines = plain_lines     # malformed cases: no exotic whitespace, so lines are unambiguous
        self.fresh = 0
        self.marker = 0
        self.budget = 0
        self.files = {}
        self.reserved = set()              # names handed out by new_file_name
        self.block_file = {}
        self.block_scope = {}              # block name -> (scope, in_loop) at its first introduction
        self.loader = False
        self.includable = []               # files written with the base scope only
        self.features = set()

    # -- small pieces
    def name(self, p="v"):
        self.fresh += 1
        return "%s%d" % (p, self.fresh)

    def exotic_text(self):
        """C19: words separated by whitespace runs made of CR / VT / FF (alone, repeated, mixed with space, tab and
        newline, CRLF line ends) and now and then a character only Unicode calls whitespace; many such segments
        hold no space, tab or newline at all."""
        rng = self.rng
        self.features.add("exotic-ws")
        k = rng.random()
        if k < 0.45:
            pool = ["\r", "\x0b", "\x0c", "\r\r", "\x0c\x0b", "\x0b\r\x0c"]
        elif k < 0.92:
            pool = ["\r", "\x0b", "\x0c", "\r\n", "\r\n", "\n\r", " \r", "\r ", "\t\x0b ", "\x0c\n\x0c", "\r\n\r\n", " ", "\n",
                    "  \x0b  ", "\r\t"]
        else:
            pool = ["\r", "\x0c", " ", "\n", "\xa0", "\u2028", "\x1f", "\x85", "\u3000", "\x1c", "\u2029", "\u200a", "\xa0 ", "\r\x85"]
        out = []
        if rng.random() < 0.3:
            out.append(rng.choice(pool))
        for i in range(rng.choice([1, 2, 2, 3, 5])):
            if i:
                out.append(rng.choice(pool))
            out.append(rng.choice(WORDS) if rng.random() < 0.7 else rng.choice("abcxyz<>\"'\\%#!.,;"))
        if rng.random() < 0.3:
            out.append(rng.choice(pool))
        return re.sub(r"\{(?=[{%#])", "{ ", "".join(out))

    def text(self):
        rng = self.rng
        if self.mode == "c19" and not self.plain_lines and rng.random() < 0.05:
            return self.exotic_text()
        out = []
        for _ in range(rng.choice([1, 1, 2, 3, 4, 6])):
            r = rng.random()
            if r < 0.45:
                out.append(rng.choice(WORDS))
            elif r < 0.85:
                out.append(rng.choice(WS))
            elif r < 0.865 and not self.plain_lines:
                out.append(rng.choice(EXOTIC_WS))
                self.features.add("exotic-ws")
            else:
                out.append(rng.choice("abcxyz<>\"'\\{}%#!.,;:()[]/=+-*~^|@"))
        s = "".join(out)
        return re.sub(r"\{(?=[{%#])", "{ ", s)

    def value_expr(self, scope):
        rng = self.rng
        if self.mode == "c20":
            self.marker += 1
            r = rng.random()
            if r < 0.5:
                fn = rng.choice(["mk", "mk", "mkb", "mko"])
            elif r < 0.62:
                fn = rng.choice(NUMERIC_MARKERS)
            else:
                fn = rng.choice(MARKER_POOL)
            return "%s(%d)" % (fn, self.marker)
        if scope and rng.random() < 0.3:
            v = rng.choice(scope)
            return rng.choice([v, "str(%s) + '!'" % v, "[%s]" % v])
        return rng.choice(EXPRS)

    def cond(self, scope):
        rng = self.rng
        if scope and rng.random() < 0.3:
            v = rng.choice(scope)
            return rng.choice(["%s == 'a'" % v, "%s" % v, "str(%s) > '1'" % v, "%s != 3" % v])
        return rng.choice(CONDS)

    # -- bodies
    def body(self, scope, in_loop, depth, file, lo=0, hi=4, in_block=None):
        rng = self.rng
        scope = list(scope)
        out = []
        for _ in range(rng.randint(lo, hi)):
            if self.budget <= 0:
                break
            self.budget -= 1
            nds = self.node(scope, in_loop, depth, file, in_block)
            out.extend(nds)
        return out

    def node(self, scope, in_loop, depth, file, in_block):
        """-> list of nodes; may extend `scope` (names bound for the following siblings)."""
        rng = self.rng
        deep = depth >= 4
        r = rng.random() * 100
        F = self.features
        if self.mode == "c20":
            q = rng.random()
            if q < 0.05:
                r = 66.5                  # autoescape directive
            elif q < 0.12 and not deep:
                r = 98                    # include
            elif q < 0.17 and not deep:
                r = 92                    # apply
            elif q < 0.30:
                r = 30                    # expression
        if r < 28:
            return [("text", self.text())]
        if r < 45:
            return [("expr", self.value_expr(scope))]
        if r < 49:
            F.add("esc")
            return [("esc", rng.choice(["{{", "{%", "{#"]))]
        if r < 53:
            F.add("raw")
            return [("raw", self.value_expr(scope))]
        if r < 54.5:
            F.add("module")
            if self.mode == "c20":
                return [("module", "M(%s)" % self.value_expr(scope))]
            return [("module", rng.choice(["M(s)", "M(n)", "Two(t)", "Two(s, y=b)", "M(obj)"]))]
        if r < 58:
            F.add("set")
            v = self.name()
            src = rng.choice(EXPRS) if self.mode == "c20" else self.value_expr(scope)
            scope.append(v)
            return [("set", v, src)]
        if r < 59:
            F.add("import")
            stmt, use = rng.choice(IMPORTS)
            nm = self.name("m")
            scope.append(nm)
            return [("import", stmt % nm)] + ([("expr", use % nm)] if self.mode == "c19" else [])
        if r < 62:
            F.add("comment")
            return [("comment", self.comment_body("#}"))]
        if r < 64:
            F.add("tcomment")
            return [("tcomment", self.comment_body("%}").strip())]
        if r < 66:
            F.add("whitespace")
            return [("whitespace", rng.choice(MODES))]
        if r < 67.5:
            if file in self.auto_used:
                return [("text", " ")]
            self.auto_used.add(file)
            F.add("autoescape")
            return [("autoescape", rng.choice(AUTOESCAPES))]
        if r < 70 and in_loop:
            F.add("break")
            return [(rng.choice(["break", "continue"]),)]
        if deep:
            return [("text", self.text())]
        d = depth + 1
        if r < 78:
            F.add("if")
            br = [(self.cond(scope), self.body(scope, in_loop, d, file, in_block="if"))]
            while rng.random() < 0.3 and len(br) < 3:
                F.add("elif")
                br.append((self.cond(scope), self.body(scope, in_loop, d, file, in_block="if")))
            el = self.body(scope, in_loop, d, file, in_block="if") if rng.random() < 0.5 else None
            return [("if", br, el)]
        if r < 84:
            F.add("for")
            it, nv = rng.choice(ITERS)
            if scope and rng.random() < 0.15:
                it, nv = "[%s, %s]" % (scope[-1], scope[0]), 1
            vs = [self.name("i") for _ in range(nv)]
            body = self.body(scope + vs, True, d, file, lo=1, in_block="for")
            el = None
            if rng.random() < 0.3:
                F.add("for-else")
                el = self.body(scope, in_loop, d, file, hi=2, in_block="for")
            return [("for", ", ".join(vs), it, body, el)]
        if r < 87:
            F.add("while")
            c = self.name("c")
            lim = rng.choice([0, 1, 2, 3])
            body = [("set", c, c + " + 1")] + self.body(scope + [c], True, d, file, lo=1, in_block="while")
            el = None
            if rng.random() < 0.3:
                F.add("while-else")
                el = self.body(scope + [c], in_loop, d, file, hi=2, in_block="while")
            scope.append(c)
            return [("set", c, "0"), ("while", "%s < %d" % (c, lim), body, el)]
        if r < 91:
            F.add("try")
            return [self.try_node(scope, in_loop, d, file)]
        if r < 94.5:
            F.add("apply")
            fn = rng.choice(APPLY_SAFE if self.mode == "c20" else APPLY)
            return [("apply", fn, self.body(scope, False, d, file, in_block="apply"))]
        if r < 97:
            F.add("block")
            nm = self.name("blk")
            self.block_scope.setdefault(nm, (list(scope), in_loop))
            self.block_file[nm] = file
            return [("block", nm, self.body(scope, in_loop, d, file, in_block="block"))]
        if self.loader and self.inc_depth < 2:
            F.add("include")
            return [self.include_node(scope, file)]
        return [("text", self.text())]

    def comment_body(self, closer):
        rng = self.rng
        parts = []
        for _ in range(rng.randint(0, 4)):
            parts.append(rng.choice(WORDS + WS + ["{{ x }}", "{% end %}", "{% if", "{#", "!", "{{!", "%", "#", "}"]))
        if rng.random() < 0.25:
            # deliberately multi-line: the lines after it must still be numbered correctly
            parts.insert(rng.randint(0, len(parts)), rng.choice(["\n", "\n\n", " line one\n line two\n", "\n\t\n \n"]))
        s = "".join(parts)
        s = s.replace(closer, closer[0] + " " + closer[1])
        if s.endswith(closer[0]):
            s += "."
        return s

    def try_node(self, scope, in_loop, d, file):
        rng = self.rng
        body = self.body(scope, in_loop, d, file, in_block="try")
        if rng.random() < 0.75:
            raiser = ("expr", rng.choice(RAISERS))
            body.insert(rng.randint(0, len(body)), raiser)
            self.features.add("raise")
            if rng.random() < 0.5:
                body.append(("text", "unreached?"))
        handlers = []
        r = rng.random()
        nh = 0 if r < 0.15 else (1 if r < 0.7 else 2)
        for i in range(nh):
            if rng.random() < 0.25 and i == nh - 1:
                handlers.append((None, None, self.body(scope, in_loop, d, file, hi=2, in_block="try")))
            else:
                exc = rng.choice(EXCS)
                asname = self.name("e") if rng.random() < 0.35 else None
                hb = self.body(scope, in_loop, d, file, hi=2, in_block="try")
                if asname:
                    hb.append(("expr", rng.choice(["type(%s).__name__" % asname, "str(%s)" % asname])
                               if self.mode == "c19" else "len(str(%s))" % asname))
                handlers.append((exc, asname, hb))
        el = self.body(scope, in_loop, d, file, hi=2, in_block="try") if handlers and rng.random() < 0.35 else None
        fin = None
        if not handlers or rng.random() < 0.35:
            fin = self.body(scope, False, d, file, hi=2, in_block="try")    # no break/continue directly in finally
        return ("try", body, handlers, el, fin)

    # -- files
    def ref(self, parent, target):
        """How `parent` may name `target` (relative names resolve against the parent's directory)."""
        if parent is None or "/" not in parent:
            return target
        pdir = parent.rsplit("/", 1)[0]
        if target.startswith(pdir + "/"):
            rest = target[len(pdir) + 1:]
            return rest if self.rng.random() < 0.8 else "../" * (pdir.count("/") + 1) + target
        return "../" * (pdir.count("/") + 1) + target

    def new_file_name(self, stem):
        """A fresh file name; about a third of the time (when possible) the *same relative name* as an existing file
        in another directory, so that relative include/extends references are ambiguous without their parent."""
        rng = self.rng
        self.fresh += 1
        name = None
        if self.files and rng.random() < 0.35:
            base = rng.choice(sorted(self.files)).rsplit("/", 1)[-1]
            free = [d for d in DIRS if d + base not in self.files and d + base not in self.reserved]
            if free:
                self.features.add("namesake-files")
                name = rng.choice(free) + base
        if name is None:
            name = "%s%s%d%s" % (rng.choice(["", "", "sub/", "a/b/", "a/"]), stem, self.fresh, rng.choice([".html", ".txt", ".js", ".html"]))
        self.reserved.add(name)
        return name

    def include_node(self, scope, file):
        rng = self.rng
        parent = None if self.main_anonymous and file == self.main else file
        if self.includable and rng.random() < 0.35:
            target = rng.choice(self.includable)
            if target != file:
                return ("include", self.ref(parent, target), target)
        target = self.new_file_name("inc")
        use_scope = rng.random() < 0.5
        self.inc_depth += 1
        self.files[target] = None       # reserve
        nodes = self.body(scope if use_scope else [], False, 1, target, lo=1, hi=4)
        self.inc_depth -= 1
        self.files[target] = nodes
        if not use_scope:
            self.includable.append(target)
        return ("include", self.ref(parent, target), target)

    def top(self, file, scope=()):
        return self.body(list(scope), False, 0, file, lo=1, hi=6)

    def child_file(self, file, parent_file, parent_blocks):
        """A file that extends parent_file: junk at top level, overriding and new blocks."""
        rng = self.rng
        nodes = []
        parent = None if self.main_anonymous and file == self.main else file
        ext = ("extends", self.ref(parent, parent_file), parent_file)
        names = list(parent_blocks)
        rng.shuffle(names)
        chosen = names[:rng.randint(0, len(names))]
        items = [ext]
        for nm in chosen:
            sc, il = self.block_scope[nm]
            self.features.add("override")
            items.append(("block", nm, self.body(sc, False, 1, file, in_block="block")))
        if rng.random() < 0.3:
            nm = self.name("blk")
            self.block_scope.setdefault(nm, ([], False))
            self.block_file[nm] = file
            items.append(("block", nm, self.body([], False, 1, file, in_block="block")))
        rng.shuffle(items)
        for it in items:
            if rng.random() < 0.6:
                nodes.append(rng.choice([("text", self.text()), ("comment", self.comment_body("#}")),
                                         ("whitespace", rng.choice(MODES)), ("expr", "boom()"), ("set", self.name(), "1")]))
            if rng.random() < 0.1 and file not in self.auto_used:
                self.auto_used.add(file)
                nodes.append(("autoescape", rng.choice([None, "xhtml_escape", "myesc"])))
            nodes.append(it)
        return nodes

    def case(self):
        rng = self.rng
        self.budget = rng.choice([4, 8, 12, 18, 25])
        self.auto_used = set()
        self.inc_depth = 0
        cfg = {"loader": rng.random() < (0.85 if self.mode == "c20" else 0.6)}
        self.loader = cfg["loader"]
        if self.loader:
            cfg["loader_autoescape"] = (rng.choice([UNSET, None, None, "xhtml_escape", "myesc", "tagesc"]) if self.mode == "c20"
                                        else rng.choice([UNSET, UNSET, None, "xhtml_escape", "myesc", "besc", "tagesc"]))
            cfg["loader_ws"] = rng.choice([None, None, "all", "single", "oneline"])
            cfg["loader_ns"] = rng.random() < 0.3
            cfg["via"] = rng.choice(["load", "load", "ctor"])
        else:
            cfg["via"] = "ctor"
        self.main = self.new_file_name("main") if self.loader else rng.choice(["main.html", "main.txt", "m.js"])
        self.main_anonymous = False
        if cfg["via"] == "ctor":
            r = rng.random()
            cfg["ctor_name"] = None if r < 0.4 else (self.main if r < 0.8 else rng.choice(["x.html", "x.txt", "<x.html>"]))
            self.main_anonymous = cfg["ctor_name"] != self.main
            if cfg["ctor_name"] and cfg["ctor_name"] != self.main and "/" in self.main:
                self.main = self.main.rsplit("/", 1)[1]
            r = rng.random()
            if r < 0.25:
                cfg["ctor_ws"] = rng.choice(MODES)
            elif r < 0.4:
                cfg["ctor_cw"] = rng.random() < 0.5
            if rng.random() < 0.3:
                cfg["ctor_autoescape"] = rng.choice([None, "xhtml_escape", "myesc", "tagesc"])
            cfg["as_bytes"] = rng.random() < 0.3
        self.files[self.main] = None
        chain = 0
        if self.loader:
            chain = rng.choice([0, 0, 0, 1, 1, 2])
        if chain == 0:
            self.files[self.main] = self.top(self.main)
        else:
            self.features.add("extends")
            names = [self.new_file_name("base") for _ in range(chain)]     # names[0] is the root
            for nm in names:
                self.files[nm] = None
            root = names[0]
            nodes = self.top(root)
            if not any(n[0] == "block" for n in nodes):
                bn = self.name("blk")
                self.block_scope[bn] = ([], False)
                self.block_file[bn] = root
                nodes.append(("block", bn, self.body([], False, 1, root, in_block="block")))
            self.files[root] = nodes
            prev = root
            in_chain = {root}
            for nm in names[1:] + [self.main]:
                self.budget += 6
                known = [b for b in self.block_scope if self.block_file.get(b) in in_chain]
                in_chain.add(nm)
                self.files[nm] = self.child_file(nm, prev, known)
                prev = nm
        files = {k: merge_text(v) for k, v in self.files.items()}
        if self.loader:
            # operation history on the one loader instance: other entry points of the same template tree are loaded
            # (and rendered) before the main template; the main one is eligible when it is itself loaded by name
            cfg["fs_loader"] = rng.random() < 0.25
            entries = sorted(k for k in files if k != self.main or cfg["via"] == "load")
            if entries and rng.random() < 0.5:
                rng.shuffle(entries)
                cfg["history"] = entries[:rng.randint(1, min(4, len(entries)))]
                self.features.add("loader-history")
        return {"files": files, "main": self.main, "cfg": cfg, "features": sorted(self.features)}


# ------------------------------------------------------------------------------------------
# malformed insertions

def insertion_points(nodes, in_block=None, in_loop=False, path=()):
    """Yield (path, index, in_block, in_loop) for every gap of every body, with the context the
    directive scanner has there (documentation: else/elif/except/finally belong to if/for/while/try;
    break/continue to for/while; apply starts a new function)."""
    for i in range(len(nodes) + 1):
        yield (path, i, in_block, in_loop)
    for i, nd in enumerate(nodes):
        k = nd[0]
        if k not in ("if", "for", "while", "try", "apply", "block"):
            continue
        loop = True if k in ("for", "while") else (False if k == "apply" else in_loop)
        for j, b in enumerate(bodies(nd)):
            yield from insertion_points(b, k, loop, path + ((i, j),))


def insert_at(nodes, path, index, new):
    if not path:
        return nodes[:index] + [new] + nodes[index:]
    (i, j), rest = path[0], path[1:]
    nd = nodes[i]
    counter = [0]

    def f(b):
        me = counter[0]
        counter[0] += 1
        return insert_at(b, rest, index, new) if me == j else b
    return nodes[:i] + [map_bodies(nd, f)] + nodes[i + 1:]


def make_bad(rng, in_block, in_loop):
    """-> ("bad", kind, text, token) that is an error *at this position*, or None."""
    def sp():
        return rng.choice(["", " ", "  ", "\t"])

    def tag(contents):
        return "{%" + sp() + contents + sp() + "%}", ("tag", contents)
    r = rng.randrange(12)
    if r == 0:
        if in_block is not None:
            return None
        t, tok = tag("end")
        return ("bad", "extra-end", t, tok)
    if r == 1:
        kind, opener, tail = rng.choice([("unterminated-expr", "{{", " s } } %} #}"), ("unterminated-tag", "{%", " if T }} #} % }"),
                                         ("unterminated-comment", "{#", " c }} %} # }")])
        return ("bad", kind, opener + tail + rng.choice(["", "\n", "\nmore\n"]), ("unterminated", opener[1]))
    if r == 2:
        if rng.random() < 0.5:
            return ("bad", "empty-expr", "{{" + sp() + "}}", ("expr", ""))
        return ("bad", "empty-tag", "{%" + sp() + "%}", ("tag", ""))
    if r == 3:
        t, tok = tag(rng.choice(["foo x", "endif", "elsif T", "If T", "endfor", "end_if", "ELSE", "load x", "blocks a"]))
        return ("bad", "unknown-operator", t, tok)
    if r in (4, 5):
        allowed = {"else": {"if", "for", "while", "try"}, "elif": {"if"}, "except": {"try"}, "finally": {"try"}}
        op = rng.choice(list(allowed))
        if in_block in allowed[op]:
            return None
        arg = {"elif": " T", "except": rng.choice(["", " ValueError"])}.get(op, "")
        t, tok = tag(op + arg)
        return ("bad", "intermediate-outside" if in_block is None else "intermediate-wrong-parent", t, tok)
    if r == 6:
        if in_loop:
            return None
        t, tok = tag(rng.choice(["break", "continue"]))
        return ("bad", "break-outside-loop", t, tok)
    if r == 7:
        op = rng.choice(["extends", "include", "set", "import", "from"])
        arg = rng.choice(["", '  ""', " ''"]) if op in ("extends", "include") else rng.choice(["", " "])
        t, tok = tag((op + arg).strip() if not arg.strip() else op + arg)
        return ("bad", "missing-argument-" + op, t, tok)
    if r == 8:
        op = rng.choice(["block", "apply"])
        a, t1 = tag(op)
        b, t2 = tag("end")
        return ("bad", "missing-argument-" + op, a + b, [t1, t2])
    if r in (9, 10):
        t, tok = tag(rng.choice(["if T", "for q in t", "while F", "try", "block zz", "apply ident"]))
        return ("bad", "missing-end", t, tok)
    t, tok = tag(rng.choice(["end", "else", "break"]) if False else "endblock")
    return ("bad", "unknown-operator", t, tok)
