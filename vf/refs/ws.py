"""Independent RFC 6455 frame codec + RFC 7692 permessage-deflate codec + raw
opening-handshake helpers.  Written from the RFC text; imports nothing from
tornado (only hashlib / base64 / struct / zlib).

Frame layout (RFC 6455 5.2):
    byte0  FIN RSV1 RSV2 RSV3 opcode(4)
    byte1  MASK len7   [len16 | len64]  [mask-key 4]  payload
"""
from __future__ import annotations

import base64
import hashlib
import struct
import zlib

GUID = b"258EAFA5-E914-47DA-95CA-C5AB0DC85B11"
OP_CONT, OP_TEXT, OP_BIN, OP_CLOSE, OP_PING, OP_PONG = 0x0, 0x1, 0x2, 0x8, 0x9, 0xA
DATA_OPS = (OP_TEXT, OP_BIN)
RSV1, RSV2, RSV3 = 4, 2, 1          # 3-bit "rsv" value used by this module
TAIL = b"\x00\x00\xff\xff"


# ---------------------------------------------------------------------------
# primitives

def accept_for(key) -> str:
    """Sec-WebSocket-Accept for a Sec-WebSocket-Key value (RFC 6455 4.2.2 step 5.4)."""
    if isinstance(key, str):
        key = key.encode("latin-1")
    return base64.b64encode(hashlib.sha1(key + GUID).digest()).decode("ascii")


def xor_mask(key4: bytes, data: bytes) -> bytes:
    """transformed-octet-i = original-octet-i XOR masking-key-octet-(i MOD 4)."""
    n = len(data)
    if n == 0:
        return b""
    k = (key4 * (n // 4 + 1))[:n]
    return (int.from_bytes(data, "big") ^ int.from_bytes(k, "big")).to_bytes(n, "big")


def build_frame(opcode: int, payload: bytes = b"", fin: bool = True, rsv: int = 0,
                mask: bytes | None = None, len_enc: int | None = None,
                declared_len: int | None = None) -> bytes:
    """One frame.  `mask` = 4-byte key or None (unmasked).  `len_enc` forces the
    length encoding (7, 16 or 64 bits; None = minimal).  `declared_len` overrides
    the number written into the length field (for malformed frames)."""
    n = len(payload) if declared_len is None else declared_len
    b0 = (0x80 if fin else 0) | ((rsv & 7) << 4) | (opcode & 0xF)
    mbit = 0x80 if mask is not None else 0
    if len_enc is None:
        len_enc = 7 if n < 126 else (16 if n <= 0xFFFF else 64)
    if len_enc == 7:
        if n > 125:
            raise ValueError("7-bit length cannot hold %d" % n)
        head = struct.pack("!BB", b0, mbit | n)
    elif len_enc == 16:
        head = struct.pack("!BBH", b0, mbit | 126, n)
    else:
        head = struct.pack("!BBQ", b0, mbit | 127, n)
    if mask is not None:
        return head + mask + xor_mask(mask, payload)
    return head + payload


class Frame:
    __slots__ = ("fin", "rsv", "opcode", "masked", "mask", "payload", "len_enc", "wire_len")

    def __init__(self, fin, rsv, opcode, masked, mask, payload, len_enc, wire_len):
        self.fin, self.rsv, self.opcode = fin, rsv, opcode
        self.masked, self.mask, self.payload = masked, mask, payload
        self.len_enc, self.wire_len = len_enc, wire_len

    def brief(self):
        return {"fin": self.fin, "rsv": self.rsv, "op": self.opcode, "masked": self.masked,
                "len": len(self.payload), "len_enc": self.len_enc,
                "head": self.payload[:24]}

    def anomalies(self):
        """RFC 6455 section 5 rules a *sender* must respect, as a list of short keys."""
        out = []
        n = len(self.payload)
        minimal = 7 if n < 126 else (16 if n <= 0xFFFF else 64)
        if self.len_enc != minimal:
            out.append("non-minimal-length-encoding")
        if self.opcode & 0x8:
            if not self.fin:
                out.append("fragmented-control-frame")
            if n > 125:
                out.append("control-payload-over-125")
            if self.opcode not in (OP_CLOSE, OP_PING, OP_PONG):
                out.append("reserved-control-opcode")
            if self.rsv:
                out.append("rsv-on-control-frame")
        else:
            if self.opcode not in (OP_CONT, OP_TEXT, OP_BIN):
                out.append("reserved-data-opcode")
            if self.rsv & (RSV2 | RSV3):
                out.append("rsv2-or-rsv3-set")
        if self.opcode == OP_CLOSE and n == 1:
            out.append("close-payload-of-one-byte")
        return out


class FrameParser:
    """Incremental, lenient decoder: feed(bytes) -> list[Frame].  Judging legality
    is left to Frame.anomalies() / MessageAssembler."""

    def __init__(self):
        self.buf = bytearray()
        self.consumed = 0

    def feed(self, data: bytes):
        self.buf += data
        out = []
        while True:
            f = self._one()
            if f is None:
                return out
            out.append(f)

    def pending(self) -> int:
        return len(self.buf)

    def _one(self):
        b = self.buf
        if len(b) < 2:
            return None
        b0, b1 = b[0], b[1]
        n7 = b1 & 0x7F
        pos = 2
        if n7 < 126:
            n, enc = n7, 7
        elif n7 == 126:
            if len(b) < 4:
                return None
            n, enc = struct.unpack_from("!H", b, 2)[0], 16
            pos = 4
        else:
            if len(b) < 10:
                return None
            n, enc = struct.unpack_from("!Q", b, 2)[0], 64
            pos = 10
        masked = bool(b1 & 0x80)
        key = None
        if masked:
            if len(b) < pos + 4:
                return None
            key = bytes(b[pos:pos + 4])
            pos += 4
        if len(b) < pos + n:
            return None
        payload = bytes(b[pos:pos + n])
        if masked:
            payload = xor_mask(key, payload)
        del b[:pos + n]
        self.consumed += pos + n
        return Frame(bool(b0 & 0x80), (b0 >> 4) & 7, b0 & 0xF, masked, key, payload, enc, pos + n)


# ---------------------------------------------------------------------------
# permessage-deflate (RFC 7692 section 7.2)

class Deflater:
    """Sender side: DEFLATE with a trailing sync flush, last 4 octets removed."""

    def __init__(self, wbits=15, no_context_takeover=False, level=6, mem=8):
        self.args = (level, zlib.DEFLATED, -wbits, mem)
        self.nct = no_context_takeover
        self._c = None if no_context_takeover else zlib.compressobj(*self.args)

    def compress(self, data: bytes, blocks: int = 1, full_flush: bool = False) -> bytes:
        c = self._c if self._c is not None else zlib.compressobj(*self.args)
        mode = zlib.Z_FULL_FLUSH if full_flush else zlib.Z_SYNC_FLUSH
        out = bytearray()
        blocks = max(1, min(blocks, len(data) or 1))
        step = -(-len(data) // blocks) if data else 0
        pieces = [data[i:i + step] for i in range(0, len(data), step)] if data else [b""]
        for p in pieces:
            out += c.compress(p)
            out += c.flush(mode)
        if bytes(out[-4:]) != TAIL:
            raise RuntimeError("reference deflater: missing sync tail")
        return bytes(out[:-4])


    def trial_len(self, data: bytes) -> int:
        """Wire payload length compress(data) would produce, without advancing the context."""
        c = self._c.copy() if self._c is not None else zlib.compressobj(*self.args)
        return len(c.compress(data) + c.flush(zlib.Z_SYNC_FLUSH)) - 4


class Inflater:
    """Receiver side: append 00 00 ff ff and inflate (RFC 7692 7.2.2)."""

    def __init__(self, wbits=15, no_context_takeover=False):
        self.wbits = wbits
        self.nct = no_context_takeover
        self._d = None if no_context_takeover else zlib.decompressobj(-wbits)

    def decompress(self, payload: bytes) -> bytes:
        d = self._d if self._d is not None else zlib.decompressobj(-self.wbits)
        out = d.decompress(payload + TAIL)
        if d.unused_data or d.eof:
            raise zlib.error("reference inflater: deflate stream ended inside a message")
        return out


class MessageAssembler:
    """Reassembles frames into events.  Events:
         ("msg", opcode, bytes, info)   info = {"frames": n, "compressed": bool}
         ("ping", payload) ("pong", payload) ("close", code|None, reason_bytes, payload)
         ("error", key, frame_brief)    protocol violation seen by a strict receiver
    """

    def __init__(self, inflater: Inflater | None = None, expect_masked: bool | None = None):
        self.inflater = inflater
        self.expect_masked = expect_masked
        self.cur_op = None
        self.cur = None
        self.cur_frames = 0
        self.cur_compressed = False
        self.events = []
        self.frames = []

    def feed_frames(self, frames):
        for f in frames:
            self.feed(f)
        return self.events

    def feed(self, f: Frame):
        ev = self.events
        self.frames.append(f)
        if self.expect_masked is not None and f.masked != self.expect_masked:
            ev.append(("error", "masked-bit-wrong-for-role", f.brief()))
        for a in f.anomalies():
            if a != "reserved-data-opcode":      # reported below, once
                ev.append(("error", a, f.brief()))
        if f.opcode & 0x8:
            if f.opcode == OP_PING:
                ev.append(("ping", f.payload))
            elif f.opcode == OP_PONG:
                ev.append(("pong", f.payload))
            elif f.opcode == OP_CLOSE:
                p = f.payload
                code = struct.unpack("!H", p[:2])[0] if len(p) >= 2 else None
                ev.append(("close", code, p[2:], p))
            return
        if f.opcode == OP_CONT:
            if self.cur is None:
                ev.append(("error", "continuation-without-start", f.brief()))
                return
            if f.rsv & RSV1:
                ev.append(("error", "rsv1-on-continuation", f.brief()))
            self.cur += f.payload
            self.cur_frames += 1
        else:
            if self.cur is not None:
                ev.append(("error", "new-data-frame-inside-fragmented-message", f.brief()))
                return
            if f.opcode not in DATA_OPS:
                ev.append(("error", "reserved-data-opcode", f.brief()))
                return
            if (f.rsv & RSV1) and self.inflater is None:
                ev.append(("error", "rsv1-without-negotiated-deflate", f.brief()))
            self.cur_op = f.opcode
            self.cur = bytearray(f.payload)
            self.cur_frames = 1
            self.cur_compressed = bool(f.rsv & RSV1)
        if f.fin:
            data = bytes(self.cur)
            info = {"frames": self.cur_frames, "compressed": self.cur_compressed,
                    "wire_payload": len(data)}
            if self.cur_compressed and self.inflater is not None:
                try:
                    data = self.inflater.decompress(data)
                except zlib.error as e:
                    ev.append(("error", "inflate-failed", {"err": str(e), "n": len(data)}))
                    self.cur = None
                    return
            ev.append(("msg", self.cur_op, data, info))
            self.cur = None


# ---------------------------------------------------------------------------
# strict UTF-8 (RFC 3629) validator, independent of the codec under test

def utf8_valid(b: bytes) -> bool:
    i, n = 0, len(b)
    while i < n:
        c = b[i]
        if c < 0x80:
            i += 1
            continue
        if 0xC2 <= c <= 0xDF:
            need, lo, hi = 1, 0x80, 0xBF
        elif c == 0xE0:
            need, lo, hi = 2, 0xA0, 0xBF
        elif 0xE1 <= c <= 0xEC or 0xEE <= c <= 0xEF:
            need, lo, hi = 2, 0x80, 0xBF
        elif c == 0xED:
            need, lo, hi = 2, 0x80, 0x9F
        elif c == 0xF0:
            need, lo, hi = 3, 0x90, 0xBF
        elif 0xF1 <= c <= 0xF3:
            need, lo, hi = 3, 0x80, 0xBF
        elif c == 0xF4:
            need, lo, hi = 3, 0x80, 0x8F
        else:
            return False
        if i + 1 >= n or not (lo <= b[i + 1] <= hi):
            return False
        for j in range(2, need + 1):
            if i + j >= n or not (0x80 <= b[i + j] <= 0xBF):
                return False
        i += need + 1
    return True


# ---------------------------------------------------------------------------
# Sec-WebSocket-Extensions / token lists (RFC 6455 9.1, RFC 7230 tokens)

def parse_extensions(value: str):
    """'a; x=1; y, b' -> [("a", {"x": "1", "y": None}), ("b", {})]"""
    out = []
    for item in _split_outside_quotes(value, ","):
        parts = [p.strip() for p in _split_outside_quotes(item, ";")]
        if not parts or not parts[0]:
            continue
        params = {}
        for p in parts[1:]:
            if not p:
                continue
            if "=" in p:
                k, v = p.split("=", 1)
                v = v.strip()
                if len(v) >= 2 and v[0] == v[-1] == '"':
                    v = v[1:-1]
                params[k.strip()] = v
            else:
                params[p] = None
        out.append((parts[0], params))
    return out


def _split_outside_quotes(s: str, sep: str):
    out, cur, q = [], [], False
    for ch in s:
        if ch == '"':
            q = not q
        if ch == sep and not q:
            out.append("".join(cur))
            cur = []
        else:
            cur.append(ch)
    out.append("".join(cur))
    return out


def format_extension(name: str, params: dict) -> str:
    s = name
    for k, v in params.items():
        s += "; " + k if v is None else "; %s=%s" % (k, v)
    return s


def tokens(value: str):
    return [t.strip() for t in value.split(",") if t.strip()]


# ---------------------------------------------------------------------------
# opening handshake, raw

def client_request(path="/ws", headers=None, method="GET", version="HTTP/1.1") -> bytes:
    """`headers` is a list of (name, value) written verbatim in order."""
    lines = ["%s %s %s" % (method, path, version)]
    for k, v in headers or []:
        lines.append("%s: %s" % (k, v))
    return ("\r\n".join(lines) + "\r\n\r\n").encode("latin-1")


def std_client_headers(host="127.0.0.1:9999", key="dGhlIHNhbXBsZSBub25jZQ==", version="13",
                       origin=None, protocols=None, extensions=None):
    h = [("Host", host), ("Upgrade", "websocket"), ("Connection", "Upgrade"),
         ("Sec-WebSocket-Key", key), ("Sec-WebSocket-Version", version)]
    if origin is not None:
        h.append(("Origin", origin))
    if protocols is not None:
        h.append(("Sec-WebSocket-Protocol", protocols))
    if extensions is not None:
        h.append(("Sec-WebSocket-Extensions", extensions))
    return h


class HTTPHead:
    def __init__(self, first, headers, rest):
        self.first = first            # request line / status line (str)
        self.headers = headers        # list[(name, value)]
        self.rest = rest              # bytes after the blank line

    def get_all(self, name):
        n = name.lower()
        return [v for k, v in self.headers if k.lower() == n]

    def get(self, name, default=None):
        vs = self.get_all(name)
        return vs[0] if vs else default

    @property
    def status(self):
        parts = self.first.split(" ", 2)
        try:
            return int(parts[1])
        except (IndexError, ValueError):
            return None


def parse_head(data: bytes):
    """Returns HTTPHead or None if the blank line has not arrived yet."""
    i = data.find(b"\r\n\r\n")
    if i < 0:
        return None
    lines = data[:i].decode("latin-1").split("\r\n")
    hs = []
    for ln in lines[1:]:
        if ":" in ln:
            k, v = ln.split(":", 1)
            hs.append((k.strip(), v.strip()))
        else:
            hs.append((ln, ""))
    return HTTPHead(lines[0], hs, data[i + 4:])


def server_response(key=None, accept=None, protocol=None, extensions=None,
                    status="101 Switching Protocols", upgrade="websocket",
                    connection="Upgrade", extra=None) -> bytes:
    lines = ["HTTP/1.1 " + status]
    if upgrade is not None:
        lines.append("Upgrade: " + upgrade)
    if connection is not None:
        lines.append("Connection: " + connection)
    if accept is None and key is not None:
        accept = accept_for(key)
    if accept is not None:
        lines.append("Sec-WebSocket-Accept: " + accept)
    if protocol is not None:
        lines.append("Sec-WebSocket-Protocol: " + protocol)
    if extensions is not None:
        lines.append("Sec-WebSocket-Extensions: " + extensions)
    for k, v in extra or []:
        lines.append("%s: %s" % (k, v))
    return ("\r\n".join(lines) + "\r\n\r\n").encode("latin-1")


def close_payload(code=None, reason: bytes = b"") -> bytes:
    if code is None:
        return b""
    return struct.pack("!H", code) + reason
