"""Independent strict HTTP/1.x *request* reader (RFC 9112), three-valued.

Shares no code with tornado.  Oracle for C01 (and helper for C04/C05).

    res = read_stream(data)          # data = the complete byte stream, EOF after it

`res.requests` is the list of requests the strict reader extracts before it
stops; `res.stop` says why it stopped:

    "end"        the stream ended cleanly between messages
    "truncated"  EOF inside a message (no verdict on that message)
    "reject"     the next message belongs to the statement's *closed list* of
                 violations (res.reason is one of REJECT_REASONS)
    "unspec"     the next message is outside the strict grammar / feature set
                 the statement pins, but NOT in the closed list -> nothing is
                 demanded about accept-vs-reject from here on

The strict grammar (with the three documented leniencies bare-LF line ends in
the header section, obs-fold, ONE leading blank line):

    request-line  = token SP request-target SP "HTTP/1." ("0" / "1")
    request-target: origin-form ("/" + URI chars), absolute-form, or "*"
    field-line    = token ":" OWS field-value OWS        (VCHAR / obs-text / SP / HTAB)
    Content-Length= 1*DIGIT  (repeated identical values: accept-or-reject, see `optional`)
    Transfer-Encoding = "chunked" (case-insensitive), HTTP/1.1 only, never with Content-Length
    chunk         = 1*16HEXDIG CRLF data CRLF ; last-chunk = 1*16"0" CRLF CRLF
    Host          = exactly one field line matching reg-name / IPv4 / "[" IPv6 "]" [":" *DIGIT]
                    when the version is 1.1

A Request with `optional=True` is one RFC 9110 lets a recipient either reject
or accept (Content-Length: 5, 5); if it is accepted it must be framed as given.
"""
from __future__ import annotations

import re

REJECT_REASONS = (
    "content-length-non-numeric",
    "content-length-conflicting",
    "content-length-with-transfer-encoding",
    "transfer-coding-not-chunked",
    "chunk-size-malformed",
    "chunk-terminator-malformed",
    "request-line-malformed",
    "host-missing",
    "host-invalid",
    "host-multiple",
)

TCHAR = rb"!#$%&'*+\-.^_`|~0-9A-Za-z"
TOKEN_RE = re.compile(rb"[" + TCHAR + rb"]+\Z")
URI_CHARS = rb"(?:[A-Za-z0-9\-._~!$&'()*+,;=:@/?]|%[0-9A-Fa-f]{2})"
ORIGIN_FORM_RE = re.compile(rb"/" + URI_CHARS + rb"*\Z")
ABSOLUTE_FORM_RE = re.compile(rb"[A-Za-z][A-Za-z0-9+.\-]*://(?:[A-Za-z0-9\-._~!$&'()*+;=]|%[0-9A-Fa-f]{2})+(?::[0-9]*)?(?:/" + URI_CHARS + rb"*)?\Z")
REQLINE_RE = re.compile(rb"([^ ]+) ([^ ]+) (HTTP/[0-9]\.[0-9])\Z")
FIELD_VALUE_RE = re.compile(rb"(?:[\x21-\x7e\x80-\xff](?:[ \t\x21-\x7e\x80-\xff]*[\x21-\x7e\x80-\xff])?)?\Z")
REG_NAME = rb"(?:[A-Za-z0-9\-._~!$&'()*+;=]|%[0-9A-Fa-f]{2})+"      # sub-delims minus ","
HOST_STRICT_RE = re.compile(rb"(?:" + REG_NAME + rb"|\[[0-9A-Fa-f:.]+\])(?::[0-9]*)?\Z")
# what any Host reader could conceivably let through: uri-host characters plus ":" "[" "]"
HOST_CHARS_RE = re.compile(rb"(?:[A-Za-z0-9\-._~!$&'()*+,;=:\[\]]|%[0-9A-Fa-f]{2})*\Z")
MAX_CHUNK_DIGITS = 16


class Incomplete(Exception):
    """EOF inside a message."""

    def __init__(self, why, head=None, body=b""):
        super().__init__(why)
        self.head, self.body = head, body


class Reject(Exception):
    def __init__(self, reason, detail="", head=None, body=b""):
        assert reason in REJECT_REASONS, reason
        super().__init__(reason)
        self.reason, self.detail, self.head, self.body = reason, detail, head, body


class Unspec(Exception):
    def __init__(self, why, head=None, body=b""):
        super().__init__(why)
        self.why, self.head, self.body = why, head, body


class Request:
    def __init__(self):
        self.method = b""
        self.target = b""
        self.version = b""
        self.headers = []      # [(name bytes as sent, (part, ...))] parts = fold pieces (OWS-trimmed, non-empty) or (b"",)
        self.body = b""
        self.framing = "none"  # none | cl | chunked
        self.chunk_sizes = None
        self.persist = None    # True / False / None (not pinned)
        self.optional = False  # accept-or-reject message (see module doc)
        self.start = 0
        self.end = 0

    def values(self, name):
        n = name.lower()
        return [b" ".join(p) for k, p in self.headers if k.lower() == n]

    def header_map(self):
        """{lower-name(str): [value(str, latin1), ...]} with folds joined by one SP."""
        out = {}
        for k, parts in self.headers:
            out.setdefault(k.lower().decode("latin1"), []).append(b" ".join(parts).decode("latin1"))
        return out

    def value_patterns(self):
        """{lower-name: [compiled regex]}: a fold may be replaced by one *or more* SP (RFC 9112 5.2)."""
        out = {}
        for k, parts in self.headers:
            pat = "[ \t]+".join(re.escape(p.decode("latin1")) for p in parts)
            out.setdefault(k.lower().decode("latin1"), []).append(re.compile(pat + r"\Z", re.S))
        return out

    def as_dict(self):
        return {"method": self.method, "target": self.target, "version": self.version,
                "headers": [(k, b" ".join(p)) for k, p in self.headers], "body_len": len(self.body),
                "framing": self.framing, "persist": self.persist, "optional": self.optional}


class Result:
    def __init__(self):
        self.requests = []
        self.stop = "end"
        self.reason = None
        self.head = None      # head of the message the reader stopped at, when its header section was well-formed
        self.body = b""       # body bytes of that message decodable before the stop
        self.consumed = 0


def _line(data, pos, what, head=None, lenient_lf=True, body=b""):
    """One line starting at pos. Returns (line_without_terminator, next_pos, bare_lf)."""
    i = data.find(b"\n", pos)
    if i < 0:
        raise Incomplete(what, head, body)
    if i > pos and data[i - 1:i] == b"\r":
        return data[pos:i - 1], i + 1, False
    return data[pos:i], i + 1, True


def _classify_request_line(line):
    if b"\r" in line:
        raise Unspec("bare CR in request line")
    m = REQLINE_RE.match(line)
    if not m:
        # HTTP/1.x with a two-digit minor, lowercase http, missing parts, extra SP, HTAB ...
        raise Reject("request-line-malformed", repr(line[:80]))
    method, target, version = m.groups()
    if not TOKEN_RE.match(method):
        raise Reject("request-line-malformed", "method is not a token")
    if re.search(rb"[\x00-\x20\x7f]", target):
        raise Reject("request-line-malformed", "control character or whitespace in request-target")
    if re.search(rb"[\x80-\xff]", target):
        raise Unspec("obs-text in request-target")
    if version[5:6] != b"1":
        raise Unspec("HTTP major version other than 1")
    if version not in (b"HTTP/1.0", b"HTTP/1.1"):
        raise Unspec("HTTP/1.x minor version above 1")
    if not (ORIGIN_FORM_RE.match(target) or ABSOLUTE_FORM_RE.match(target)
            or (target == b"*" and method == b"OPTIONS")):
        raise Unspec("request-target outside origin-form/absolute-form URI grammar")
    return method, target, version


def read_head(data, pos):
    """Parses leading blank line + request line + header section.
    Returns (Request without body, position after the blank line)."""
    r = Request()
    r.start = pos
    line, p, _ = _line(data, pos, "request line")
    if line == b"":
        # the one tolerated leading blank line
        if p >= len(data):
            raise Incomplete("nothing after blank line")
        line, p, _ = _line(data, p, "request line")
        if line == b"":
            raise Unspec("two or more leading blank lines")
    r.method, r.target, r.version = _classify_request_line(line)
    first = True
    while True:
        line, p, _ = _line(data, p, "header section")
        if line == b"":
            break
        if b"\r" in line:
            raise Unspec("bare CR in header section")
        if line[:1] in (b" ", b"\t"):
            if first:
                raise Unspec("whitespace-preceded line before the first header field")
            part = line.strip(b" \t")
            if part == b"":
                raise Unspec("whitespace-only continuation line")
            if not FIELD_VALUE_RE.match(part):
                raise Unspec("control character in folded field value")
            name, parts = r.headers[-1]
            r.headers[-1] = (name, (parts + (part,)) if parts != (b"",) else (part,))
            continue
        first = False
        name, sep, value = line.partition(b":")
        if not sep or not TOKEN_RE.match(name):
            raise Unspec("field line without a token name directly followed by ':'")
        value = value.strip(b" \t")
        if not FIELD_VALUE_RE.match(value):
            raise Unspec("control character in field value")
        r.headers.append((name, (value,)))
    return r, p


def _content_length(r):
    vals = r.values(b"content-length")
    if not vals:
        return None
    elems = []
    for v in vals:
        elems += [e.strip(b" \t") for e in v.split(b",")]
    nonempty = [e for e in elems if e != b""]
    if not nonempty:
        raise Reject("content-length-non-numeric", "empty", r)
    for e in nonempty:
        if not re.fullmatch(rb"[0-9]+", e):
            raise Reject("content-length-non-numeric", repr(e[:40]), r)
    if len({int(e) for e in nonempty}) != 1:
        raise Reject("content-length-conflicting", repr(vals)[:80], r)
    if len(elems) > 1:
        r.optional = True     # RFC 9110 8.6: same value repeated: MAY reject or use it
    return int(nonempty[0])


def _transfer_encoding(r):
    """None (no TE) or True (exactly chunked)."""
    vals = r.values(b"transfer-encoding")
    if not vals:
        return None
    codings = []
    for v in vals:
        codings += [e.strip(b" \t").lower() for e in v.split(b",")]
    named = [c for c in codings if c != b""]
    other = [c for c in named if c != b"chunked"]
    if other:
        if all(c.split(b";")[0].strip(b" \t") == b"chunked" for c in other):
            raise Unspec("parameters on the chunked coding", r)
        raise Reject("transfer-coding-not-chunked", repr(vals)[:80], r)
    if named != codings or len(named) != 1:
        raise Unspec("chunked repeated or empty list elements in Transfer-Encoding", r)
    return True


def _check_host(r):
    vals = r.values(b"host")
    if len(vals) > 1:
        raise Reject("host-multiple", repr(vals)[:80], r)
    if not vals:
        if r.version == b"HTTP/1.1":
            raise Reject("host-missing", "", r)
        return
    h = vals[0]
    if h == b"":
        raise Unspec("empty Host", r)
    if HOST_STRICT_RE.match(h):
        port = h.rpartition(b":")[2] if (b":" in h and not h.endswith(b"]")) else b""
        if len(port) > 5:
            # grammatical (port = *DIGIT) but no TCP port; rejecting it as an invalid Host is as good as accepting
            raise Unspec("Host port with more than 5 digits", r)
        return
    if not HOST_CHARS_RE.match(h):
        raise Reject("host-invalid", repr(h[:80]), r)
    raise Unspec("Host with ',' or misplaced ':' '[' ']'", r)


def _persist(r):
    conn = r.values(b"connection")
    c = b",".join(conn).lower() if conn else None
    if r.version == b"HTTP/1.1":
        if c is None or c == b"keep-alive":
            return True
        if c == b"close":
            return False
        return None
    if c is None:
        return False
    if c == b"keep-alive" and (r.framing == "cl" or r.method in (b"GET", b"HEAD")):
        return True
    return None


def read_chunked(data, pos, head, max_body=None):
    body = bytearray()
    sizes = []
    while True:
        i = data.find(b"\n", pos)
        if i < 0:
            raise Incomplete("chunk size line", head, bytes(body))
        if i == pos or data[i - 1:i] != b"\r":
            raise Unspec("bare LF in chunk framing", head, bytes(body))
        line = data[pos:i - 1]
        pos = i + 1
        if b";" in line:
            raise Unspec("chunk extension", head, bytes(body))
        if not re.fullmatch(rb"[0-9A-Fa-f]+", line):
            raise Reject("chunk-size-malformed", repr(line[:40]), head, bytes(body))
        if len(line) > MAX_CHUNK_DIGITS:
            raise Unspec("chunk size with more than 16 hex digits", head, bytes(body))
        n = int(line, 16)
        sizes.append(n)
        if n == 0:
            nxt = data[pos:pos + 2]
            if nxt == b"\r\n":
                return bytes(body), pos + 2, sizes
            if len(nxt) < 2 and b"\r\n".startswith(nxt):
                raise Incomplete("end of chunked body", head, bytes(body))
            if nxt[:1] == b"\n":
                raise Unspec("bare LF in chunk framing", head, bytes(body))
            if re.match(rb"[" + TCHAR + rb"]", nxt):
                raise Unspec("trailer fields", head, bytes(body))
            if len(nxt) < 2:
                raise Incomplete("end of chunked body", head, bytes(body))
            raise Reject("chunk-terminator-malformed", repr(nxt), head, bytes(body))
        if max_body is not None and sum(sizes) > max_body:
            raise Unspec("body over the configured size limit (C04)", head, bytes(body))
        avail = data[pos:pos + n]
        body += avail
        if len(avail) < n:
            raise Incomplete("chunk data", head, bytes(body))
        term = data[pos + n:pos + n + 2]
        if term != b"\r\n":
            if len(term) < 2 and b"\r\n".startswith(term):
                raise Incomplete("chunk terminator", head, bytes(body))
            raise Reject("chunk-terminator-malformed", repr(term), head, bytes(body))
        pos += n + 2


def read_request(data: bytes, pos=0, max_body=None) -> Request:
    """One request starting at pos (complete stream, EOF after it)."""
    r, p = read_head(data, pos)
    # body framing first (RFC 9112 6.3), then Host (a Host problem on a message whose framing is
    # itself rejected is still a rejection; which one is reported does not matter to the oracle)
    if r.version == b"HTTP/1.0" and r.values(b"transfer-encoding"):
        # RFC 9112 6.1: "treat the message as if the framing is faulty" - processing or rejecting are both allowed
        raise Unspec("Transfer-Encoding on an HTTP/1.0 request", r)
    te = _transfer_encoding(r)
    cl = _content_length(r)
    if te and cl is not None:
        raise Reject("content-length-with-transfer-encoding", "", r)
    _check_host(r)
    if te:
        r.framing = "chunked"
        r.body, p, r.chunk_sizes = read_chunked(data, p, r, max_body)
    elif cl is not None:
        r.framing = "cl"
        if max_body is not None and cl > max_body:
            raise Unspec("body over the configured size limit (C04)", r)
        r.body = data[p:p + cl]
        if len(r.body) < cl:
            raise Incomplete("content-length body", r, r.body)
        p += cl
    r.persist = _persist(r)
    r.end = p
    return r


def read_stream(data: bytes, max_body=None) -> Result:
    res = Result()
    pos = 0
    while True:
        if pos >= len(data) or data[pos:] in (b"\r\n", b"\n"):
            res.stop = "end"
            break
        try:
            r = read_request(data, pos, max_body)
        except Incomplete as e:
            res.stop, res.reason, res.head, res.body = "truncated", str(e), e.head, e.body
            break
        except Reject as e:
            res.stop, res.reason, res.head, res.body = "reject", e.reason, e.head, e.body
            res.detail = e.detail
            break
        except Unspec as e:
            res.stop, res.reason, res.head, res.body = "unspec", e.why, e.head, e.body
            break
        res.requests.append(r)
        pos = r.end
        if r.persist is not True:
            # whatever follows is not read as a request by a reader honouring persistence
            res.stop = "closed" if r.persist is False else "persist-unspec"
            break
    res.consumed = pos
    return res
