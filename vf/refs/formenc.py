"""Independent form *encoders* (oracle side of C30). Shares no code with tornado.

urlencoded  : HTML "application/x-www-form-urlencoded" serialiser with random
              (always valid) percent-encoding choices.
multipart   : RFC 7578 / RFC 2046 multipart/form-data writer.  Parameters are
              written as token, quoted-string (RFC 2045/822: only `\\` and `"` are
              escaped, with a backslash), RFC 2231/5987 ext-value
              (name*=utf-8'lang'pct-encoded), RFC 2231 section 3 parameter value
              continuations (name*0="..."; name*1=tok) or RFC 2231 section 4.1
              continuations carrying charset information (name*0*=utf-8''%41;
              name*1="plain"; name*2*=%42).  The boundary is verified to occur
              nowhere in the body except in the delimiter lines the encoder wrote.
"""
from __future__ import annotations

import re

HEX_U = "0123456789ABCDEF"
HEX_L = "0123456789abcdef"

# bytes every urlencoded producer may leave raw (HTML: alnum and *-._ ; RFC 3986 query also
# allows these sub-delims/pchar raw and no form parser gives them a meaning)
URL_RAW_ALWAYS = frozenset(b"ABCDEFGHIJKLMNOPQRSTUVWXYZabcdefghijklmnopqrstuvwxyz0123456789*-._")
URL_RAW_MAYBE = frozenset(b"~!$'(),/:@")


def pct(b: int, rng) -> bytes:
    r = rng.random()
    if r < 0.1:  # mixed-case hex digits
        return ("%" + rng.choice((HEX_U, HEX_L))[b >> 4] + rng.choice((HEX_U, HEX_L))[b & 15]).encode()
    hx = HEX_U if r < 0.75 else HEX_L
    return ("%" + hx[b >> 4] + hx[b & 15]).encode()


def url_component(data: bytes, rng, style) -> bytes:
    """style: 'min' (encode only what must be), 'all' (encode everything), 'mix'."""
    out = bytearray()
    for b in data:
        if b == 0x20 and style != "all" and rng.random() < 0.6:
            out += b"+"
            continue
        raw_ok = b in URL_RAW_ALWAYS or (b in URL_RAW_MAYBE and style == "mix" and rng.random() < 0.5)
        if style == "all" or not raw_ok or (style == "mix" and rng.random() < 0.25):
            out += pct(b, rng)
        else:
            out.append(b)
    return bytes(out)


def enc_urlencoded(pairs, rng, style="mix") -> bytes:
    """pairs: [(name_bytes, value_bytes)]"""
    return b"&".join(url_component(n, rng, style) + b"=" + url_component(v, rng, style) for n, v in pairs)


# ---------------------------------------------------------------------------
# multipart

TOKEN_RE = re.compile(r"[!#$%&'*+\-.^_`|~0-9A-Za-z]+\Z")
ATTR_CHAR = frozenset(b"ABCDEFGHIJKLMNOPQRSTUVWXYZabcdefghijklmnopqrstuvwxyz0123456789!#$&+-.^_`|~")
BCHARS_NOSPACE = "0123456789ABCDEFGHIJKLMNOPQRSTUVWXYZabcdefghijklmnopqrstuvwxyz'()+_,-./:=?"
TSPECIALS = set('()<>@,;:\\"/[]?= ')


def quotable(s: str) -> bool:
    """True if `s` may be written inside a quoted-string: no CR/LF/NUL/other C0 controls/DEL
    (HTAB allowed).  Non-ASCII characters are written as raw UTF-8 (RFC 7578 section 5.1.3)."""
    return all((ord(c) >= 0x20 and ord(c) != 0x7F) or c == "\t" for c in s)


def quoted_string(s: str) -> str:
    return '"' + s.replace("\\", "\\\\").replace('"', '\\"') + '"'


def ext_value(s: str, rng, lang="") -> str:
    raw = s.encode("utf-8")
    out = []
    for b in raw:
        if b in ATTR_CHAR and rng.random() < 0.9:
            out.append(chr(b))
        else:
            out.append("%" + HEX_U[b >> 4] + HEX_U[b & 15] if rng.random() < 0.8
                       else "%" + HEX_L[b >> 4] + HEX_L[b & 15])
    return rng.choice(["utf-8", "UTF-8"]) + "'" + lang + "'" + "".join(out)


def pct_attr(s: str, rng) -> str:
    """RFC 2231 extended-other-values: attribute-char or %XX of the UTF-8 bytes."""
    out = []
    for b in s.encode("utf-8"):
        if b in ATTR_CHAR and rng.random() < 0.8:
            out.append(chr(b))
        else:
            hx = HEX_U if rng.random() < 0.8 else HEX_L
            out.append("%" + hx[b >> 4] + hx[b & 15])
    return "".join(out)


def split_sections(value: str, rng):
    """Cuts `value` into 1..13 consecutive sections at character boundaries (sections may be empty)."""
    k = rng.choice([1, 2, 2, 2, 3, 3, 4, 5, 11, 13])
    cuts = sorted(rng.randint(0, len(value)) for _ in range(k - 1))
    edges = [0] + cuts + [len(value)]
    return [value[a:b] for a, b in zip(edges, edges[1:])]


def plain_section(sec: str, rng) -> str:
    """A regular (not charset-extended) section value: token or quoted-string."""
    if TOKEN_RE.match(sec) and rng.random() < 0.4:
        return sec
    assert quotable(sec)
    return quoted_string(sec)


def cont_params(name: str, value: str, form: str, rng) -> list:
    """RFC 2231 parameter value continuations.  Returns one parameter string per section.

    form 'cont'  (section 3): every section is a regular parameter `name*N=token|quoted-string`.
    form 'contx' (section 4.1): section 0 is `name*0*=charset'lang'pct` and every later section is either
                 extended (`name*N*=pct`) or, if it is printable ASCII, possibly regular (`name*N="..."`).
    Section numbers are decimal without leading zeros, start at 0 and are contiguous.  RFC 2231 section 3:
    the mechanism does not depend on parameter order, so the sections are sometimes written out of order."""
    secs = split_sections(value, rng)
    out = []
    if form == "cont":
        assert quotable(value)
        for i, sec in enumerate(secs):
            out.append(f"{name}*{i}={plain_section(sec, rng)}")
    elif form == "contx":
        lang = rng.choice(["", "", "en"])
        for i, sec in enumerate(secs):
            if i == 0:
                out.append(f"{name}*0*={rng.choice(['utf-8', 'UTF-8'])}'{lang}'{pct_attr(sec, rng)}")
            elif sec.isascii() and quotable(sec) and rng.random() < 0.5:
                out.append(f"{name}*{i}={plain_section(sec, rng)}")
            else:
                out.append(f"{name}*{i}*={pct_attr(sec, rng)}")
    else:
        raise ValueError(form)
    if len(out) > 1 and rng.random() < 0.25:
        rng.shuffle(out)
    return out


def param(name: str, value: str, form: str, rng) -> str:
    """form: token | quoted | ext"""
    if form == "token":
        assert TOKEN_RE.match(value)
        return f"{name}={value}"
    if form == "quoted":
        assert quotable(value)
        return f"{name}={quoted_string(value)}"
    if form == "ext":
        return f"{name}*={ext_value(value, rng, rng.choice(['', '', 'en']))}"
    raise ValueError(form)


def forms_for(value: str):
    """Parameter forms that can carry `value` losslessly."""
    out = ["ext", "contx"]
    if quotable(value):
        out.append("quoted")
        out.append("cont")
    if TOKEN_RE.match(value):
        out.append("token")
    return out


def case_variant(name: str, rng) -> str:
    r = rng.random()
    if r < 0.6:
        return name
    if r < 0.75:
        return name.lower()
    if r < 0.9:
        return name.upper()
    return "".join(c.upper() if rng.random() < 0.5 else c.lower() for c in name)


class Part:
    def __init__(self, name, value, filename=None, ctype=None):
        self.name, self.value, self.filename, self.ctype = name, value, filename, ctype
        self.name_form = self.fn_form = None
        self.header_block = b""   # header lines joined by CRLF, without the terminating CRLFCRLF


def params_of(name: str, value: str, form: str, rng) -> list:
    if form in ("cont", "contx"):
        return cont_params(name, value, form, rng)
    return [param(name, value, form, rng)]


def build_part_headers(p: Part, rng, force_name_form=None, force_fn_form=None, pad_to=None) -> bytes:
    p.name_form = force_name_form or rng.choice(forms_for(p.name))
    params = params_of("name", p.name, p.name_form, rng)
    if p.filename is not None:
        p.fn_form = force_fn_form or rng.choice(forms_for(p.filename))
        fnp = params_of("filename", p.filename, p.fn_form, rng)
        r = rng.random()
        if r < 0.2:
            params = fnp + params
        elif r < 0.3 and len(params) + len(fnp) > 2:
            # parameters are not order sensitive (RFC 2045 section 5.1): interleave the sections of both
            params = params + fnp
            rng.shuffle(params)
        else:
            params = params + fnp
    sep = rng.choice(["; ", "; ", ";", ";  "])
    cd = "form-data" + "".join(sep + x for x in params)
    lines = [case_variant("Content-Disposition", rng) + rng.choice([": ", ": ", ":"]) + cd]
    if p.ctype is not None:
        ct = case_variant("Content-Type", rng) + rng.choice([": ", ": ", ":"]) + p.ctype
        if rng.random() < 0.2:
            lines.insert(0, ct)
        else:
            lines.append(ct)
    block = "\r\n".join(lines).encode("utf-8")
    if pad_to is not None and len(block) < pad_to:
        # pad with a harmless extra header so that the block has an exact size
        need = pad_to - len(block)
        if need >= 6:  # CRLF + "X-P:" + value
            block += b"\r\nX-P:" + b"p" * (need - 6)
    return block


def pick_boundary(rng, blobs, quoted_ok=True):
    """A boundary (RFC 2046 bchars, 1..70 chars, not ending in space) that occurs in none of `blobs`."""
    n = rng.choice([1, 2, 4, 8, 16, 28, 40, 70])
    for _ in range(200):
        alphabet = BCHARS_NOSPACE + (" " if quoted_ok and rng.random() < 0.2 else "")
        b = "".join(rng.choice(alphabet) for _ in range(n))
        if b.endswith(" ") or b.startswith(" "):
            b = "x" + b[1:-1] + "y" if len(b) > 1 else "x"
        bb = b.encode()
        if not any(bb in blob for blob in blobs):
            return b
        n = min(70, n + 3)
    raise RuntimeError("no boundary found")


def boundary_param(b: str, rng):
    must_quote = any(c in TSPECIALS for c in b)
    if must_quote or rng.random() < 0.2:
        return 'boundary="' + b + '"', True
    return "boundary=" + b, False


def enc_multipart(parts, rng, preamble=b"", epilogue=b"", boundary=None, header_blocks=None):
    """parts: [Part]; returns (content_type, body, boundary).  Sets p.header_block."""
    blobs = [preamble, epilogue]
    for i, p in enumerate(parts):
        p.header_block = header_blocks[i] if header_blocks else build_part_headers(p, rng)
        blobs.append(p.header_block)
        blobs.append(p.value)
    forced = boundary is not None
    for _attempt in range(100):
        if not forced:
            boundary = pick_boundary(rng, blobs)
        bb = boundary.encode()
        assert not any(bb in blob for blob in blobs), "boundary occurs in content"
        delim = b"--" + bb
        out = bytearray(preamble)
        written = []
        for p in parts:
            written.append(len(out))
            out += delim + b"\r\n" + p.header_block + b"\r\n\r\n" + p.value + b"\r\n"
        written.append(len(out))
        out += delim + b"--" + epilogue
        body = bytes(out)
        # the delimiter occurs exactly where the encoder wrote it (overlapping search), and the
        # boundary itself nowhere else
        found, i = [], body.find(delim)
        while i >= 0:
            found.append(i)
            i = body.find(delim, i + 1)
        bfound, i = [], body.find(bb)
        while i >= 0:
            bfound.append(i)
            i = body.find(bb, i + 1)
        if found == written and bfound == [w + 2 for w in written]:
            break
        assert not forced, "forced boundary is not absent from the content"
    else:
        raise RuntimeError("no usable boundary")
    bp, _q = boundary_param(boundary, rng)
    r = rng.random()
    if r < 0.7:
        ct = "multipart/form-data; " + bp
    elif r < 0.8:
        ct = "multipart/form-data;" + bp
    elif r < 0.9:
        ct = "multipart/form-data; charset=utf-8; " + bp
    else:
        ct = "multipart/form-data; " + bp + "; charset=utf-8"
    return ct, body, boundary
