"""One-loop / one-rig driver for properties that go through tornado.web (C24..C28).

    async def acase(case, ctx, sess): ...           # judge one case; sess.request(...) does I/O
    webrig.run_cases(make_session, cases, acase, ctx)

`make_session()` is a *sync* callable executed inside the virtual loop that
returns a Session (it builds the Application; handler classes may be created
there).  A shard runs ONE virtual loop and ONE ServerRig; every case issues its
requests on the keep-alive connection of the session (a new connection is made
whenever the server closed the previous one), so thousands of requests per
shard cost ~0.3 ms each.  Requests are independent: every request gets a fresh
RequestHandler and nothing in the applications used here keeps per-connection
state.

Responses are delimited by the strict response reader (vf/refs/http.py); a
response the strict reader cannot delimit is reported by the caller as a
safety violation (mechanism wire/...).  The log is an observation channel:
`sess.take_uncaught()` returns the uncaught-exception records produced since
the last call.
"""
from __future__ import annotations

import time

from vf import core, vloop
from vf.logmon import LogMon
from vf.refs import http as strict
from vf.wire import ServerRig

core.use_repo()


class WireError(Exception):
    """The byte stream written by the server is not a delimitable response."""

    def __init__(self, kind, why, raw):
        super().__init__(f"{kind}: {why}")
        self.kind, self.why, self.raw = kind, why, raw


class Session:
    def __init__(self, app, lm=None, **server_kw):
        self.app = app
        self.rig = ServerRig(app, record=False, **server_kw)
        self.peer = None
        self.lm = lm
        self.requests = 0
        self.connects = 0
        self.retries = 0
        self._fresh = False
        self.cleanup = []          # callables run at close (fixture removal ...)

    def _ensure_peer(self):
        if self.peer is not None and self.peer.sock is not None:
            self.peer.pump()
        if self.peer is None or self.peer.sock is None or self.peer.eof or self.peer.send_error:
            if self.peer is not None:
                self.peer.close()
            # closed server-side streams would otherwise accumulate in the rig
            self.rig.streams = [s for s in self.rig.streams if not s.closed()]
            self.peer = self.rig.connect()
            self.connects += 1
            self._fresh = True
        return self.peer

    async def exchange(self, raw: bytes, methods, rounds=400, _retry=True):
        """Send `raw` (one or more pipelined requests) and read one response per
        entry of `methods`.  Returns a list of strict Response objects (shorter
        than `methods` only if the server closed the connection early)."""
        peer = self._ensure_peer()
        fresh = self._fresh
        self._fresh = False
        del peer.rx[:]
        self.requests += len(methods)
        await peer.send(raw)
        out = []
        pos = 0
        for m in methods:
            r = None
            for _ in range(rounds):
                data = bytes(peer.rx[pos:])
                if data:
                    try:
                        r = strict.read_response(data, m, eof=peer.eof)
                    except strict.Incomplete:
                        r = None
                    except strict.Reject as e:
                        self._drop()
                        raise WireError("reject", str(e), data[:400])
                    except strict.Unspec as e:
                        self._drop()
                        raise WireError("unspec", str(e), data[:400])
                    if r is not None:
                        pos += len(data) - len(r.rest)
                        if 100 <= r.status < 200 and r.status != 101:
                            r = None
                            continue
                        break
                if peer.eof:
                    break
                await vloop.settle()
                peer.pump()
            if r is None:
                break
            out.append(r)
            if r.framing == "close":
                break
        closing = peer.eof or peer.send_error is not None or any(
            v.strip().lower() == b"close" for r in out for v in r.get_all("connection"))
        if closing:
            self._drop()
        if not out and not fresh and _retry:
            # the kept-alive connection had been closed under us: once more on a new one
            self.requests -= len(methods)
            self.retries += 1
            return await self.exchange(raw, methods, rounds, _retry=False)
        return out

    async def request(self, raw: bytes, method="GET"):
        """One request -> strict Response or None (connection closed without one)."""
        rs = await self.exchange(raw, [method])
        return rs[0] if rs else None

    def _drop(self):
        if self.peer is not None:
            self.peer.close()
            self.peer = None

    def take_uncaught(self):
        """Uncaught-exception log records since the last call (and forget all records)."""
        if self.lm is None:
            return []
        u = self.lm.uncaught()
        self.lm.records.clear()
        return u

    async def close(self):
        self._drop()
        await self.rig.close()
        for fn in self.cleanup:
            try:
                fn()
            except Exception:
                pass


def build_request(method, target, headers=(), body=None, version="HTTP/1.1", host="site.test"):
    """Raw request bytes. `target`, header names/values may be str (latin-1) or bytes."""
    def b(x):
        return x if isinstance(x, bytes) else str(x).encode("latin-1")
    lines = [b(method) + b" " + b(target) + b" " + b(version)]
    if host is not None:
        lines.append(b"Host: " + b(host))
    for k, v in headers:
        lines.append(b(k) + b": " + b(v))
    if body is not None:
        lines.append(b"Content-Length: " + str(len(body)).encode())
    return b"\r\n".join(lines) + b"\r\n\r\n" + (body or b"")


def run_cases(make_session, cases, acase, ctx, budget=None, count_evals=True):
    """Run every case of `cases` on one virtual loop / one session."""
    import asyncio
    t0 = time.time()

    async def main():
        lm.attach_loop(asyncio.get_running_loop())
        sess = make_session(lm)
        try:
            for case in cases:
                ctx.current_case = case
                if count_evals:
                    ctx.evaluations += 1
                await acase(case, ctx, sess)
                if budget and time.time() - t0 > budget:
                    ctx.count("budget_stops")
                    break
            ctx.current_case = None
            ctx.count("requests", sess.requests)
            ctx.count("connections", sess.connects)
        finally:
            await sess.close()

    with LogMon() as lm:
        vloop.run(main)


def safety(ctx, sess, resp, what="request"):
    """Safety half shared by all web properties: no uncaught-exception log record."""
    u = sess.take_uncaught()
    ctx.count("safety_evals")
    if u:
        r = u[0]
        exc = r.get("exc") or "log"
        ctx.violation(f"uncaught/{exc}", f"{what} produced an uncaught-exception log record",
                      {"records": u[:2], "status": getattr(resp, "status", None)})
        return False
    return True
