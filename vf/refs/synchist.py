"""Shared harness pieces for C33/C34/C35: operation histories on the virtual loop.

Time model (DESIGN §4 C33 "deadlines from a small grid so that an expiry can fall
between any two ops"):

* grid time G = number of `adv` ops executed so far in the case; the virtual clock
  is t0 + G + drift where drift is the sum of the 1e-6 `settle()` sleeps since the
  last `adv` (bounded far below 0.5);
* a timeout spec `tm` is None | ("rel", k) | ("abs", k) | ("zero",) | ("tdzero",) |
  ("past",): ("rel", k) is `timedelta(seconds=k + 0.5)`, ("abs", k) is the absolute
  IOLoop-scale time of the same instant, so both expire strictly between grid
  points G_call + k and G_call + k + 1 — never at the same instant as an op, which is
  why the sequential model is exact; the zero forms are already expired at the call
  and fire on the next loop iteration.

Nothing here looks at the objects under test; the clock is read from the harness'
own loop.
"""
from __future__ import annotations

import asyncio
import datetime

from vf import vloop

ZERO_FORMS = ("zero", "tdzero", "past")


class Clock:
    def __init__(self):
        self.loop = asyncio.get_event_loop()
        self.t0 = self.loop.time()
        self.G = 0

    def arg(self, tm):
        """The `timeout=` argument to hand to tornado for spec tm."""
        if tm is None:
            return None
        kind = tm[0]
        if kind == "rel":
            return datetime.timedelta(seconds=tm[1] + 0.5)
        if kind == "abs":
            return vloop.EPOCH + self.t0 + self.G + tm[1] + 0.5
        if kind == "zero":
            return 0
        if kind == "tdzero":
            return datetime.timedelta(0)
        if kind == "past":
            return vloop.EPOCH + self.t0 + self.G - 3.25
        raise ValueError(tm)

    def expiry(self, tm):
        """Grid time at (or after) which a settled observer must see the timeout."""
        if tm is None:
            return None
        if tm[0] in ZERO_FORMS:
            return self.G
        return self.G + tm[1] + 1

    async def advance(self):
        self.G += 1
        delay = (self.t0 + self.G) - self.loop.time()
        await asyncio.sleep(delay)
        await vloop.settle()

    def live_timers(self):
        """Timer handles still scheduled and not cancelled (harness has none outstanding
        when this is called, so all of them belong to the code under test)."""
        return sum(1 for h in self.loop._scheduled if not h._cancelled)


def needs_settle(tm):
    return tm is not None and tm[0] in ZERO_FORMS


def fstate(f, timeout_types=(asyncio.TimeoutError, TimeoutError)):
    """Settled view of a future: 'P' | 'C' | 'T' | 'E:<Type>' | ('R', value)."""
    if not f.done():
        return "P"
    if f.cancelled():
        return "C"
    e = f.exception()
    if e is not None:
        if isinstance(e, timeout_types):
            return "T"
        return "E:" + type(e).__name__
    return ("R", f.result())


NAMES = {"P": "pending", "C": "cancelled", "T": "timeout", "G": "granted", "R": "resolved"}


def sname(s):
    if isinstance(s, tuple):
        return "resolved"
    if isinstance(s, str) and s.startswith("E:"):
        return "error-" + s[2:]
    return NAMES.get(s, str(s))


def prefixes(alpha_fn, model_fn, depth):
    """Enumerate all op prefixes of exactly `depth` ops (or shorter if stuck) by DFS over
    the *model* (used only to know which ops are applicable)."""
    out = []

    def rec(prefix, m):
        if len(prefix) == depth:
            out.append(tuple(prefix))
            return
        ops = alpha_fn(m)
        if not ops:
            out.append(tuple(prefix))
            return
        for op in ops:
            m2 = m.clone()
            m2.apply(op)
            rec(prefix + [op], m2)

    rec([], model_fn())
    return out


def leaves(alpha_fn, model, prefix, maxlen):
    """All maximal histories (length == maxlen, or stuck earlier) extending `prefix`."""
    def rec(hist, m):
        if len(hist) >= maxlen:
            yield tuple(hist)
            return
        ops = alpha_fn(m)
        if not ops:
            yield tuple(hist)
            return
        for op in ops:
            m2 = m.clone()
            m2.apply(op)
            hist.append(op)
            yield from rec(hist, m2)
            hist.pop()

    m = model
    for op in prefix:
        m.apply(op)
    yield from rec(list(prefix), m)
