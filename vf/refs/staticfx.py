"""Static-file fixture tree + independent path oracle shared by C26/C27/C28.

    fx = Fixture()        # mkdtemp; fx.root is the static root; fx.remove() at the end

Layout (B = scratch base, every file has unique content):

    B/secret.txt                     parent file
    B/rootx                          FILE whose name has the root's name as prefix
    B/root2/secret2.txt              sibling dir sharing the prefix
    B/roo/secret3.txt                sibling dir that is a prefix of the root's name
    B/outside/index.html, d.txt      plain sibling
    B/root/index.html a.txt .hidden "sp ace.txt" big.bin
    B/root/sub/index.html b.txt deep/c.txt
    B/root/empty/                    directory without default file
"""
from __future__ import annotations

import os
import re
import shutil
import tempfile

FILES = {
    "secret.txt": b"OUTSIDE-parent-secret-7d1f\n",
    "rootx": b"OUTSIDE-prefix-file-rootx-91ab\n",
    "root2/secret2.txt": b"OUTSIDE-prefix-sibling-root2-55c0\n",
    "roo/secret3.txt": b"OUTSIDE-shorter-sibling-roo-0e3a\n",
    "outside/index.html": b"OUTSIDE-index-4f4f\n",
    "outside/d.txt": b"OUTSIDE-d-1212\n",
    "root/index.html": b"<p>inside root index 8a8a</p>\n",
    "root/a.txt": b"inside a.txt 0101\n",
    "root/.hidden": b"inside hidden 2323\n",
    "root/sp ace.txt": b"inside space 4545\n",
    "root/sub/index.html": b"<p>inside sub index 6767</p>\n",
    "root/sub/b.txt": b"inside sub b 8989\n",
    "root/sub/deep/c.txt": b"inside deep c abab\n",
}
DIRS = ["root/empty"]


class Fixture:
    def __init__(self, extra_files=None):
        self.base = os.path.realpath(tempfile.mkdtemp(prefix="vf-static-"))
        self.root = self.base + "/root"
        self.files = {}
        self.dirs = {self.base}
        allf = dict(FILES)
        allf.update(extra_files or {})
        for rel, data in allf.items():
            p = self.base + "/" + rel
            os.makedirs(os.path.dirname(p), exist_ok=True)
            with open(p, "wb") as f:
                f.write(data)
            self.files[p] = data
        for d in DIRS:
            os.makedirs(self.base + "/" + d, exist_ok=True)
        for dp, dn, fn in os.walk(self.base):
            self.dirs.add(dp)

    def remove(self):
        shutil.rmtree(self.base, ignore_errors=True)

    def inside(self, norm):
        return norm == self.root or norm.startswith(self.root + "/")

    def exists(self, norm):
        return norm in self.files or norm in self.dirs or os.path.lexists(norm)


_PCT = re.compile(rb"%([0-9a-fA-F]{2})")


def pct_decode(raw: bytes) -> bytes:
    """Percent-decoding written from RFC 3986 §2.1 (malformed escapes stay literal).

    Interface fact mirrored here: Tornado reads the request line as latin-1 text and
    turns literal (un-escaped) non-ASCII characters of a path group into their UTF-8
    encoding before the handler sees them; only %XX escapes yield raw bytes."""
    out = bytearray()
    i, n = 0, len(raw)
    while i < n:
        m = _PCT.match(raw, i)
        if m:
            out.append(int(m.group(1), 16))
            i += 3
        elif raw[i] >= 0x80:
            out += chr(raw[i]).encode("utf-8")
            i += 1
        else:
            out.append(raw[i])
            i += 1
    return bytes(out)


def norm_join(root: str, rel: str) -> str:
    """Independent 'join then normalise' (no os.path): '.', '' dropped, '..' pops, absolute rel replaces root."""
    stack = [] if rel.startswith("/") else [p for p in root.split("/") if p]
    for p in rel.split("/"):
        if p in ("", "."):
            continue
        if p == "..":
            if stack:
                stack.pop()
            continue
        stack.append(p)
    return "/" + "/".join(stack)
