"""Reference worker supervisor (sequential model of the statement of C41).

Written from the property statement / the documentation of fork_processes, not from its code:

  * task ids 0..n-1 are each started once, in order;
  * a worker that exits abnormally (killed by a signal, or non-zero exit status) is restarted
    with the same task id, as long as the number of restarts so far does not exceed the budget;
    the restart that would exceed it makes the supervisor fail instead;
  * a worker that exits normally is not restarted;
  * exit reports for pids the supervisor did not start are ignored;
  * when no worker is left the supervisor exits successfully.

A wait status is judged with this module's own decoding of the POSIX encoding used on Linux
(low 7 bits = terminating signal, 0x80 = core flag, bits 8..15 = exit code, 0x7f = stopped).
"""
from __future__ import annotations


def decode(status: int):
    """-> ("exit", code) | ("signal", signo) | ("stopped", signo)"""
    low = status & 0x7F
    if low == 0:
        return ("exit", (status >> 8) & 0xFF)
    if low == 0x7F:
        return ("stopped", (status >> 8) & 0xFF)
    return ("signal", low)


def abnormal(status: int) -> bool:
    kind, val = decode(status)
    if kind == "exit":
        return val != 0
    return True


class Supervisor:
    """Feed it the observable events; it says what must come next."""

    def __init__(self, n: int, budget: int):
        self.n = n
        self.budget = budget
        self.restarts = 0
        self.live = {}          # pid -> task id
        self.starts = []        # task ids in fork order
        self.outcome = None     # None (running) | "exit0" | "fail"
        self.pending_forks = list(range(n))   # ids the supervisor must fork next, in order

    def forked(self, pid: int):
        """The supervisor forked (parent branch) and got `pid`. Returns the id this worker must have."""
        assert self.pending_forks, "unexpected fork"
        tid = self.pending_forks.pop(0)
        self.live[pid] = tid
        self.starts.append(tid)
        return tid

    def expected_next(self):
        """'fork' | 'wait' | 'exit0' | 'fail'"""
        if self.outcome:
            return self.outcome
        if self.pending_forks:
            return "fork"
        if not self.live:
            self.outcome = "exit0"
            return "exit0"
        return "wait"

    def reaped(self, pid: int, status: int):
        """wait() reported (pid, status)."""
        if pid not in self.live:
            return
        tid = self.live.pop(pid)
        if abnormal(status):
            self.restarts += 1
            if self.restarts > self.budget:
                self.outcome = "fail"
            else:
                self.pending_forks.append(tid)
