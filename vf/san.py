"""Sanitizer builds of tornado/speedups.c (DESIGN §2.7).

build(kind, outdir) compiles the *current* speedups.c of the tree under test:
  kind="asan"   -O1 -g -fsanitize=address,undefined (alignment excluded, see C18 notes), no recover
  kind="plain"  -O2
  kind="driver" asan build of a ctypes-callable driver that #includes speedups.c with the CPython
                argument/result calls replaced, so the masking loops run on malloc'ed buffers at
                chosen alignment offsets whose ends coincide with the end of the allocation.
"""
from __future__ import annotations

import glob
import os
import subprocess
import sysconfig

from vf import core

ASAN_RT = next(iter(glob.glob("/usr/lib/llvm-14/lib/clang/14*/lib/linux/libclang_rt.asan-x86_64.so")), None)
SAN_FLAGS = ["-fsanitize=address,undefined", "-fno-sanitize=alignment", "-fno-sanitize-recover=all",
             "-fno-omit-frame-pointer", "-O1", "-g"]

DRIVER_C = r'''
#define PY_SSIZE_T_CLEAN
#include <Python.h>
#include <stdlib.h>
#include <string.h>
static const char *g_mask, *g_data; static Py_ssize_t g_mask_len, g_data_len; static char *g_out;
static int vf_fake_parse(PyObject *args, const char *fmt, const char **mask, Py_ssize_t *mask_len,
                         const char **data, Py_ssize_t *data_len)
{ *mask = g_mask; *mask_len = g_mask_len; *data = g_data; *data_len = g_data_len; return 1; }
#undef PyArg_ParseTuple
#define PyArg_ParseTuple vf_fake_parse
static PyObject *vf_fake_new(Py_ssize_t n) { (void)n; return Py_None; }
#define PyBytes_FromStringAndSize(s, n) vf_fake_new(n)
#define PyBytes_AsString(o) (g_out)
#include "speedups.c"
/* returns 0 ok, 1 python error raised (cleared), -1 alloc failure */
int vf_drive(const char *mask, Py_ssize_t mask_len, const char *data, Py_ssize_t len,
             int in_off, int out_off, char *out)
{
    char *mbuf = malloc(mask_len ? mask_len : 1);
    char *ibase = malloc(len + in_off + (len + in_off == 0));
    char *obase = malloc(len + out_off + (len + out_off == 0));
    if (!mbuf || !ibase || !obase) return -1;
    memcpy(mbuf, mask, mask_len); memcpy(ibase + in_off, data, len);
    g_mask = mbuf; g_mask_len = mask_len; g_data = ibase + in_off; g_data_len = len; g_out = obase + out_off;
    PyObject *r = websocket_mask(NULL, NULL);
    int rc = 0;
    if (r == NULL) { PyErr_Clear(); rc = 1; } else { memcpy(out, obase + out_off, len); }
    free(mbuf); free(ibase); free(obase);
    return rc;
}
'''


def build(kind, outdir):
    src = os.path.join(core.REPO, "tornado", "speedups.c")
    inc = sysconfig.get_paths()["include"]
    if kind == "driver":
        drv = os.path.join(outdir, "vf_driver.c")
        with open(drv, "w") as f:
            f.write(DRIVER_C)
        out = os.path.join(outdir, "vf_driver.so")
        cmd = ["clang", "-shared", "-fPIC", f"-I{inc}", f"-I{os.path.dirname(src)}"] + SAN_FLAGS + [drv, "-o", out]
    else:
        sub = os.path.join(outdir, kind)
        os.makedirs(sub, exist_ok=True)
        out = os.path.join(sub, "speedups.so")
        flags = SAN_FLAGS if kind == "asan" else ["-O2"]
        cmd = ["clang", "-shared", "-fPIC", f"-I{inc}"] + flags + [src, "-o", out]
    p = subprocess.run(cmd, stdout=subprocess.PIPE, stderr=subprocess.STDOUT, timeout=120)
    if p.returncode != 0:
        raise RuntimeError("build failed: " + p.stdout.decode()[-2000:])
    return out


def load_ext(path):
    import importlib.machinery
    import importlib.util
    loader = importlib.machinery.ExtensionFileLoader("speedups", path)
    spec = importlib.util.spec_from_loader("speedups", loader)
    mod = importlib.util.module_from_spec(spec)
    loader.exec_module(mod)
    return mod
