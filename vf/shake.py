"""Yield injection for the two threaded properties (DESIGN §2.6).

`Shaker` registers a `sys.monitoring` tool (id 4) and enables LINE events *only*
on a chosen set of code objects (`set_local_events`).  At every statement start
of those code objects the callback draws from a per-thread seeded RNG and either
does nothing, `time.sleep(0)` (offer the GIL) or sleeps 10-200 us.  Any LINE event
for a code object outside the set answers `sys.monitoring.DISABLE`, so nothing
else in the process pays for monitoring.  `sys.setswitchinterval(1e-6)` is
applied for the duration.

Injection points are statement starts.  A statement inside `with lock:` still
runs with the lock held, so a sleep there only stretches a critical section; it
cannot manufacture an interleaving the program could not have produced itself.

Also here: `EventTrace` (total order of (thread-role, event) pairs under its own
lock, hashed to count distinct interleavings) and helpers to read other threads'
stacks (`sys._current_frames()`) for *structural* stuck-state witnesses.
"""
from __future__ import annotations

import random
import sys
import threading
import time
import types

from vf import core

TOOL_ID = 4
TOOL_NAME = "vf-shake"


def code_objects(*objs):
    """All code objects (incl. nested functions/lambdas/comprehensions) of the
    given functions, methods or classes."""
    out = []
    seen = set()

    def add_code(co):
        if id(co) in seen:
            return
        seen.add(id(co))
        out.append(co)
        for c in co.co_consts:
            if isinstance(c, types.CodeType):
                add_code(c)

    def add(o):
        if isinstance(o, types.CodeType):
            add_code(o)
        elif isinstance(o, (staticmethod, classmethod)):
            add(o.__func__)
        elif isinstance(o, property):
            for f in (o.fget, o.fset, o.fdel):
                if f is not None:
                    add(f)
        elif isinstance(o, type):
            for v in vars(o).values():
                if isinstance(v, (types.FunctionType, staticmethod, classmethod, property)):
                    add(v)
        elif hasattr(o, "__wrapped_code__"):
            add_code(o.__wrapped_code__)
        elif hasattr(o, "__func__"):
            add(o.__func__)
        elif hasattr(o, "__code__"):
            add_code(o.__code__)

    for o in objs:
        add(o)
    return out


class Shaker:
    """with Shaker(codes, seed, p_yield=.3, p_sleep=.1): ...   (not re-entrant)"""

    _active = None

    def __init__(self, codes, seed, p_yield=0.3, p_sleep=0.1, switch_interval=1e-6,
                 sleep_us=(10, 200)):
        self.codes = list(codes)
        self.codeset = set(self.codes)
        self.seed = seed
        self.p_yield = p_yield
        self.p_sleep = p_sleep
        self.sleep_us = sleep_us
        self.switch_interval = switch_interval
        self._tls = threading.local()
        self._lock = threading.Lock()
        self._nthreads = 0
        self.lines = 0          # LINE events seen (approximate: unsynchronised += is fine for a statistic)
        self.yields = 0
        self.sleeps = 0
        self.disabled = 0
        self._old_switch = None
        self.installed = False

    def _rng(self):
        r = getattr(self._tls, "rng", None)
        if r is None:
            with self._lock:
                n = self._nthreads
                self._nthreads += 1
            r = self._tls.rng = random.Random(f"{self.seed}:shake:{n}")
        return r

    def _on_line(self, code, lineno):
        if code not in self.codeset:
            self.disabled += 1
            return sys.monitoring.DISABLE
        self.lines += 1
        x = self._rng().random()
        if x < self.p_sleep:
            self.sleeps += 1
            lo, hi = self.sleep_us
            time.sleep((lo + (hi - lo) * (x / self.p_sleep)) * 1e-6)
        elif x < self.p_sleep + self.p_yield:
            self.yields += 1
            time.sleep(0)
        return None

    def install(self):
        if Shaker._active is not None:
            raise RuntimeError("a Shaker is already installed")
        mon = sys.monitoring
        if mon.get_tool(TOOL_ID) is not None:
            mon.free_tool_id(TOOL_ID)
        mon.use_tool_id(TOOL_ID, TOOL_NAME)
        mon.register_callback(TOOL_ID, mon.events.LINE, self._on_line)
        for co in self.codes:
            mon.set_local_events(TOOL_ID, co, mon.events.LINE)
        self._old_switch = sys.getswitchinterval()
        if self.switch_interval:
            sys.setswitchinterval(self.switch_interval)
        Shaker._active = self
        self.installed = True
        return self

    def uninstall(self):
        if not self.installed:
            return
        mon = sys.monitoring
        for co in self.codes:
            try:
                mon.set_local_events(TOOL_ID, co, 0)
            except Exception:
                pass
        mon.register_callback(TOOL_ID, mon.events.LINE, None)
        mon.free_tool_id(TOOL_ID)
        if self._old_switch is not None:
            sys.setswitchinterval(self._old_switch)
        Shaker._active = None
        self.installed = False

    __enter__ = install

    def __exit__(self, *a):
        self.uninstall()


class EventTrace:
    """Append-only (seq, role, event, payload) log; one lock; cheap digest."""

    def __init__(self):
        self.lock = threading.Lock()
        self.events = []

    def add(self, role, event, payload=None):
        with self.lock:
            self.events.append((role, event, payload))

    def add_locked(self, role, event, payload=None):
        """Caller already holds self.lock."""
        self.events.append((role, event, payload))

    def digest(self, with_payload=False):
        with self.lock:
            if with_payload:
                seq = list(self.events)
            else:
                seq = [(r, e) for r, e, _ in self.events]
        return core.h64(seq)

    def __len__(self):
        return len(self.events)


# --- reading other threads' stacks (structural witnesses) -------------------

def thread_stack(ident):
    """[(basename, funcname, lineno), ...] outermost first, or None if the thread is gone."""
    fr = sys._current_frames().get(ident)
    if fr is None:
        return None
    out = []
    while fr is not None:
        co = fr.f_code
        out.append((co.co_filename.rsplit("/", 1)[-1], co.co_name, fr.f_lineno))
        fr = fr.f_back
    out.reverse()
    return out


def frame_local(ident, funcname, var, default=None):
    """Value of local `var` in the innermost frame of `funcname` on thread `ident`."""
    fr = sys._current_frames().get(ident)
    while fr is not None:
        if fr.f_code.co_name == funcname:
            try:
                return fr.f_locals.get(var, default)
            except Exception:
                return default
        fr = fr.f_back
    return default


def innermost(stack):
    return stack[-1][:2] if stack else None


def stack_has(stack, basename, funcname):
    return bool(stack) and any(b == basename and f == funcname for b, f, _ in stack)


def parked_in_selector(stack):
    """The thread's innermost python frame is a selectors.*.select() (blocked in, or
    about to enter / just returned from, the poll syscall)."""
    return bool(stack) and stack[-1][0] == "selectors.py" and stack[-1][1] == "select"


def parked_in_join(stack):
    return bool(stack) and stack[-1][0] == "threading.py" and stack[-1][1] in (
        "_wait_for_tstate_lock", "join")


def parked_in_cond_wait(stack):
    return bool(stack) and stack[-1][0] == "threading.py" and stack[-1][1] == "wait"


def brief(stack, n=6):
    return [f"{b}:{f}:{ln}" for b, f, ln in (stack or [])[-n:]]
