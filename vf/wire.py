"""Scripted transports and in-process endpoints (DESIGN §2.2)."""
from __future__ import annotations

import errno
import os
import random
import socket

from vf import core
from vf.vloop import settle

core.use_repo()

from tornado.iostream import IOStream  # noqa: E402


class ScriptedIOStream(IOStream):
    """Real socket, real BaseIOStream logic; read_from_fd / write_to_fd follow a
    plan: n>0 (transfer at most n bytes), 0 (pretend EWOULDBLOCK), ("err", errno),
    ("eof",).  When a plan is exhausted the base behaviour applies."""

    def __init__(self, sock, *a, read_plan=None, write_plan=None, **kw):
        self.read_plan = iter(read_plan or ())
        self.write_plan = iter(write_plan or ())
        self.fd_reads = 0
        self.fd_writes = 0
        self.bytes_to_transport = 0
        self.sent_log = None  # set to bytearray() to record bytes handed to the kernel
        super().__init__(sock, *a, **kw)

    def read_from_fd(self, buf):
        self.fd_reads += 1
        step = next(self.read_plan, None)
        try:
            if step is None:
                return super().read_from_fd(buf)
            if step == 0:
                return None
            if isinstance(step, tuple):
                if step[0] == "err":
                    raise OSError(step[1], os.strerror(step[1]))
                if step[0] == "eof":
                    return 0
            n = min(int(step), len(buf))
            try:
                return self.socket.recv_into(memoryview(buf)[:n], n)
            except BlockingIOError:
                return None
        finally:
            del buf

    def write_to_fd(self, data):
        self.fd_writes += 1
        step = next(self.write_plan, None)
        try:
            if step is None:
                n = self.socket.send(data)
            elif step == 0:
                return 0
            elif step == "block":
                raise BlockingIOError(errno.EAGAIN, "scripted EAGAIN")
            elif isinstance(step, tuple) and step[0] == "err":
                raise OSError(step[1], os.strerror(step[1]))
            else:
                n = self.socket.send(data[:int(step)])
            self.bytes_to_transport += n
            if self.sent_log is not None:
                self.sent_log += bytes(data[:n])
            return n
        finally:
            del data


def socketpair():
    a, b = socket.socketpair(socket.AF_UNIX, socket.SOCK_STREAM)
    a.setblocking(False)
    b.setblocking(False)
    return a, b


def recv_available(sock, limit=1 << 26):
    """Everything currently readable on a non-blocking socket.
    Returns (data, eof)."""
    out = bytearray()
    eof = False
    while len(out) < limit:
        try:
            d = sock.recv(65536)
        except BlockingIOError:
            break
        except (ConnectionResetError, BrokenPipeError):
            eof = True
            break
        if not d:
            eof = True
            break
        out += d
    return bytes(out), eof


class Peer:
    """Raw non-blocking socket owned by the harness; accumulates what it receives."""

    def __init__(self, sock):
        self.sock = sock
        self.rx = bytearray()
        self.eof = False
        self.send_error = None

    def pump(self):
        if self.sock is None:
            return
        d, eof = recv_available(self.sock)
        self.rx += d
        self.eof = self.eof or eof

    async def send(self, data, cuts=None):
        """Send `data`; `cuts` is an iterable of segment lengths (each followed by
        settle()); None = one segment."""
        pos = 0
        segs = list(cuts) if cuts is not None else [len(data)]
        for n in segs:
            if pos >= len(data):
                break
            await self._send_seg(data[pos:pos + n])
            pos += n
        if pos < len(data):
            await self._send_seg(data[pos:])

    async def _send_seg(self, seg):
        mv = memoryview(seg)
        spins = 0
        while len(mv) and self.send_error is None:
            try:
                n = self.sock.send(mv)
                mv = mv[n:]
            except BlockingIOError:
                spins += 1
                if spins > 10000:
                    self.send_error = "stuck"
                    break
            except OSError as e:
                self.send_error = e
                break
            await settle()
            self.pump()
        await settle()
        self.pump()

    def half_close(self):
        try:
            self.sock.shutdown(socket.SHUT_WR)
        except OSError:
            pass

    def reset(self):
        import struct
        try:
            self.sock.setsockopt(socket.SOL_SOCKET, socket.SO_LINGER, struct.pack("ii", 1, 0))
        except OSError:
            pass
        self.close()

    def close(self):
        if self.sock is not None:
            try:
                self.sock.close()
            except OSError:
                pass
            self.sock = None

    async def drain(self, rounds=3):
        for _ in range(rounds):
            await settle()
            self.pump()


def cuts_for(rng: random.Random, total: int, style: str):
    """Segment lengths for a stream of `total` bytes."""
    if style == "whole" or total <= 1:
        return [total]
    if style == "bytes":
        return [1] * total
    if style == "pairs":
        return [2] * ((total + 1) // 2)
    if style == "random":
        k = rng.randint(1, min(8, total - 1))
        pts = sorted(rng.sample(range(1, total), k))
        out, prev = [], 0
        for p in pts + [total]:
            out.append(p - prev)
            prev = p
        return out
    if style.startswith("at:"):
        p = max(1, min(total - 1, int(style[3:])))
        return [p, total - p]
    raise ValueError(style)


def read_plan_for(rng: random.Random, style: str, n=64):
    if style == "none":
        return None
    if style == "one":
        return [1] * 100000
    if style == "mix":
        return [rng.choice([0, 1, 1, 2, 3, 5, 7, 16, 64, 4096]) for _ in range(n)]
    if style == "spurious":
        out = []
        for _ in range(n):
            out += [0, rng.choice([1, 2, 64, 4096])]
        return out
    raise ValueError(style)


class RecordingDelegate:
    """HTTPServerConnectionDelegate proxy recording the HTTPMessageDelegate boundary."""

    def __init__(self, inner, log):
        self.inner = inner
        self.log = log
        self.next_id = 0

    def start_request(self, server_conn, request_conn):
        rid = self.next_id
        self.next_id += 1
        d = self.inner.start_request(server_conn, request_conn)
        return _RecMsg(d, rid, self.log)

    def on_close(self, server_conn):
        self.log.append(("conn_close",))
        self.inner.on_close(server_conn)


class _RecMsg:
    def __init__(self, inner, rid, log):
        self.inner, self.rid, self.log = inner, rid, log

    def headers_received(self, start_line, headers):
        self.log.append(("headers", self.rid, tuple(start_line),
                         [(k, v) for k, v in headers.get_all()]))
        return self.inner.headers_received(start_line, headers)

    def data_received(self, chunk):
        self.log.append(("data", self.rid, bytes(chunk)))
        return self.inner.data_received(chunk)

    def finish(self):
        self.log.append(("finish", self.rid))
        return self.inner.finish()

    def on_connection_close(self):
        self.log.append(("close", self.rid))
        return self.inner.on_connection_close()


class ServerRig:
    """Real HTTPServer driven through handle_stream() over a socketpair."""

    def __init__(self, app_or_delegate, read_plan=None, write_plan=None,
                 record=True, stream_kw=None, **server_kw):
        from tornado.httpserver import HTTPServer
        from tornado import httputil
        self.log = []
        self.server = HTTPServer(app_or_delegate, **server_kw)
        if record:
            # HTTPServer is its own HTTPServerConnectionDelegate; wrap the one the
            # connection sees by wrapping start_request/on_close on the instance.
            rec = RecordingDelegate(_Bound(self.server), self.log)
            self.server.start_request = rec.start_request
            self.server.on_close = rec.on_close
        self.read_plan = read_plan
        self.write_plan = write_plan
        self.stream_kw = stream_kw or {}
        self.streams = []

    def connect(self, address=("127.0.0.1", 9999), read_plan=None, write_plan=None):
        a, b = socketpair()
        st = ScriptedIOStream(a, read_plan=read_plan if read_plan is not None else self.read_plan,
                              write_plan=write_plan if write_plan is not None else self.write_plan,
                              **self.stream_kw)
        self.streams.append(st)
        self.server.handle_stream(st, address)
        return Peer(b)

    async def close(self):
        try:
            await self.server.close_all_connections()
        except Exception:
            pass
        for st in self.streams:
            if not st.closed():
                st.close()


class _Bound:
    """Gives RecordingDelegate the *original* bound methods of the server."""

    def __init__(self, server):
        cls = type(server)
        self.start_request = cls.start_request.__get__(server)
        self.on_close = cls.on_close.__get__(server)
