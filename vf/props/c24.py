"""C24 — XSRF protection accepts exactly the tokens issued for the cookie.

Real Application(xsrf_cookies=True) behind HTTPServer.handle_stream (ServerRig);
two applications (xsrf_cookie_version 1 and 2) live in the same virtual loop.
Whether the handler body ran is observed by a flag set in the handler method,
keyed by a request id header; acceptance is judged by an independent decoder of
the two token formats.
"""
from __future__ import annotations

import random
import re
import urllib.parse

from vf import core
from vf.refs import webrig

core.use_repo()
import tornado.web  # noqa: E402

PROP = "C24"
META = {
    "level": "exploration",
    "technique": "reference token decoder vs. handler-ran flag over harvested, re-masked, cross-session, single-byte-mutated and arbitrary cookie/token pairs through the real server",
    "level_text": "Cookie/token pairs (tokens issued by the running application for both cookie versions, reference re-maskings, other sessions' tokens, every kind of single-byte mutation of token and cookie, arbitrary strings, empty secrets, and tokens / cookies whose version or timestamp field has 20 to 20000 decimal digits, i.e. around and beyond the interpreter's 4300-digit int conversion limit) are submitted as form field, query argument, X-XSRFToken or X-CSRFToken with POST/PUT/DELETE/PATCH and with methods the handler adds to SUPPORTED_METHODS (WebDAV-style, extension and GET/HEAD/OPTIONS look-alike names) through HTTPServer, and requests that carry several channels at once (an empty or white-space-only _xsrf form/query field and/or an empty X-XSRFToken header in front of a header token: the first non-blank channel decides; all blank: 403); the handler-ran flag and the status are compared with an independent decoder of the hex and 2|mask|masked|ts formats.",
    "level_note": "Trusts the 25-line reference decoder. Not judged (executed, safety only): tokens or cookies that are neither well-formed hex nor '2|'-prefixed (legacy raw-token fallback), mask lengths other than 4 bytes, non-decimal timestamps, characters outside VCHAR, a non-blank token that is not the cookie's in a channel in front of the cookie's token (argument, X-XSRFToken, X-CSRFToken order) or a query and a form field that are not both blank, non-UTF-8 form fields (400 or 403 accepted).",
    "design_ref": "DESIGN.md §4 C24",
    "engine": "wire",
}
RULE = ("a case is one (cookie, token, channel, method, cookie-version-of-app) submission; tokens come from real GET "
        "responses (fresh mask each), the reference encoder, other sessions, single-byte edits and arbitrary strings; "
        "non-trivial when the reference decoder gives a definite verdict (accept/reject) and a token is present; "
        "distinct by the submitted tuple")
FLOORS = {"quick": 6000, "thorough": 150000}
ASSUMPTIONS = ["reference decoder of the two XSRF token formats is correct",
               "with several token channels in one request the first non-blank one (argument, X-XSRFToken, X-CSRFToken) is judged; a field of white space / C0 controls only is blank", "cookie values contain no ';', quotes or whitespace"]
REQUIRED_COUNTERS = ["oracle_evals", "expect_accept", "expect_reject", "issued_token_evals", "ran_flag_set",
                     "safety_evals", "unspecified_pairs", "extension_method/expect_accept",
                     "extension_method/expect_reject", "extension_method/issued_token_evals", "over_4300_digit_field_evals",
                     "over_4300_digit_field/form", "over_4300_digit_field/query", "over_4300_digit_field/x-xsrftoken",
                     "over_4300_digit_field/x-csrftoken", "over_4300_digit_field/cookie",
                     "multi_channel/expect_accept", "multi_channel/expect_reject", "multi_channel/blank_then_valid"]

METHODS = ["POST", "PUT", "DELETE", "PATCH"]
# "a non-GET/HEAD/OPTIONS request": whatever else a handler declares in SUPPORTED_METHODS is covered as well --
# WebDAV / cache / extension verbs, a made-up one, names that merely resemble the three exempt or the four usual
# ones, and one with a hyphen.
EXT_METHODS = ["PURGE", "PROPFIND", "PROPPATCH", "MKCOL", "COPY", "MOVE", "LOCK", "UNLOCK", "REPORT", "SEARCH", "QUERY",
               "LINK", "FROBNICATE", "GETS", "XGET", "HEADS", "OPTION", "OPTIONSX", "POSTS", "DELETED", "M-SEARCH"]


def pick_method(rng):
    return rng.choice(METHODS) if rng.random() < 0.6 else rng.choice(EXT_METHODS)
CHANNELS = ["form", "query", "X-XSRFToken", "X-CSRFToken", "x-xsrftoken"]
EDIT_ALPHA = "09afAF|2g-+_ :%"
HEX = re.compile(r"(?:[0-9a-fA-F]{2})*\Z")


def shards(tier, seed):
    if tier == "quick":
        return [{"n_sessions": 14, "n_pairs": 500, "edits": 40, "n_multi": 70} for _ in range(16)]
    return [{"n_sessions": 90, "n_pairs": 6000, "edits": 120, "n_multi": 900} for _ in range(32)]


# ------------------------------------------------------------------ reference

def ref_decode(s):
    """('none',) | ('bad',) | ('unspec',) | ('ok', secret_bytes)"""
    if s is None or s == "":
        return ("none",)
    if any(ord(c) < 0x21 or ord(c) > 0x7E for c in s):
        return ("unspec",)
    m = re.match(r"([1-9][0-9]*)\|", s)
    if m:
        if m.group(1) != "2":
            return ("bad",)
        p = s.split("|")
        if len(p) != 4:
            return ("bad",)
        _, mask, masked, ts = p
        if not HEX.match(mask) or not HEX.match(masked):
            return ("bad",)
        if len(mask) != 8:
            return ("unspec",)
        if not re.fullmatch(r"[0-9]{1,18}", ts):
            return ("unspec",)
        mk = bytes.fromhex(mask)
        d = bytes.fromhex(masked)
        return ("ok", bytes(b ^ mk[i % 4] for i, b in enumerate(d)))
    if HEX.match(s):
        return ("ok", bytes.fromhex(s))
    return ("unspec",)


def ref_encode_v2(secret: bytes, mask: bytes, ts: int) -> str:
    return "2|%s|%s|%d" % (mask.hex(), bytes(b ^ mask[i % 4] for i, b in enumerate(secret)).hex(), ts)


def expect(cookie, token):
    c, t = ref_decode(cookie), ref_decode(token)
    if t[0] in ("none", "bad"):
        return "reject"
    if c[0] in ("none", "bad"):
        return "reject"
    if "unspec" in (c[0], t[0]):
        return "unspec"
    return "accept" if (c[1] == t[1] and len(c[1]) > 0) else "reject"


# ------------------------------------------------------------------ application

RAN = set()


def make_app(version):
    class H(tornado.web.RequestHandler):
        def get(self):
            self.write(self.xsrf_token)

        def post(self):
            RAN.add(self.request.headers.get("X-Rid"))
            self.write("ran")

        put = delete = patch = post
        SUPPORTED_METHODS = tornado.web.RequestHandler.SUPPORTED_METHODS + tuple(EXT_METHODS)

    for m in EXT_METHODS:
        setattr(H, m.lower(), H.post)
    return tornado.web.Application([("/x", H)], xsrf_cookies=True, xsrf_cookie_version=version,
                                   log_function=lambda h: None)


def make_session(lm):
    s = webrig.Session(make_app(2), lm)
    s.by_ver = {2: s, 1: webrig.Session(make_app(1), lm)}
    s.alt = s.by_ver[1]
    return s


# ------------------------------------------------------------------ generation

def gen_cases(spec):
    rng = core.rng_for(spec["seed"], PROP, spec["shard"])
    for _ in range(spec["n_sessions"]):
        yield {"k": "session", "appver": rng.choice([1, 2]), "eseed": rng.getrandbits(32), "edits": spec["edits"]}
    for _ in range(spec["n_pairs"]):
        yield _rand_pair(rng)
    for _ in range(spec.get("n_multi", 0)):
        yield _rand_multi(rng)


def _rand_secret(rng):
    return rng.randbytes(rng.choice([16, 16, 16, 1, 4, 5, 32, 0]))


def _tok(rng, secret):
    k = rng.random()
    if k < 0.35:
        h = secret.hex()
        return h.upper() if rng.random() < 0.2 else h
    return ref_encode_v2(secret, rng.randbytes(4) if rng.random() < 0.8 else rng.choice([b"\0\0\0\0", b"\xff\xff\xff\xff"]),
                         rng.choice([0, 1, 7, 1700000000, 99999999999, 12345]))


_ODD = ["", "2|", "2||", "2|||", "2||||", "2|00000000||0", "2|00000000|00|0", "3|00000000|00|0", "1|abcd", "02|00000000|00|0",
        "2|0000000|00|0", "2|000000|00|0", "2|0000000000|0011|0", "2|zz000000|00|0", "2|00000000|0g|0", "2|00000000|00|x",
        "2|00000000|00|", "2|00000000|00|+5", "2|00000000|00|1_0", "2|00000000|00| 5", "2|00000000|00|5|6", "abc", "zz", "0",
        "00", "0g", "ABCDEF", "abcdef0", "|", "||", "1000|00", "999|00", "2|" + "00" * 4 + "|" + "ab" * 3000 + "|1",
        "ab" * 5000, "é", "2|00000000|é|0", "00 ", "a" * 17]


# Version / timestamp fields written with more decimal digits than int() converts (sys.get_int_max_str_digits(),
# 4300 by default): syntactically '<digits>|...' like any other unknown version.
HUGE_LENS = [50, 640, 641, 4299, 4300, 4301, 4302, 5000, 9000, 20000]
MAX_PAIR_CHARS = 48000      # cookie + token stay well inside the server's 64 KiB request-head limit


def _digits(rng, first="123456789", cap=20000):
    L = min(cap, rng.choice(HUGE_LENS) if rng.random() < 0.85 else rng.randint(20, 12000))
    k = rng.random()
    if k < 0.3:
        return rng.choice(first) + "0" * (L - 1)          # 2000...0, 1000...0
    if k < 0.5:
        return "9" * L
    if k < 0.65:
        return "2" * L
    return rng.choice(first) + "".join(rng.choice("0123456789") for _ in range(L - 1))


def _huge_form(rng, secret):
    """A token / cookie string with a very long decimal field."""
    D = _digits(rng)
    good = ref_encode_v2(secret, rng.randbytes(4), rng.choice([0, 7, 1700000000]))
    k = rng.random()
    if k < 0.5:
        # version field; the rest is anything from nothing to a well-formed v2 tail for the right secret
        tail = rng.choice(["", "0", "00", "|", "||", "00000000|00|0", good[2:], good[2:], secret.hex(), "abc|def"])
        return D + "|" + tail
    if k < 0.6:
        return _digits(rng, cap=5000) + "|" + _digits(rng, cap=5000) + "|" + tail_hex(rng) + "|" + _digits(rng, cap=5000)
    if k < 0.85:
        # version 2 with a timestamp of that many digits
        return good.rsplit("|", 1)[0] + "|" + rng.choice(["", "0", "00"]) + D
    # leading zeros before the version (not a version prefix at all)
    return "0" * rng.choice([1, 4300, 5000]) + rng.choice(["2", D]) + "|" + good[2:]


def tail_hex(rng):
    return rng.randbytes(rng.choice([0, 1, 4, 16])).hex()


def _rand_pair(rng):
    k = rng.random()
    secret = _rand_secret(rng)
    if 0.75 <= k < 0.79:
        base = _tok(rng, secret)
        which = rng.random()
        if which < 0.5:
            cookie, token = base, _huge_form(rng, secret)
        elif which < 0.85:
            cookie, token = _huge_form(rng, secret), base
        else:
            cookie = _huge_form(rng, secret)
            token = cookie if rng.random() < 0.5 else _huge_form(rng, secret)
            for _ in range(50):
                if len(cookie) + len(token) <= MAX_PAIR_CHARS:
                    break
                cookie = _huge_form(rng, secret)
                token = cookie if rng.random() < 0.5 else _huge_form(rng, secret)
            else:
                token = "9" * 4301 + "|"
        return {"k": "pair", "appver": rng.choice([1, 2]), "cookie": cookie, "token": token,
                "chan": rng.choice(CHANNELS), "method": pick_method(rng)}
    if k < 0.25:
        cookie, token = _tok(rng, secret), _tok(rng, secret)
    elif k < 0.33:
        cookie, token = _tok(rng, secret), _tok(rng, _rand_secret(rng))
    elif k < 0.4:
        # related but different secrets: prefix, extension, suffix, one bit flipped
        n = len(secret)
        rel = rng.choice([secret[:rng.randrange(n + 1)], secret + rng.randbytes(rng.choice([1, 4])), secret[1:],
                          bytes([secret[0] ^ 1]) + secret[1:] if n else b"\x00", secret[:-1] + b"\x00" if n else b"\x00"])
        cookie, token = (_tok(rng, secret), _tok(rng, rel)) if rng.random() < 0.5 else (_tok(rng, rel), _tok(rng, secret))
    elif k < 0.5:
        # same masked bytes, different mask  (comparing masked forms would be wrong both ways)
        m1, m2 = rng.randbytes(4), rng.randbytes(4)
        cookie = ref_encode_v2(secret, m1, 5)
        token = rng.choice([
            "2|%s|%s|5" % (m2.hex(), cookie.split("|")[2]),                      # different secret, same masked text
            ref_encode_v2(secret, m2, 6)])                                       # same secret, different masked text
    elif k < 0.75:
        cookie, token = _tok(rng, secret), _tok(rng, secret)
        which = rng.random()
        if which < 0.6:
            token = _edit(rng, token)
        elif which < 0.9:
            cookie = _edit(rng, cookie)
        else:
            cookie, token = _edit(rng, cookie), _edit(rng, token)
    elif k < 0.9:
        cookie = rng.choice([_tok(rng, secret), rng.choice(_ODD), None])
        token = rng.choice(_ODD) if rng.random() < 0.8 else (cookie or "")
    else:
        cookie = "".join(rng.choice("0123456789abcdef|2:gé ;\"") for _ in range(rng.randint(0, 24)))
        token = cookie if rng.random() < 0.5 else "".join(rng.choice("0123456789abcdef|2") for _ in range(rng.randint(0, 24)))
    return {"k": "pair", "appver": rng.choice([1, 2]), "cookie": cookie, "token": token,
            "chan": rng.choice(CHANNELS), "method": pick_method(rng)}


# ---- several token channels in one request -------------------------------------------------------------------
# A request may carry an `_xsrf` form/query field and either header at the same time.  A field or header that is
# empty / consists of white space only is not a token; the statement then speaks about the token in the next channel
# (argument, then X-XSRFToken, then X-CSRFToken).  Parts are [channel, raw] in that order: for "form"/"query" raw is
# the urlencoded field text, for headers the header value as sent.
BLANK_ARGS = ["", "", "+", "%20", "++", "%20%20%20", "%09", "+%09+", "%0A", "%0D%0A", "%0B", "%0C", "%C2%A0", "%E3%80%80",
              "%E2%80%83", "%C2%85", "%00", "%01+", "%1F", "+%00%08%0E+"]
BLANK_HEADERS = ["", "", " ", "\t", "  \t "]
_BLANK_CHARS = set(" \t\n\r\x0b\x0c\xa0\u3000\u2003\x85" + "".join(map(chr, list(range(0, 9)) + list(range(14, 32)))))
ARG_CHANNELS = ("form", "query")
PRIORITY = {"form": 0, "query": 0, "x-xsrftoken": 1, "x-csrftoken": 2}


def part_token(chan, raw):
    """The token a part carries ('' = the part is blank)."""
    if chan in ARG_CHANNELS:
        d = urllib.parse.unquote_plus(raw, encoding="utf-8", errors="strict")
        return "" if all(c in _BLANK_CHARS for c in d) else d
    return raw.strip(" \t")


def expect_multi(cookie, parts):
    """(verdict, shape) for a request carrying `parts` (priority order)."""
    toks = [(chan, part_token(chan, raw)) for chan, raw in parts]
    vs = [(chan, expect(cookie, t)) for chan, t in toks if t != ""]
    lead_blank = [chan for chan, t in toks if t == ""][:1] if toks and toks[0][1] == "" else []
    if not vs:
        return "reject", "all-channels-blank"
    first_chan, first = vs[0]
    if lead_blank:
        shape = ("blank-argument-then-" if lead_blank[0] in ARG_CHANNELS else "blank-header-then-") + \
                ("argument" if first_chan in ARG_CHANNELS else "header")
    else:
        shape = "first-token-then-more"
    if first == "accept":
        return "accept", shape
    if all(v == "reject" for _, v in vs):
        return "reject", shape
    # a non-blank token that is not the cookie's, in front of one that is (shadowing), or anything undecided
    return "unspec", shape


def _rand_multi(rng):
    secret = rng.randbytes(16) if rng.random() < 0.9 else _rand_secret(rng)
    cookie = _tok(rng, secret)

    def valid():
        return _tok(rng, secret)

    def foreign():
        return _tok(rng, rng.randbytes(len(secret) or 16))

    def junk():
        return rng.choice(["zz", "abc", "2|", "2|00000000|00|x", "3|00000000|00|0", "0g", "1|abcd", "2|zz000000|00|0"])

    def arg(tok_or_none):
        chan = rng.choice(ARG_CHANNELS)
        if tok_or_none is None:
            return [chan, rng.choice(BLANK_ARGS)]
        return [chan, urllib.parse.quote(tok_or_none, safe="")]

    def hdr(name, tok_or_none):
        name = {"x": rng.choice(["X-XSRFToken", "x-xsrftoken", "X-Xsrftoken"]), "c": rng.choice(["X-CSRFToken", "X-Csrftoken"])}[name]
        return [name, rng.choice(BLANK_HEADERS) if tok_or_none is None else tok_or_none]

    k = rng.random()
    if k < 0.22:
        parts = [arg(None), hdr(rng.choice("xc"), valid())]
    elif k < 0.32:
        parts = [arg(None), hdr("x", None), hdr("c", valid())]
    elif k < 0.44:
        parts = [hdr("x", None), hdr("c", valid())]
    elif k < 0.5:
        parts = [arg(None), arg(None), hdr(rng.choice("xc"), valid())]
        parts[0][0], parts[1][0] = "query", "form"
    elif k < 0.6:
        parts = [arg(None), hdr(rng.choice("xc"), rng.choice([foreign, junk])())]
    elif k < 0.66:
        parts = [hdr("x", None), hdr("c", rng.choice([foreign, junk])())]
    elif k < 0.72:
        parts = rng.choice([[arg(None)], [arg(None), hdr("x", None)], [hdr("x", None), hdr("c", None)],
                            [arg(None), hdr("x", None), hdr("c", None)], [hdr("x", None)], [hdr("c", None)]])
    elif k < 0.86:
        # the first channel holds the cookie's token; later channels hold anything
        later = [rng.choice([valid, foreign, junk, lambda: None])() for _ in range(2)]
        parts = rng.choice([[arg(valid()), hdr("x", later[0])], [arg(valid()), hdr("c", later[0])],
                            [arg(valid()), hdr("x", later[0]), hdr("c", later[1])], [hdr("x", valid()), hdr("c", later[0])]])
    elif k < 0.93:
        # a non-blank foreign / malformed token in front of the cookie's token: not judged
        parts = rng.choice([[arg(rng.choice([foreign, junk])()), hdr(rng.choice("xc"), valid())],
                            [hdr("x", rng.choice([foreign, junk])()), hdr("c", valid())]])
    else:
        # white space around a token, blank first
        parts = [arg(None), hdr(rng.choice("xc"), rng.choice([" ", "\t", ""]) + valid() + rng.choice([" ", "", " \t"]))]
    return {"k": "multi", "appver": rng.choice([1, 2]), "cookie": cookie, "parts": parts, "method": pick_method(rng)}


def _edit(rng, s):
    if not s:
        return rng.choice(EDIT_ALPHA)
    i = rng.randrange(len(s) + 1)
    op = rng.choice(["sub", "sub", "ins", "del"])
    c = rng.choice(EDIT_ALPHA)
    if op == "ins" or i == len(s):
        return s[:i] + c + s[i:]
    if op == "del":
        return s[:i] + s[i + 1:]
    return s[:i] + c + s[i + 1:]


def directed_cases():
    yield {"k": "pair", "appver": 2, "cookie": "2|00000000||5", "token": "2|11111111||7", "chan": "form", "method": "POST"}
    yield {"k": "pair", "appver": 1, "cookie": None, "token": "00", "chan": "X-XSRFToken", "method": "DELETE"}
    yield {"k": "pair", "appver": 2, "cookie": "2|zz|00|1", "token": "2|zz|00|1", "chan": "query", "method": "PUT"}
    yield {"k": "pair", "appver": 2, "cookie": "abcd", "token": "2|01020304|aaccd0d4|1", "chan": "X-CSRFToken", "method": "PATCH"}
    yield {"k": "pair", "appver": 1, "cookie": "abcd", "token": "2|01020304|aaccd0d4|1", "chan": "form", "method": "POST"}
    for i, m in enumerate(EXT_METHODS):      # every extension method: no token, a foreign token, a matching token
        yield {"k": "pair", "appver": 1 + i % 2, "cookie": "ab" * 16, "token": "", "chan": "form", "method": m}
        yield {"k": "pair", "appver": 2 - i % 2, "cookie": "ab" * 16, "token": "cd" * 16, "chan": CHANNELS[i % len(CHANNELS)], "method": m}
        yield {"k": "pair", "appver": 1 + i % 2, "cookie": "ab" * 16, "token": ref_encode_v2(b"\xab" * 16, b"\x01\x02\x03\x04", 7),
               "chan": CHANNELS[(i + 1) % len(CHANNELS)], "method": m}
    # '<digits>|...' with more digits than int() converts: an unknown version like any other -> 403, through every channel
    good = ref_encode_v2(b"\xab" * 16, b"\x01\x02\x03\x04", 7)
    for i, chan in enumerate(CHANNELS):
        yield {"k": "pair", "appver": 1 + i % 2, "cookie": "ab" * 16, "token": "9" * 5000 + "|" + good[2:], "chan": chan, "method": "POST"}
        yield {"k": "pair", "appver": 2 - i % 2, "cookie": "2" + "0" * 4300 + "|00", "token": good, "chan": chan, "method": "PUT"}
        yield {"k": "pair", "appver": 1 + i % 2, "cookie": "ab" * 16, "token": good + "9" * 4300, "chan": chan, "method": "POST"}
    yield {"k": "pair", "appver": 2, "cookie": "1" * 4301 + "|", "token": "1" * 4301 + "|", "chan": "form", "method": "DELETE"}
    # several channels at once: blank field / empty header in front of the cookie's token (accepted), in front of a
    # foreign token or nothing (403)
    for i, blank in enumerate(BLANK_ARGS[1:]):
        yield {"k": "multi", "appver": 1 + i % 2, "cookie": "ab" * 16, "method": METHODS[i % 4],
               "parts": [[ARG_CHANNELS[i % 2], blank], [["X-XSRFToken", "X-CSRFToken"][(i // 2) % 2], good if i % 3 else "ab" * 16]]}
    for i, blank in enumerate(BLANK_HEADERS[1:]):
        yield {"k": "multi", "appver": 1 + i % 2, "cookie": "ab" * 16, "method": "POST",
               "parts": [["X-XSRFToken", blank], ["X-CSRFToken", good]]}
        yield {"k": "multi", "appver": 2 - i % 2, "cookie": "ab" * 16, "method": "PUT",
               "parts": [["form", ""], ["X-XSRFToken", blank], ["X-CSRFToken", good]]}
        yield {"k": "multi", "appver": 2 - i % 2, "cookie": "ab" * 16, "method": "DELETE",
               "parts": [["query", "+"], ["X-XSRFToken", blank], ["X-CSRFToken", "cd" * 16]]}
    yield {"k": "multi", "appver": 2, "cookie": "ab" * 16, "method": "POST", "parts": [["query", ""], ["form", "+"], ["X-CSRFToken", good]]}
    yield {"k": "multi", "appver": 1, "cookie": "ab" * 16, "method": "POST", "parts": [["form", "%20"], ["X-XSRFToken", ""]]}
    yield {"k": "multi", "appver": 1, "cookie": "ab" * 16, "method": "PATCH", "parts": [["form", good.replace("|", "%7C")], ["X-XSRFToken", "cd" * 16]]}
    yield {"k": "session", "appver": 1, "eseed": 1, "edits": 20}
    yield {"k": "session", "appver": 2, "eseed": 2, "edits": 20}


# ------------------------------------------------------------------ execution

_rid = [0]


def cookie_sendable(c):
    return c is None or (all(0x21 <= ord(ch) <= 0x7E and ch not in ';",\\' for ch in c))


def header_sendable(t):
    return t != "" and all((0x21 <= ord(ch) <= 0x7E) for ch in t)


async def submit(ctx, sess, appver, cookie, token, chan, method, origin="generated"):
    """Send one state-changing request; judge it against the reference. Returns (status, ran)."""
    s = sess.by_ver[appver]
    if cookie is not None and not cookie_sendable(cookie):
        ctx.count("unspecified_cookie_not_plain")
        # still executed (safety half) with the cookie as a quoted-free latin-1 best effort
        if any(ord(ch) > 0xFF or ord(ch) < 0x20 or ord(ch) == 0x7F for ch in cookie):
            return None
        verdict_override = "unspec"
    else:
        verdict_override = None
    if chan not in ("form", "query") and not header_sendable(token):
        chan = "form"
    _rid[0] += 1
    rid = "r%d" % _rid[0]
    headers = [("X-Rid", rid)]
    if cookie is not None:
        headers.append(("Cookie", "_xsrf=" + cookie))
    target, body = "/x", None
    enc = urllib.parse.quote(token.encode("utf-8"), safe="")
    if chan == "form":
        body = b"_xsrf=" + enc.encode()
        headers.append(("Content-Type", "application/x-www-form-urlencoded"))
    elif chan == "query":
        target = "/x?_xsrf=" + enc
        body = b""
    else:
        headers.append((chan, token))
        body = b""
    raw = webrig.build_request(method, target, headers, body)
    if len(raw) - len(body or b"") > 60000:
        # the request head would exceed the HTTP layer's max_header_size: refused before any handler exists
        ctx.count("skipped_request_head_over_http_limit")
        return None
    try:
        r = await s.request(raw, method)
    except webrig.WireError as e:
        ctx.violation(f"wire/{e.kind}", "response is not a well-framed HTTP message", {"why": e.why, "raw": e.raw})
        return None
    ran = rid in RAN
    RAN.discard(rid)
    if ran:
        ctx.count("ran_flag_set")
    for what, val in (("token", token), ("cookie", cookie)):
        run = max((len(x) for x in re.findall(r"[0-9]+", val or "")), default=0) if val and "|" in val else 0
        if run > 4300:
            ctx.count("over_4300_digit_field_evals")
            ctx.count("over_4300_digit_field/" + (chan.lower() if what == "token" else "cookie"))
    wit = {"cookie": _short(cookie), "token": _short(token), "channel": chan, "method": method, "xsrf_cookie_version": appver,
           "status": r.status if r else None, "handler_ran": ran, "origin": origin,
           "ref_cookie": _show(ref_decode(cookie)), "ref_token": _show(ref_decode(token))}
    webrig.safety(ctx, s, r, "XSRF-checked request")
    ctx.count("oracle_evals")
    if r is None:
        ctx.violation("no-response", "connection closed without a response", wit)
        return None
    if r.status >= 500:
        ctx.violation(f"status-{r.status}/" + origin, "server error for a cookie/token pair (must be 403)", wit)
        return r.status, ran
    exp = verdict_override or expect(cookie, token)
    ext = method not in METHODS
    if origin.startswith("issued"):
        ctx.count("issued_token_evals")
        if ext:
            ctx.count("extension_method/issued_token_evals")
    if ext and exp in ("accept", "reject"):
        ctx.count("extension_method/expect_" + exp)
    if exp == "accept":
        ctx.count("expect_accept")
        if not (ran and r.status == 200):
            ctx.violation(f"rejected-matching-token/{origin}/status-{r.status}",
                          "token decodes to the cookie's non-empty secret but the handler was not reached", wit)
    elif exp == "reject":
        ctx.count("expect_reject")
        if ran:
            why = _why_reject(cookie, token)
            if ext:
                # control experiment for the classifier only: is the same pair refused with POST?  Then the check
                # depends on the method (one root cause, whatever is wrong with the pair); else it is the pair.
                _rid[0] += 1
                crid = "r%d" % _rid[0]
                craw = webrig.build_request("POST", target, [(k, crid if k == "X-Rid" else v) for k, v in headers], body)
                try:
                    await s.request(craw, "POST")
                except webrig.WireError:
                    pass
                s.take_uncaught()
                if crid not in RAN:
                    why = "not-checked-for-handler-declared-method"
                RAN.discard(crid)
            ctx.violation(f"handler-reached/{why}", "handler ran although the token does not decode to the cookie's non-empty secret", wit)
        elif r.status != 403:
            ctx.violation(f"reject-status-{r.status}", "rejected XSRF submission answered with a status other than 403", wit)
    else:
        ctx.count("unspecified_pairs")
        ctx.count("unspecified_accepted" if ran else "unspecified_rejected")
        if r.status not in (200, 403) or (r.status == 200) != ran:
            ctx.violation(f"unspecified-pair/status-{r.status}-ran-{ran}", "status and handler execution inconsistent", wit)
    nontriv = exp != "unspec" and bool(token)
    if ctx.mark((appver, cookie, token, chan, method), nontriv) and nontriv and exp == "reject" and ref_decode(token)[0] == "ok":
        ctx.sample(wit)
    return r.status, ran


async def submit_multi(ctx, sess, appver, cookie, parts, method, origin="generated"):
    """One state-changing request carrying several token channels at once; judged by expect_multi()."""
    s = sess.by_ver[appver]
    if not cookie_sendable(cookie):
        ctx.count("unspecified_cookie_not_plain")
        return None
    parts = sorted(([c, r] for c, r in parts), key=lambda p: PRIORITY[p[0].lower()])
    _rid[0] += 1
    rid = "r%d" % _rid[0]
    headers = [("X-Rid", rid)]
    if cookie is not None:
        headers.append(("Cookie", "_xsrf=" + cookie))
    target, body = "/x", b""
    seen_chan = set()
    for chan, raw in parts:
        if chan.lower() in seen_chan or (chan not in ARG_CHANNELS and raw.strip(" \t") and not header_sendable(raw.strip(" \t"))):
            ctx.count("skipped_multi_not_sendable")
            return None
        seen_chan.add(chan.lower())
        if chan == "form":
            body = b"_xsrf=" + raw.encode("ascii")
            headers.append(("Content-Type", "application/x-www-form-urlencoded"))
        elif chan == "query":
            target = "/x?_xsrf=" + raw
        else:
            headers.append((chan, raw))
    try:
        r = await s.request(webrig.build_request(method, target, headers, body), method)
    except webrig.WireError as e:
        ctx.violation(f"wire/{e.kind}", "response is not a well-framed HTTP message", {"why": e.why, "raw": e.raw})
        return None
    ran = rid in RAN
    RAN.discard(rid)
    if ran:
        ctx.count("ran_flag_set")
    exp, shape = expect_multi(cookie, parts)
    args = [p for p in parts if p[0] in ARG_CHANNELS]
    if len(args) == 2 and any(part_token(c, x) != "" for c, x in args):
        exp = "unspec"          # query and form field both present and not both blank: which one counts is not pinned
    wit = {"cookie": _short(cookie), "parts": [[c, _short(x)] for c, x in parts], "method": method, "xsrf_cookie_version": appver,
           "status": r.status if r else None, "handler_ran": ran, "origin": origin, "shape": shape,
           "ref_cookie": _show(ref_decode(cookie)),
           "ref_tokens": [[c, _show(ref_decode(part_token(c, x)))] for c, x in parts]}
    webrig.safety(ctx, s, r, "XSRF-checked request with several token channels")
    ctx.count("oracle_evals")
    if r is None:
        ctx.violation("no-response", "connection closed without a response", wit)
        return None
    if r.status >= 500:
        ctx.violation(f"status-{r.status}/" + origin, "server error for a cookie/token combination (must be 403)", wit)
        return r.status, ran
    if origin.startswith("issued"):
        ctx.count("issued_token_evals")
    if exp == "accept":
        ctx.count("expect_accept")
        ctx.count("multi_channel/expect_accept")
        if shape.startswith("blank-"):
            ctx.count("multi_channel/blank_then_valid")
            ctx.seen("multi_blank_then_valid_shapes", (shape, parts[0][0].lower(), [c.lower() for c, x in parts
                                                                                    if part_token(c, x) != ""][0]))
        if not (ran and r.status == 200):
            ctx.violation(f"rejected-matching-token/multi-channel/{shape}/{origin}/status-{r.status}",
                          "the request carries a token that decodes to the cookie's non-empty secret (the channels in front "
                          "of it are blank, or it is in the first channel) but the handler was not reached", wit)
    elif exp == "reject":
        ctx.count("expect_reject")
        ctx.count("multi_channel/expect_reject")
        if ran:
            nonblank = [part_token(c, x) for c, x in parts if part_token(c, x) != ""]
            # same classifier as for one channel: what is wrong with the token that was (or should have been) judged
            why = _why_reject(cookie, nonblank[0]) if nonblank else "multi-channel/all-channels-blank"
            if method not in METHODS:
                # control experiment for the classifier only (see submit): is the same request refused with POST?
                _rid[0] += 1
                crid = "r%d" % _rid[0]
                craw = webrig.build_request("POST", target, [(k, crid if k == "X-Rid" else v) for k, v in headers], body)
                try:
                    await s.request(craw, "POST")
                except webrig.WireError:
                    pass
                s.take_uncaught()
                if crid not in RAN:
                    why = "not-checked-for-handler-declared-method"
                RAN.discard(crid)
            ctx.violation(f"handler-reached/{why}",
                          "handler ran although no channel of the request carries a token for the cookie's secret", wit)
        elif r.status != 403:
            ctx.violation(f"reject-status-{r.status}/multi-channel", "rejected XSRF submission answered with a status other than 403", wit)
    else:
        ctx.count("unspecified_pairs")
        ctx.count("unspecified_multi_channel")
        ctx.count("unspecified_accepted" if ran else "unspecified_rejected")
        if r.status not in (200, 403) or (r.status == 200) != ran:
            ctx.violation(f"unspecified-pair/status-{r.status}-ran-{ran}", "status and handler execution inconsistent", wit)
    ctx.mark((appver, cookie, tuple(map(tuple, parts)), method), exp != "unspec" and len(parts) > 1)
    return r.status, ran


def _short(v):
    """Witness form of a very long value (the case keeps the full one for replay)."""
    if v is None or len(v) <= 160:
        return v
    runs = [len(x) for x in re.findall(r"[0-9]+", v)]
    return "%s...<%d characters, longest digit run %d>...%s" % (v[:24], len(v), max(runs, default=0), v[-48:])


def _show(d):
    return [d[0], d[1].hex()] if d[0] == "ok" else [d[0]]


def _why_reject(cookie, token):
    c, t = ref_decode(cookie), ref_decode(token)
    if t[0] != "ok":
        return "token-" + t[0]
    if c[0] != "ok":
        return "cookie-" + c[0]
    if c[1] == t[1]:
        return "empty-secret"
    return "different-secret"


async def harvest(ctx, sess, appver, cookie=None):
    """GET /x -> (cookie string from Set-Cookie or the one presented, token from the body)."""
    s = sess.by_ver[appver]
    headers = [("Cookie", "_xsrf=" + cookie)] if cookie is not None else []
    r = await s.request(webrig.build_request("GET", "/x", headers), "GET")
    webrig.safety(ctx, s, r, "token-issuing GET")
    if r is None or r.status != 200:
        ctx.violation("issue/get-failed", "GET that renders xsrf_token did not answer 200", {"status": r and r.status, "cookie": cookie})
        return None, None
    token = r.body.decode("latin-1")
    newc = None
    for v in r.get_all("set-cookie"):
        m = re.match(rb"_xsrf=([^;]*)", v)
        if m:
            newc = m.group(1).decode("latin-1")
            if newc.startswith('"') and newc.endswith('"'):
                newc = newc[1:-1]
    ctx.count("tokens_harvested")
    return (newc if newc is not None else cookie), token


async def run_session_case(case, ctx, sess):
    rng = random.Random(case["eseed"])
    v = case["appver"]
    o = 3 - v

    def cm():
        return rng.choice(CHANNELS), pick_method(rng)

    c0, t0 = await harvest(ctx, sess, v)
    if c0 is None:
        return
    d = ref_decode(c0)
    if d[0] != "ok" or len(d[1]) != 16:
        ctx.violation("issue/cookie-not-decodable", "issued _xsrf cookie is not a well-formed token of a 16-byte secret", {"cookie": c0})
        return
    secret = d[1]
    # 1. the token rendered in the same response, with the cookie that response set
    await submit(ctx, sess, v, c0, t0, *cm(), origin="issued-first")
    # 2. tokens issued later for the same cookie by both applications (fresh mask / other format version)
    issued = []
    for appv in (v, o, v):
        c1, t1 = await harvest(ctx, sess, appv, c0)
        if t1 is None:
            continue
        if c1 != c0:
            ctx.violation("issue/cookie-replaced", "a GET that presented a valid _xsrf cookie set a different one", {"sent": c0, "got": c1})
            continue
        issued.append(t1)
        for appv2 in (v, o):
            await submit(ctx, sess, appv2, c0, t1, *cm(), origin="issued-later")
    ctx.seen("issued_token_forms", tuple(sorted({t.count("|") for t in issued + [t0]})))
    # 3. reference re-maskings
    for _ in range(4):
        await submit(ctx, sess, rng.choice([1, 2]), c0, _tok(rng, secret), *cm(), origin="remasked")
    # 4. another session's tokens
    c9, t9 = await harvest(ctx, sess, rng.choice([1, 2]))
    if c9 is not None:
        await submit(ctx, sess, v, c0, t9, *cm(), origin="other-session")
        await submit(ctx, sess, v, c9, t0, *cm(), origin="other-session")
        await submit(ctx, sess, v, None, t0, *cm(), origin="no-cookie")
        await submit(ctx, sess, v, c0, "", *cm(), origin="no-token")
    # 4b. issued tokens in a header behind a blank `_xsrf` field / an empty X-XSRFToken header
    for tk in [t0] + issued[:2]:
        blank = rng.choice(BLANK_ARGS)
        await submit_multi(ctx, sess, rng.choice([1, 2]), c0, [[rng.choice(ARG_CHANNELS), blank],
                                                               [rng.choice(["X-XSRFToken", "X-CSRFToken"]), tk]],
                           pick_method(rng), origin="issued-multi")
        await submit_multi(ctx, sess, rng.choice([1, 2]), c0, [["X-XSRFToken", rng.choice(BLANK_HEADERS)], ["X-CSRFToken", tk]],
                           pick_method(rng), origin="issued-multi")
    if c9 is not None:
        await submit_multi(ctx, sess, v, c0, [[rng.choice(ARG_CHANNELS), rng.choice(BLANK_ARGS)], ["X-XSRFToken", t9]],
                           pick_method(rng), origin="other-session")
    # 5. single-byte edits of a valid token / cookie (all positions when short enough, else sampled)
    base_tokens = [t0] + issued[:1] + [secret.hex()]
    n = case["edits"]
    for bt in base_tokens:
        allpos = [(i, op) for i in range(len(bt) + 1) for op in ("sub", "ins", "del")]
        rng.shuffle(allpos)
        for i, op in allpos[:n]:
            ch = rng.choice(EDIT_ALPHA)
            if op == "ins" or i == len(bt):
                w = bt[:i] + ch + bt[i:]
            elif op == "del":
                w = bt[:i] + bt[i + 1:]
            else:
                w = bt[:i] + ch + bt[i + 1:]
            if w == bt:
                continue
            ctx.count("single_byte_edit_pairs")
            if rng.random() < 0.7:
                await submit(ctx, sess, rng.choice([1, 2]), c0, w, *cm(), origin="edited-token")
            else:
                await submit(ctx, sess, rng.choice([1, 2]), w, t0, *cm(), origin="edited-cookie")
    # 5b. the issued token / cookie with its version or timestamp field blown up to thousands of digits
    for bt in [x for x in [t0] + issued if x.count("|") == 3][:2] + [secret.hex() + "|"]:
        for _ in range(3):
            D = _digits(rng)
            head, _, rest = bt.partition("|")
            w = rng.choice([D + "|" + rest, head + D[1:] + "|" + rest, bt.rsplit("|", 1)[0] + "|" + D])
            if rng.random() < 0.65:
                await submit(ctx, sess, rng.choice([1, 2]), c0, w, *cm(), origin="edited-token")
            else:
                await submit(ctx, sess, rng.choice([1, 2]), w, t0, *cm(), origin="edited-cookie")
    # 6. non-UTF-8 form field: 400 (argument decoding) or 403, never the handler, never 5xx
    s = sess.by_ver[v]
    _rid[0] += 1
    rid = "r%d" % _rid[0]
    raw = webrig.build_request("POST", "/x", [("X-Rid", rid), ("Cookie", "_xsrf=" + c0),
                                              ("Content-Type", "application/x-www-form-urlencoded")], b"_xsrf=%ff%fe" + t0.encode())
    r = await s.request(raw, "POST")
    webrig.safety(ctx, s, r, "non-UTF-8 _xsrf form field")
    ctx.count("oracle_evals")
    ctx.count("unspecified_non_utf8_form")
    if rid in RAN or r is None or r.status not in (400, 403):
        RAN.discard(rid)
        ctx.violation("non-utf8-form-field/not-400-or-403", "non-UTF-8 _xsrf form field must be refused with 400 or 403",
                      {"status": r and r.status, "ran": rid in RAN})


async def acase(case, ctx, sess):
    if case["k"] == "session":
        await run_session_case(case, ctx, sess)
    elif case["k"] == "multi":
        await submit_multi(ctx, sess, case["appver"], case["cookie"], case["parts"], case["method"])
    else:
        await submit(ctx, sess, case["appver"], case["cookie"], case["token"], case["chan"], case["method"])


def _make(lm):
    s = make_session(lm)
    orig_close = s.close

    async def close_both():
        await s.alt.close()
        await orig_close()
    s.close = close_both
    return s


def run_shard(spec, ctx):
    import itertools
    directed = list(directed_cases()) if spec.get("shard", 0) == 0 else []
    ctx.count("directed_cases", len(directed))
    webrig.run_cases(_make, itertools.chain(directed, gen_cases(spec)), acase, ctx)


def run_case(case, ctx):
    webrig.run_cases(_make, [case], acase, ctx, count_evals=False)
