"""C05 — every started request ends with exactly one finish or close notification.

Fault enumeration: for a set of base request streams the peer disconnects after
EVERY byte offset (orderly close, connection reset, half-close) or the server
is shut down / the body timeout expires at that offset; further fault points
lie in the response phase (handler not yet started, handler awaiting, after the
first flush, after finish with the response still in the write buffer, between
pipelined responses).  The real HTTPServer runs on the virtual loop behind a
recording HTTPMessageDelegate proxy; at quiescence every request id that got
headers_received must have exactly one of finish / on_connection_close, its
chunks must be a prefix of the body that was sent (all of it on finish), and
`close_all_connections()` must have completed.
"""
from __future__ import annotations

import asyncio
import errno
import gzip as gzip_mod
import hashlib
import signal

from vf import core, logmon, vloop, wire
from vf.vloop import settle

core.use_repo()
from tornado import httputil, web  # noqa: E402

PROP = "C05"
META = {
    "level": "fault_enumeration",
    "technique": "exhaustive disconnect/shutdown/timeout injection at every byte offset and at response-phase points; "
                 "exactly-once accounting per request id at virtual-loop quiescence",
    "level_text": "For each base request stream (well-formed ones, and streams with a valid header block whose body "
                  "framing the server itself then refuses with 400/close: invalid chunk-size line or chunk terminator, "
                  "chunked / Content-Length / decompressed gzip body over max_body_size, unusable Content-Length or "
                  "Transfer-Encoding, corrupt gzip, correctly framed but truncated gzip - refused from inside the decoding "
                  "wrapper's finish()) every byte offset is used as a fault point (orderly close, reset, "
                  "half-close, server shutdown, body-timeout expiry in virtual time), plus five response-phase points, "
                  "against raw delegates (sync/async, answering early, and one whose finish() raises before/after responding) "
                  "and the real Application (sync, async, @stream_request_body). "
                  "A recording proxy at the HTTPMessageDelegate boundary gives the per-request event history; the "
                  "oracle is exactly-once(finish|close) + body-prefix + completion of close_all_connections (Quiescent "
                  "or a connection closed again and again = deadlock/livelock witness).",
    "level_note": "Exhaustive in the byte-offset dimension for the listed base streams (quick: handler kind rotates with "
                  "the offset; thorough: every handler kind at every offset). Reset in the request phase is injected as "
                  "ECONNRESET from read_from_fd (AF_UNIX has no RST); in the response phase it is a real ECONNRESET "
                  "(peer closes with unread data).",
    "design_ref": "DESIGN.md §4 C05",
    "engine": "wire",
}
RULE = ("cases are (base stream - well-formed or with a body the server refuses after headers_received -, handler kind, "
        "fault kind, fault point); fault points are all byte offsets 0..len of the "
        "stream and 5 response-phase points; non-trivial = the point lies strictly inside the stream or in the response "
        "phase; distinct by the tuple")
FLOORS = {"quick": 3000, "thorough": 40000}
ASSUMPTIONS = [
    "peer and server share one virtual loop; a fault is injected only after everything sent so far was processed",
    "the recording proxy sits at the outermost HTTPMessageDelegate (inside the gzip wrapper when decompress_request is on)",
    "quiescence = peer gone, close_all_connections() awaited, two settle() rounds",
    "a delegate whose finish() raises has been told that the message finished; a further on_connection_close is 'both'",
]
REQUIRED_COUNTERS = ["oracle_evals", "started_requests", "terminal_close", "terminal_finish", "shutdown_completed",
                     "body_prefix_evals", "refused_after_headers_received"]
SHARD_TIMEOUT = {"quick": 240, "thorough": 3000}

HANDLERS = ["raw_sync", "raw_async", "app_sync", "app_async", "app_stream", "raw_early", "raw_early_async",
            "raw_finish_raises"]
ROTATING = HANDLERS[:7]     # quick tier: these rotate with the offset; "raw_finish_raises" is added where a finish() can happen
REQ_FAULTS = ["close", "reset", "half", "shutdown"]
BIG = b"x" * 1500000      # larger than the AF_UNIX socket buffer: stays in the write buffer while the peer does not read
RESP_POINTS = ["before_handler", "handler_awaits", "after_flush", "finish_undrained", "between_pipelined"]


def EXHAUSTIVE(tier):
    return ("byte-offset dimension: every offset 0..len(stream) of every base stream of <= 2000 bytes x {close, reset, "
            "half-close, server shutdown, body/idle timeout} (the two 16 KiB streams of the thorough tier: every offset of "
            "the first 300 and last 8 bytes, every 37th in between)"
            + ("; for the 'refused:' streams (valid head, body framing then refused by the server) every offset from 3 "
               "bytes before the end of the refused request's head" if tier == "quick" else "")
            + ("; every handler kind at every offset" if tier == "thorough" else "; handler kind rotates with the offset"))


# ---------------------------------------------------------------------------
# base streams: (name, [(head bytes, wire body bytes, decoded body bytes)], server kwargs)

def _gz(b):
    return gzip_mod.compress(b, mtime=0)


def _chunked(parts):
    out = b""
    for p in parts:
        out += b"%x\r\n" % len(p) + p + b"\r\n"
    return out + b"0\r\n\r\n"


def _req(method, target, headers, wire_body=b"", decoded=None, version=b"HTTP/1.1"):
    head = method + b" " + target + b" " + version + b"\r\n"
    for k, v in headers:
        head += k + b": " + v + b"\r\n"
    head += b"\r\n"
    return (head, wire_body, wire_body if decoded is None else decoded)


def _det_bytes(n, salt=b"c05"):
    out = b""
    i = 0
    while len(out) < n:
        out += hashlib.sha256(salt + str(i).encode()).digest()
        i += 1
    return out[:n]


def bases(tier):
    H = (b"Host", b"x")
    body20 = b"field1=a&field2=b+c!"
    B = []
    B.append(("get", [_req(b"GET", b"/", [H])], {}))
    B.append(("get10-keepalive", [_req(b"GET", b"/a?b=c", [(b"Connection", b"keep-alive"), (b"X-A", b"1")], version=b"HTTP/1.0")], {}))
    B.append(("post-cl", [_req(b"POST", b"/", [H, (b"Content-Length", b"20")], body20)], {}))
    B.append(("post-cl-form", [_req(b"POST", b"/", [H, (b"Content-Type", b"application/x-www-form-urlencoded"),
                                                     (b"Content-Length", b"20")], body20)], {}))
    B.append(("post-chunked", [_req(b"POST", b"/", [H, (b"Transfer-Encoding", b"chunked")],
                                    _chunked([b"hello", b" ", b"world!"]), b"hello world!")], {}))
    B.append(("post-chunked-smallreads", [_req(b"PUT", b"/", [H, (b"Transfer-Encoding", b"chunked")],
                                               _chunked([_det_bytes(40)]), _det_bytes(40))], {"chunk_size": 16}))
    gzbody = b"abcdefghij" * 6
    B.append(("gzip-cl", [_req(b"POST", b"/", [H, (b"Content-Encoding", b"gzip"),
                                                (b"Content-Length", str(len(_gz(gzbody))).encode())], _gz(gzbody), gzbody)],
              {"decompress_request": True}))
    B.append(("gzip-chunked", [_req(b"POST", b"/", [H, (b"Content-Encoding", b"gzip"), (b"Transfer-Encoding", b"chunked")],
                                    _chunked([_gz(gzbody)[:11], _gz(gzbody)[11:]]), gzbody)],
              {"decompress_request": True, "chunk_size": 8}))
    B.append(("pipelined-get-post", [_req(b"GET", b"/1", [H]), _req(b"POST", b"/2", [H, (b"Content-Length", b"9")], b"123456789")], {}))
    B.append(("pipelined-chunked-get", [_req(b"POST", b"/1", [H, (b"Transfer-Encoding", b"chunked")], _chunked([b"ab", b"cde"]), b"abcde"),
                                         _req(b"GET", b"/2", [H])], {}))
    B.append(("expect-100", [_req(b"POST", b"/", [H, (b"Expect", b"100-continue"), (b"Content-Length", b"7")], b"payload")], {}))
    B.append(("close-then-pipelined", [_req(b"POST", b"/1", [H, (b"Connection", b"close"), (b"Content-Length", b"3")], b"xyz"),
                                        _req(b"GET", b"/2", [H])], {}))
    B.append(("cl-smallreads", [_req(b"POST", b"/", [H, (b"Content-Length", b"50")], _det_bytes(50))], {"chunk_size": 16}))
    if tier == "thorough":
        big = _det_bytes(16384)
        B.append(("big-cl", [_req(b"POST", b"/", [H, (b"Content-Length", b"16384")], big)], {"chunk_size": 1024}))
        B.append(("big-chunked", [_req(b"POST", b"/", [H, (b"Transfer-Encoding", b"chunked")],
                                       _chunked([big[:5000], big[5000:5001], big[5001:]]), big)], {"chunk_size": 1024}))
        B.append(("head", [_req(b"HEAD", b"/", [H])], {}))
        B.append(("lf-only", [(b"POST / HTTP/1.1\nHost: x\nContent-Length: 4\n\n", b"abcd", b"abcd")], {}))
        B.append(("leading-blank", [(b"\r\nGET / HTTP/1.1\r\nHost: x\r\n\r\n", b"", b"")], {}))
        B.append(("three-pipelined", [_req(b"GET", b"/1", [H]), _req(b"POST", b"/2", [H, (b"Content-Length", b"2")], b"hi"),
                                      _req(b"GET", b"/3", [H])], {}))
        B.append(("post10-cl", [_req(b"POST", b"/", [(b"Content-Length", b"5")], b"12345", version=b"HTTP/1.0")], {}))
        B.append(("gzip-bomb", [_req(b"POST", b"/", [H, (b"Content-Encoding", b"gzip"),
                                                      (b"Content-Length", str(len(_gz(b"\0" * 20000))).encode())],
                                     _gz(b"\0" * 20000), b"\0" * 20000)], {"decompress_request": True, "chunk_size": 512}))
        B.append(("obs-fold", [(b"POST / HTTP/1.1\r\nHost: x\r\nX-F: a\r\n b\r\nContent-Length: 3\r\n\r\n", b"abc", b"abc")], {}))
        B.append(("empty-chunked", [_req(b"POST", b"/", [H, (b"Transfer-Encoding", b"chunked")], _chunked([]), b"")], {}))
        B.append(("cl-zero", [_req(b"POST", b"/", [H, (b"Content-Length", b"0")], b"")], {}))
    B.extend(refused_bases(tier))
    return B


def refused_bases(tier):
    """Requests whose header block is valid (the delegate gets headers_received, possibly body chunks) but whose body
    framing the server then refuses: it answers 400 / closes on its own initiative.  The delegate accounting is the
    same as for any other started request; only "the whole body when told it finished" has no referent, so a finish
    is never judged for these (kw "_refused" = indices of such requests; decoded = the bytes the valid part of the
    body can justify).  Appended after all other bases so that existing base indices do not move."""
    H = (b"Host", b"x")
    TE = (b"Transfer-Encoding", b"chunked")
    body20 = b"field1=a&field2=b+c!"
    R = {"_refused": [0]}
    B = []

    # -- invalid chunk-size line: in the middle, at the very start, after a pipelined request, with async small reads
    B.append(("refused:bad-chunk-size-mid", [_req(b"POST", b"/", [H, TE], b"5\r\nhello\r\n1\r\n \r\nzz\r\nworld!\r\n0\r\n\r\n",
                                                  b"hello ")], dict(R)))
    B.append(("refused:bad-chunk-size-first", [_req(b"PUT", b"/", [H, TE], b"xyz\r\nhello\r\n0\r\n\r\n", b"")], dict(R)))
    B.append(("refused:chunk-size-line-too-long", [_req(b"POST", b"/", [H, TE], b"3\r\nabc\r\n" + b"0" * 70 + b"5\r\nhello\r\n0\r\n\r\n",
                                                        b"abchello")], dict(R)))
    B.append(("refused:chunk-bad-terminator", [_req(b"POST", b"/", [H, TE], b"5\r\nhelloXX6\r\nworld!\r\n0\r\n\r\n", b"hello")],
              dict(R, chunk_size=2)))
    B.append(("refused:last-chunk-bad-terminator", [_req(b"POST", b"/", [H, TE], b"5\r\nhello\r\n0\r\nXY", b"hello")], dict(R)))
    B.append(("refused:get-then-bad-chunk-size", [_req(b"GET", b"/1", [H]),
                                                   _req(b"POST", b"/2", [H, TE], b"2\r\nab\r\nG\r\ncde\r\n0\r\n\r\n", b"ab")],
              {"_refused": [1]}))
    B.append(("refused:bad-chunk-size-then-get", [_req(b"POST", b"/1", [H, TE], b"2\r\nab\r\nq3\r\ncde\r\n0\r\n\r\n", b"ab"),
                                                   _req(b"GET", b"/2", [H])], dict(R)))
    # -- body larger than max_body_size: chunked (total crosses the limit at the third chunk / at the first),
    #    Content-Length (refused before any body byte is read), with Expect: 100-continue
    B.append(("refused:chunked-over-limit", [_req(b"POST", b"/", [H, TE], _chunked([b"hello", b" ", b"world!"]), b"hello world!")],
              dict(R, max_body_size=8)))
    B.append(("refused:chunked-first-chunk-over-limit", [_req(b"POST", b"/", [H, TE], _chunked([body20]), body20)],
              dict(R, max_body_size=19, chunk_size=8)))
    B.append(("refused:cl-over-limit", [_req(b"POST", b"/", [H, (b"Content-Length", b"20")], body20)], dict(R, max_body_size=19)))
    B.append(("refused:cl-over-limit-zero", [_req(b"POST", b"/", [H, (b"Content-Length", b"1")], b"x")], dict(R, max_body_size=0)))
    B.append(("refused:expect-100-cl-over-limit", [_req(b"POST", b"/", [H, (b"Expect", b"100-continue"), (b"Content-Length", b"20")],
                                                        body20)], dict(R, max_body_size=10)))
    # -- body framing headers that cannot be honoured
    B.append(("refused:cl-not-an-integer", [_req(b"POST", b"/", [H, (b"Content-Length", b"2x")], b"ab")], dict(R)))
    B.append(("refused:cl-unequal-list", [_req(b"POST", b"/", [H, (b"Content-Length", b"3, 4")], b"abcd")], dict(R)))
    B.append(("refused:cl-and-chunked", [_req(b"POST", b"/", [H, (b"Content-Length", b"5"), TE], _chunked([b"hello"]), b"hello")], dict(R)))
    B.append(("refused:te-unsupported", [_req(b"POST", b"/", [H, (b"Transfer-Encoding", b"gzip, chunked")], _chunked([b"hello"]), b"hello")],
              dict(R)))
    # -- gzip request bodies with decompress_request: decompressed size over the limit, corrupt stream (bad CRC in
    #    the trailer: every body byte is delivered before the error is seen; bad magic: none is)
    zeros = b"\0" * 20000
    B.append(("refused:gzip-decompressed-over-limit", [_req(b"POST", b"/", [H, (b"Content-Encoding", b"gzip"),
                                                                            (b"Content-Length", str(len(_gz(zeros))).encode())],
                                                            _gz(zeros), zeros)],
              dict(R, decompress_request=True, max_body_size=1000, chunk_size=256)))
    gzbody = b"abcdefghij" * 6
    g = _gz(gzbody)
    badcrc = g[:-8] + bytes([g[-8] ^ 0xFF]) + g[-7:]
    B.append(("refused:gzip-bad-crc", [_req(b"POST", b"/", [H, (b"Content-Encoding", b"gzip"), (b"Content-Length", str(len(badcrc)).encode())],
                                            badcrc, gzbody)], dict(R, decompress_request=True)))
    badmagic = b"\x1f\x8c" + g[2:]
    B.append(("refused:gzip-bad-magic-chunked", [_req(b"POST", b"/", [H, (b"Content-Encoding", b"gzip"), TE],
                                                      _chunked([badmagic[:9], badmagic[9:]]), gzbody)],
              dict(R, decompress_request=True, chunk_size=8)))
    # -- gzip request bodies that are correctly FRAMED (Content-Length / chunks add up) but whose gzip stream stops
    #    early: the error is only seen when the message ends, i.e. inside the decoding wrapper's finish() - the one
    #    refusal that is raised from a finish() call instead of from the body reader.  Cuts: inside the 8-byte
    #    trailer (all output delivered), inside the deflate data, and where the decompressor still holds output.
    CE = (b"Content-Encoding", b"gzip")

    def cl(b):
        return (b"Content-Length", str(len(b)).encode())
    B.append(("refused:gzip-truncated-no-trailer", [_req(b"POST", b"/", [H, CE, cl(g[:-8])], g[:-8], gzbody)],
              dict(R, decompress_request=True)))
    B.append(("refused:gzip-truncated-last-byte-chunked", [_req(b"POST", b"/", [H, CE, TE], _chunked([g[:13], g[13:-1]]), gzbody)],
              dict(R, decompress_request=True, chunk_size=8)))
    half = g[:10 + (len(g) - 18) // 2]
    B.append(("refused:gzip-truncated-mid-deflate-then-get", [_req(b"PUT", b"/1", [H, CE, cl(half)], half, gzbody),
                                                             _req(b"GET", b"/2", [H])],
              dict(R, decompress_request=True, chunk_size=4)))
    z3k = b"\0" * 3000
    held = _gz(z3k)[:-9]
    B.append(("refused:gzip-truncated-output-held", [_req(b"POST", b"/", [H, CE, cl(held)], held, z3k)],
              dict(R, decompress_request=True, chunk_size=64)))
    B.append(("refused:gzip-header-only", [_req(b"POST", b"/", [H, CE, cl(g[:10])], g[:10], gzbody)],
              dict(R, decompress_request=True)))
    return B


def stream_of(base):
    return b"".join(h + w for h, w, _ in base[1])


def body_spans(base):
    """[(start, end)] of the wire bodies inside the stream."""
    out, pos = [], 0
    for h, w, _ in base[1]:
        pos += len(h)
        out.append((pos, pos + len(w)))
        pos += len(w)
    return out


# ---------------------------------------------------------------------------
# handlers under the recording proxy

class Gate:
    """asyncio.Event created lazily inside the running loop + bookkeeping for the harness."""

    def __init__(self):
        self.ev = asyncio.Event()
        self.waiting = 0
        self.flushed = 0
        self.finished = 0
        self.handler_events = []


class FinishFailure(Exception):
    """Raised by the 'raw_finish_raises' delegate from its finish(): the delegate HAS been told that the message
    finished (that the notification failed inside the application does not make it a close)."""


class RawDelegate(httputil.HTTPServerConnectionDelegate):
    def __init__(self, gate, asynchronous, mode, slow=False, early=False, raises=None):
        self.gate, self.asynchronous, self.mode, self.slow, self.early = gate, asynchronous, mode, slow, early
        self.raises = raises      # None | "first" (finish() fails before it did anything) | "last" (after it responded)

    def start_request(self, server_conn, request_conn):
        return RawMsg(self, request_conn)

    def on_close(self, server_conn):
        pass


class RawMsg(httputil.HTTPMessageDelegate):
    def __init__(self, owner, conn):
        self.o, self.conn = owner, conn

    def headers_received(self, start_line, headers):
        if self.o.early:
            # answers from headers_received, before any of the request body was consumed
            self.responded = True
            if self.o.asynchronous:
                return self._early()
            self._write_all()
            return None
        if self.o.asynchronous:
            return self._pause()
        return None

    async def _early(self):
        await settle()
        try:
            self._write_all()
        except Exception as e:
            self.o.gate.handler_events.append(("raw-early-exc", type(e).__name__))

    async def _pause(self):
        if self.o.slow:
            await asyncio.sleep(0.7)     # virtual seconds: longer than what is left of body_timeout after one chunk
        else:
            await settle()

    def data_received(self, chunk):
        if self.o.asynchronous:
            return self._pause()
        return None

    def finish(self):
        if getattr(self, "responded", False):
            return
        if self.o.raises == "first":
            raise FinishFailure("delegate fails in finish() before responding")
        if self.o.asynchronous or self.o.mode not in ("plain", "big"):
            asyncio.ensure_future(self._respond())
        else:
            self._write_all()
        if self.o.raises:
            raise FinishFailure("delegate fails in finish() after responding / scheduling its response")

    def _write_all(self):
        body = BIG if self.o.mode == "big" else b"ok"
        self.conn.write_headers(httputil.ResponseStartLine("HTTP/1.1", 200, "OK"),
                                httputil.HTTPHeaders({"Content-Length": str(len(body))}), body)
        self.conn.finish()
        self.o.gate.finished += 1

    async def _respond(self):
        g = self.o.gate
        mode = self.o.mode
        try:
            if mode == "handler_awaits":
                g.waiting += 1
                await g.ev.wait()
            elif mode == "after_flush":
                self.conn.write_headers(httputil.ResponseStartLine("HTTP/1.1", 200, "OK"), httputil.HTTPHeaders(), b"part1")
                g.flushed += 1
                g.waiting += 1
                await g.ev.wait()
                try:
                    await self.conn.write(b"part2")
                except Exception:
                    pass
                self.conn.finish()
                g.finished += 1
                return
            else:
                await settle()
            self._write_all()
        except Exception as e:      # writes after the peer left may raise; irrelevant to the accounting
            g.handler_events.append(("raw-respond-exc", type(e).__name__))

    def on_connection_close(self):
        pass


def make_app(kind, gate, mode, slow=False):
    class Base(web.RequestHandler):
        def on_finish(self):
            gate.handler_events.append(("on_finish", id(self)))

        def on_connection_close(self):
            gate.handler_events.append(("on_connection_close", id(self)))

        def _respond_sync(self):
            self.write(BIG if mode == "big" else b"ok")

        async def _respond(self):
            if mode == "handler_awaits":
                gate.waiting += 1
                await gate.ev.wait()
                self.write(b"ok")
            elif mode == "after_flush":
                self.write(b"part1")
                await self.flush()
                gate.flushed += 1
                gate.waiting += 1
                await gate.ev.wait()
                self.write(b"part2")
                await self.flush()
            elif mode == "big":
                await settle()
                self.write(BIG)          # finish() follows; the response cannot drain while the peer does not read
            else:
                await settle()
                self.write(b"ok")
                await self.flush()
                await settle()
            gate.finished += 1

    if kind == "app_sync" and mode in ("plain", "big"):
        class H(Base):
            def get(self):
                self._respond_sync()
                gate.finished += 1
            post = put = head = get
    elif kind in ("app_sync", "app_async"):
        class H(Base):
            async def get(self):
                await self._respond()
            post = put = head = get
    else:
        @web.stream_request_body
        class H(Base):
            async def prepare(self):
                await settle()

            async def data_received(self, chunk):
                if slow:
                    await asyncio.sleep(0.7)
                else:
                    await settle()

            async def get(self):
                await self._respond()
            post = put = head = get
    return web.Application([(r"/.*", H)])


def make_target(kind, gate, mode, slow=False, variant=0):
    if kind == "raw_finish_raises":
        return RawDelegate(gate, False, mode, raises=("first", "last")[variant % 2])
    if kind == "raw_sync":
        return RawDelegate(gate, False, mode)
    if kind == "raw_async":
        return RawDelegate(gate, True, mode, slow)
    if kind == "raw_early":
        return RawDelegate(gate, False, "plain", early=True)
    if kind == "raw_early_async":
        return RawDelegate(gate, True, "plain", early=True)
    return make_app(kind, gate, mode, slow)


# ---------------------------------------------------------------------------
# shards / cases

def shards(tier, seed):
    out = []
    nb = len(bases(tier))
    if tier == "quick":
        # few, balanced shards: process start-up dominates the cost of a shard here
        for j in range(10):
            out.append({"kind": "offsets", "bases": list(range(j, nb, 10))})
        for j in range(4):
            out.append({"kind": "timeouts", "bases": list(range(j, nb, 4))})
        out.append({"kind": "response", "part": 0})
        out.append({"kind": "response", "part": 1})
        return out
    for b in range(nb):
        out.append({"kind": "offsets", "bases": [b]})
    for j in range(6):
        out.append({"kind": "timeouts", "bases": list(range(j, nb, 6))})
    out.append({"kind": "response", "part": 0})
    out.append({"kind": "response", "part": 1})
    return out


def gen_cases(spec):
    for c in _gen_cases(spec):
        c["tier"] = spec["tier"]
        yield c


def _gen_cases(spec):
    if "bases" in spec:
        for b in spec["bases"]:
            yield from _gen_cases_one(dict(spec, base=b))
    else:
        yield from _gen_cases_one(spec)


def _first_offset(base, tier):
    """Quick tier, refused-body streams: fault points start three bytes before the end of the refused request's
    header block (what lies before is a disconnect inside a well-formed head, enumerated on the other streams)."""
    ref = base[2].get("_refused")
    if tier != "quick" or not ref:
        return 0
    pos = 0
    for i, (h, w, _) in enumerate(base[1]):
        if i == ref[0]:
            return max(0, pos + len(h) - 3)
        pos += len(h) + len(w)
    return 0


def _gen_cases_one(spec):
    tier = spec["tier"]
    B = bases(tier)
    rng = core.rng_for(spec["seed"], PROP, f'{spec["kind"]}{spec.get("base", spec.get("part"))}')
    if spec["kind"] in ("offsets", "timeouts"):
        first_complete = len(B[spec["base"]][1][0][0]) + len(B[spec["base"]][1][0][1])     # end of the first request
    if spec["kind"] == "offsets":
        base = B[spec["base"]]
        data = stream_of(base)
        step = 1
        if len(data) > 2000:
            step = 37          # big bodies: every 37th offset inside the body plus every offset of the first 300 bytes
        offsets = [k for k in range(len(data) + 1) if k <= 300 or k % step == 0 or k >= len(data) - 8]
        offsets = [k for k in offsets if k >= _first_offset(base, tier)]
        for k in offsets:
            for fi, fault in enumerate(REQ_FAULTS):
                every = tier == "thorough" and len(data) <= 2000
                hs = HANDLERS if every else [ROTATING[(k + fi + spec["seed"]) % len(ROTATING)]]
                for h in hs:
                    yield {"base": spec["base"], "name": base[0], "offset": k, "fault": fault, "handler": h, "phase": "request",
                           "cuts": rng.choice(["whole", "whole", "random", "pairs"]) if k <= 400 else "whole"}
                if not every and k >= first_complete:
                    # at least one request is complete here, i.e. a finish() is due: the delegate whose finish() raises
                    yield {"base": spec["base"], "name": base[0], "offset": k, "fault": fault, "handler": "raw_finish_raises",
                           "phase": "request", "cuts": "whole"}
    elif spec["kind"] == "timeouts":
        base = B[spec["base"]]
        data = stream_of(base)
        if len(data) > 2000:
            ks = list(range(0, len(data) + 1, 211))
        else:
            ks = list(range(_first_offset(base, tier), len(data) + 1))
        for k in ks:
            every = tier == "thorough" and len(data) <= 2000
            hs = HANDLERS if every else [ROTATING[(k + spec["seed"]) % len(ROTATING)]]
            if not every and k >= first_complete:
                hs = hs + ["raw_finish_raises"]
            for h in hs:
                yield {"base": spec["base"], "name": base[0], "offset": k, "fault": "timeout", "handler": h, "phase": "request",
                       "cuts": "whole"}
            if base[2].get("chunk_size") and len(data) <= 2000 and k % 3 == 0:
                # body timeout expiring while a slow asynchronous data_received is suspended and more body is buffered
                for h in ("raw_async", "app_stream"):
                    yield {"base": spec["base"], "name": base[0], "offset": k, "fault": "timeout", "handler": h,
                           "phase": "request", "cuts": "whole", "slow": True}
    else:
        # response-phase points
        names = [b[0] for b in B]
        use = [i for i, n in enumerate(names) if n in ("get", "post-cl", "post-chunked", "gzip-cl", "pipelined-get-post",
                                                        "pipelined-chunked-get", "expect-100", "close-then-pipelined",
                                                        "get10-keepalive", "three-pipelined", "head", "big-cl")]
        k = 0
        for bi in use:
            for point in RESP_POINTS:
                if point == "between_pipelined" and len(B[bi][1]) < 2:
                    continue
                for fault in ["close", "reset", "half", "shutdown"]:
                    for h in HANDLERS:
                        for wplan in (["none"] if tier == "quick" else ["none", "dribble"]):
                            k += 1
                            if k % 2 != spec["part"]:
                                continue
                            yield {"base": bi, "name": names[bi], "offset": None, "fault": fault, "handler": h,
                                   "phase": "resp:" + point, "cuts": "whole", "wplan": wplan}


def directed_cases():
    # delegate answers from headers_received while the whole body is already buffered
    yield {"base": 2, "name": "early-response-body-buffered", "offset": 10 ** 6, "fault": "half", "handler": "raw_early", "phase": "request", "cuts": "whole"}
    yield {"base": 4, "name": "early-response-body-buffered-chunked", "offset": 10 ** 6, "fault": "half", "handler": "raw_early_async", "phase": "request", "cuts": "whole"}
    # shapes that historically double-notify: disconnect while an async data_received is suspended; EOF right
    # after a complete pipelined pair; shutdown while the handler awaits
    yield {"base": 2, "name": "post-cl", "offset": 60, "fault": "close", "handler": "app_stream", "phase": "request", "cuts": "whole"}
    yield {"base": 8, "name": "pipelined-get-post", "offset": 76, "fault": "half", "handler": "raw_async", "phase": "request", "cuts": "whole"}
    yield {"base": 0, "name": "get", "offset": None, "fault": "shutdown", "handler": "app_async", "phase": "resp:handler_awaits", "cuts": "whole", "wplan": "none"}
    # the end-of-message notification itself fails: the gzip wrapper's finish() on a correctly framed, truncated gzip
    # body (base addressed in the quick tier's list), and an application delegate raising from finish()
    names = [b[0] for b in bases("quick")]
    for n in ("refused:gzip-truncated-no-trailer", "refused:gzip-truncated-output-held"):
        yield {"base": names.index(n), "name": n, "offset": 10 ** 6, "fault": "half", "handler": "raw_sync", "phase": "request",
               "cuts": "whole", "tier": "quick"}
    yield {"base": 2, "name": "post-cl", "offset": 10 ** 6, "fault": "half", "handler": "raw_finish_raises", "phase": "request", "cuts": "whole"}
    yield {"base": 8, "name": "pipelined-get-post", "offset": 10 ** 6 + 1, "fault": "close", "handler": "raw_finish_raises", "phase": "request", "cuts": "whole"}


# ---------------------------------------------------------------------------
# execution

class Livelock(BaseException):
    pass


def _watchdog(signum, frame):
    raise RuntimeError("C05 harness watchdog: one case ran for more than 90 s of wall clock")


def _guard_connections(server, limit=25):
    """Structural livelock witness: close_all_connections() closing the same connection object again and again."""
    for conn in list(server._connections):
        if getattr(conn, "_vf_guarded", False):
            continue
        conn._vf_guarded = True
        orig = conn.close
        state = {"n": 0}

        def close(orig=orig, state=state):
            state["n"] += 1
            if state["n"] > limit:
                raise Livelock()
            return orig()
        conn.close = close


def execute(case, tier):
    tier = case.get("tier", tier)
    B = bases(tier)
    base = B[case["base"]]
    data = stream_of(base)
    phase = case["phase"]
    point = phase[5:] if phase.startswith("resp:") else None
    mode = {"handler_awaits": "handler_awaits", "after_flush": "after_flush", "between_pipelined": "handler_awaits",
            "finish_undrained": "big"}.get(point, "plain")
    obs = {"events": []}
    rng = core.rng_for(0, PROP, repr(sorted(case.items())))

    async def main():
        gate = Gate()
        flag = {"reset": False}

        def plan():
            while True:
                yield ("err", errno.ECONNRESET) if flag["reset"] else None

        wplan = None
        if case.get("wplan") == "dribble" and point != "finish_undrained":
            wplan = iter([1, "block", 2, 1, "block", 3] * 20)
        kw = dict(base[2])
        kw.pop("_refused", None)
        if case["fault"] == "timeout":
            kw["body_timeout"] = 1.0
            kw["idle_connection_timeout"] = 1.0
        # which way the failing delegate fails; NOT (offset + fault) % len(HANDLERS), which selects the handler itself
        fi = REQ_FAULTS.index(case["fault"]) if case["fault"] in REQ_FAULTS else 1
        variant = ((case["offset"] + fi) // len(HANDLERS) + case["offset"]) if case["offset"] is not None \
            else fi + RESP_POINTS.index(point) + case["base"]
        target = make_target(case["handler"], gate, mode, case.get("slow", False), variant)
        rig = wire.ServerRig(target, read_plan=plan(), write_plan=wplan, **kw)
        peer = rig.connect()
        obs["log"] = rig.log
        loop = asyncio.get_event_loop()
        fault = case["fault"]

        def inject():
            if fault == "close":
                peer.close()
            elif fault == "reset":
                if phase == "request":
                    flag["reset"] = True
                    peer.close()
                else:
                    peer.reset()        # unread response bytes at the peer => real ECONNRESET at the server
            elif fault == "half":
                peer.half_close()

        if phase == "request":
            k = case["offset"]
            prefix = data[:k]
            if prefix:
                await peer.send(prefix, wire.cuts_for(rng, len(prefix), case.get("cuts", "whole")))
            await settle()
            if fault == "timeout":
                await asyncio.sleep(3.0)          # virtual seconds: body_timeout / idle timeout expire
                obs["closed_by_timeout"] = all(st.closed() for st in rig.streams)
                await asyncio.sleep(3.0)          # slow handlers run to completion
            elif fault != "shutdown":
                inject()
            await settle(2)
        else:
            if point == "finish_undrained":
                # the peer sends and then never reads: the (large) response stays in the server's write buffer
                peer.sock.send(data)
                await settle(4)
                obs["undrained"] = sum(len(getattr(st, "_write_buffer", None) or b"") for st in rig.streams)
                if fault != "shutdown":
                    inject()
                await settle(2)
            elif point == "before_handler":
                # request bytes and the disconnect become visible to the server in the same loop iteration
                peer.sock.send(data)
                if fault != "shutdown":
                    inject()
                await settle(2)
            elif point == "between_pipelined":
                await peer.send(data)
                await settle(2)
                gate.ev.set()            # first handler answers ...
                await settle()
                gate.ev.clear()          # ... later ones wait again
                await settle(2)
                peer.pump()
                obs["rx_before_fault"] = len(peer.rx)
                if fault != "shutdown":
                    inject()
                await settle(2)
            else:
                await peer.send(data)
                await settle(3)
                obs["waiting"] = gate.waiting
                if fault != "shutdown":
                    inject()
                await settle(2)
        # let suspended handlers run to completion, then shut down
        t0 = loop.time()
        _guard_connections(rig.server)
        if fault == "shutdown":
            sd = asyncio.ensure_future(rig.server.close_all_connections())
            await settle(2)
            gate.ev.set()
            await sd
        else:
            gate.ev.set()
            await settle(3)
            await rig.server.close_all_connections()
        obs["shutdown_vtime"] = loop.time() - t0
        obs["shutdown_done"] = True
        await settle(3)
        obs["open_conns"] = len(rig.server._connections)
        obs["streams_closed"] = all(s.closed() for s in rig.streams)
        obs["handler_events"] = list(gate.handler_events)
        peer.close()
        for s in rig.streams:
            if not s.closed():
                s.close()

    try:
        vloop.run(main, collect=False)
    except vloop.Quiescent:
        obs["quiescent"] = True
    except Livelock:
        obs["livelock"] = True
    return obs


def decoded_bodies(base, sent):
    """Per request index: the decoded body that the bytes sent so far can justify (for the prefix check the whole
    decoded body is the reference; `complete` says whether the whole wire body was sent)."""
    out, pos = [], 0
    for h, w, d in base[1]:
        start = pos + len(h)
        end = start + len(w)
        out.append({"decoded": d, "head_complete": sent >= start, "complete": sent >= end, "wire_sent": max(0, min(sent, end) - start),
                    "refused": len(out) in base[2].get("_refused", ())})
        pos = end
    return out


def run_case(case, ctx):
    tier = case.get("tier", ctx.tier)
    B = bases(tier)
    base = B[case["base"]]
    data = stream_of(base)
    with logmon.LogMon() as lm:
        # watchdog only (never a verdict): a case that does not come back is a harness failure => shard error => INCONCLUSIVE
        signal.signal(signal.SIGALRM, _watchdog)
        signal.alarm(90)
        try:
            obs = execute(case, tier)
        finally:
            signal.alarm(0)
    sent = len(data) if case["offset"] is None else case["offset"]
    wit = {"case": {k: v for k, v in case.items()}, "stream": data[:300], "sent": sent,
           "log": [(e[0],) + tuple(e[1:2]) + ((len(e[2]),) if e[0] == "data" else ()) for e in obs.get("log", [])][:60]}
    ctx.count("oracle_evals")
    ctx.count("fault:" + case["fault"])
    ctx.count("phase:" + case["phase"])
    ctx.count("handler:" + case["handler"])

    if obs.get("quiescent") or obs.get("livelock"):
        why = "livelock-same-connection-closed-repeatedly" if obs.get("livelock") else "stuck-at-quiescence"
        ctx.violation(f"shutdown/close_all_connections-{why}",
                      "close_all_connections() did not complete (loop idle with the coroutine pending, or it keeps closing "
                      "a connection that never leaves the server's connection set)", wit)
        _mark(case, ctx, data)
        return
    if not ctx.check(obs.get("shutdown_done"), "shutdown/not-reached", "harness did not reach shutdown", wit):
        return
    ctx.count("shutdown_completed")
    if obs["shutdown_vtime"] > 0.5:
        ctx.count("shutdown_waited_for_a_timer")
    ctx.check(obs["open_conns"] == 0 and obs["streams_closed"], "shutdown/connection-left-after-close_all_connections",
              "a connection is still registered / a stream still open after close_all_connections() returned",
              dict(wit, open_conns=obs["open_conns"]))

    # --- exactly-once accounting per request id --------------------------------------------------------
    per, order = {}, []
    bad_order = None
    data_after_terminal = False
    for e in obs["log"]:
        if e[0] == "conn_close":
            continue
        rid = e[1]
        if rid not in per:
            per[rid] = {"headers": 0, "finish": 0, "close": 0, "data": b"", "terminal": False}
            order.append(rid)
        p = per[rid]
        if p["terminal"] and e[0] == "data":
            # Not pinned by the statement (it only counts finish/close and asks for a prefix): counted, never gated.
            # Seen on the pinned tree when body_timeout fires while a slow async data_received is suspended and more
            # body is buffered: the orphaned body reader keeps feeding the delegate after on_connection_close.
            data_after_terminal = True
        if e[0] == "headers":
            p["headers"] += 1
        elif e[0] == "data":
            if not p["headers"]:
                bad_order = (rid, "data-before-headers")
            p["data"] += e[2]
        elif e[0] == "finish":
            p["finish"] += 1
            p["terminal"] = True
        elif e[0] == "close":
            p["close"] += 1
            p["terminal"] = True
    bodies = decoded_bodies(base, sent)
    server_refused = bool(lm.matching("Malformed HTTP message"))
    for rid in order:
        p = per[rid]
        w = dict(wit, rid=rid, counts={k: p[k] for k in ("headers", "finish", "close")}, data_len=len(p["data"]))
        if not p["headers"]:
            ctx.check(p["finish"] + p["close"] == 0 and not p["data"], "accounting/event-without-headers_received",
                      "finish/close/data for a request that never got headers_received", w)
            continue
        ctx.count("started_requests")
        ctx.check(p["headers"] == 1, "accounting/headers_received-twice", "headers_received twice for one request", w)
        n = p["finish"] + p["close"]
        refused_here = rid < len(bodies) and bodies[rid]["refused"] and server_refused
        if rid < len(bodies) and bodies[rid]["refused"]:
            ctx.count("refusable_body_started_requests")
            if server_refused:
                ctx.count("refused_after_headers_received")
        if n == 0 and refused_here:
            ctx.check(False, "accounting/neither-finish-nor-close-after-server-refused-the-body",
                      "a started request whose body framing the server then refused (400 + close) was never told finish "
                      "or close", w)
        elif n == 0:
            ctx.check(False, "accounting/neither-finish-nor-close", "a started request was never told finish or close", w)
        elif p["finish"] and p["close"]:
            ctx.check(False, "accounting/both-finish-and-close", "a started request was told finish AND connection close", w)
        elif p["finish"] > 1:
            ctx.check(False, "accounting/finish-twice", "finish() called twice", w)
        elif p["close"] > 1:
            ctx.check(False, "accounting/close-twice", "on_connection_close() called twice", w)
        else:
            ctx.check(True, "accounting/ok", "")
            ctx.count("terminal_finish" if p["finish"] else "terminal_close")
        # --- body prefix ---
        ctx.count("body_prefix_evals")
        if rid < len(bodies):
            b = bodies[rid]
            ok = ctx.check(b["decoded"].startswith(p["data"]), "body/chunks-not-a-prefix-of-sent-body",
                           "concatenated data_received chunks are not a prefix of the body that was sent",
                           dict(w, got=p["data"][:80], want=b["decoded"][:80]))
            if ok and p["finish"] and b["refused"]:
                # "the whole body when told it finished" has no referent for a body whose framing is invalid / over
                # the limit; whether such a message may finish is C02/C04's question, not this property's
                ctx.count("unspecified_finish_of_refusable_body")
            elif ok and p["finish"]:
                ctx.check(p["data"] == b["decoded"] and b["complete"], "body/finish-with-short-body",
                          "finish() although the body was not delivered (or not even sent) completely",
                          dict(w, complete_sent=b["complete"]))
            if ok and not b["head_complete"]:
                ctx.check(False, "accounting/headers_received-before-head-was-sent",
                          "headers_received for a request whose header block had not been sent completely", w)
        else:
            ctx.check(False, "accounting/request-not-in-stream", "a request id beyond the requests that were sent got headers", w)
    if bad_order:
        ctx.check(False, "accounting/data-before-headers_received",
                  "a delegate received body data before headers_received", dict(wit, which=bad_order))
    if data_after_terminal:
        ctx.count("unspecified_data_received_after_close_notification")
    if case["phase"].startswith("resp:"):
        pt = case["phase"][5:]
        reached = {"handler_awaits": obs.get("waiting", 0) >= 1, "after_flush": obs.get("waiting", 0) >= 1,
                   "finish_undrained": obs.get("undrained", 0) > 0, "between_pipelined": obs.get("rx_before_fault", 0) > 0,
                   "before_handler": True}[pt]
        ctx.count(("point_reached:" if reached else "point_missed:") + pt)
    if case["fault"] == "timeout":
        ctx.count("timeout_closed_connection" if obs.get("closed_by_timeout") else "timeout_connection_survived")
    if case.get("slow"):
        ctx.count("slow_handler_cases")
    if lm.uncaught():
        ctx.count("uncaught_log_records(informational)")
    _mark(case, ctx, data)


def _mark(case, ctx, data):
    nontriv = case["phase"] != "request" or 0 < case["offset"] < len(data)
    canon = (case["name"], case["offset"], case["fault"], case["handler"], case["phase"], case.get("wplan"), case.get("cuts"),
             case.get("slow"))
    ctx.mark(canon, nontriv)
    if nontriv and case["offset"] not in (1, 2, 3):
        ctx.sample({k: v for k, v in case.items()})
