"""C32 — proxy headers yield a valid client IP and never leak between requests.

Keep-alive sequences of requests with and without X-Real-Ip / X-Forwarded-For / X-Scheme /
X-Forwarded-Proto are sent to a real HTTPServer(xheaders=True); the application records
request.remote_ip and request.protocol; every observation is judged by a reference that sees only
*that* request's headers, the socket address and the configuration (vf/refs/xheaders.py), so a
value carried over from an earlier request on the connection can never be justified.

Two engines: the virtual loop with ServerRig (AF_UNIX socketpair: the "socket address" is the
value a header-less request reports) and a real asyncio loop with AF_INET/AF_INET6 loopback
listeners (the socket address is a real IP).  No verdict depends on time: responses are read
until the strict response reader has a complete message.
"""
from __future__ import annotations

import asyncio
import socket

from vf import core, vloop
from vf.logmon import LogMon
from vf.refs import http as rh
from vf.refs import xheaders as xr
from vf.wire import ServerRig

core.use_repo()
from tornado import web  # noqa: E402
from tornado.httpserver import HTTPServer  # noqa: E402
from tornado.httputil import HTTPHeaders, ResponseStartLine  # noqa: E402
from tornado.netutil import bind_sockets  # noqa: E402

PROP = "C32"
META = {
    "level": "exploration",
    "technique": "per-request reference resolver (sees only that request's headers + socket address) over keep-alive "
                 "sequences on a real HTTPServer; strict response reader delimits the replies",
    "level_text": "Sequences of 1-5 keep-alive requests (sequential and pipelined) with generated proxy-header values "
                  "(IPv4/IPv6, legacy and scoped forms, garbage, lists with trusted/empty entries, multiple header "
                  "lines; scheme values with lists, case and garbage) are served by a real HTTPServer(xheaders=True) "
                  "with several trusted_downstream sets; remote_ip and protocol seen by the application are compared "
                  "with a resolver that has no memory of earlier requests.",
    "level_note": "MUST is demanded only where the statement pins the value (single strictly numeric X-Real-Ip; no "
                  "X-Real-Ip and a strictly numeric right-most untrusted X-Forwarded-For entry; no proxy headers => "
                  "socket address); otherwise remote_ip must merely be the socket address or a leniently numeric "
                  "entry of this request's own headers. AF_UNIX: 'socket address' is the value reported for a "
                  "header-less request on a fresh connection.",
    "design_ref": "DESIGN.md §4 C32",
    "engine": "wire",
}
RULE = ("sequences of 1-5 requests on one connection; each request draws 0-3 proxy headers from IP / legacy / scoped / "
        "dotted-quad near-miss (leading-zero / octal-invalid / >255 / hex / signed / non-ASCII-digit parts, wrong part "
        "counts) / garbage / list generators (multiple lines, case variants of the header names), optionally a body or a "
        "handler that raises or a path that is not routed; configs: trusted_downstream in {none, 1, 3 entries}, "
        "protocol in {None, https}, plain callable or web.Application; a sequence is non-trivial if it has >= 2 "
        "requests of which one carries a proxy header and a later one lacks it or carries a different one; distinct "
        "by the request bytes and the config.")
FLOORS = {"quick": 4000, "thorough": 120000}
ASSUMPTIONS = [
    "header values are field-values the HTTP parser accepts (no control characters); names vary in case only",
    "strictly numeric IP = inet_pton(AF_INET/AF_INET6); leniently numeric adds %zone and inet_aton legacy forms",
    "precedence between X-Scheme and X-Forwarded-Proto and between list entries of a scheme header is not pinned by the statement",
    "when X-Real-Ip is present but not numeric, falling back to X-Forwarded-For or to the socket address are both accepted",
    "AF_UNIX connections: the socket address is the value reported for a header-less request",
]
REQUIRED_COUNTERS = ["oracle_evals", "must_real_ip", "must_xff", "must_sock", "leak_candidates", "inet_requests",
                     "unix_requests", "pipelined_sequences", "protocol_evals"]
SHARD_TIMEOUT = {"quick": 240, "thorough": 3600}

V4 = ["1.2.3.4", "10.0.0.1", "192.168.1.77", "255.255.255.255", "8.8.8.8", "172.16.0.9"]
V6 = ["::1", "2001:db8::1", "2001:DB8:0:0:0:0:0:1", "::ffff:1.2.3.4", "fe80::1", "2001:db8::"]
ODD = ["127.1", "01.02.03.04", "0x7f.0.0.1", "1", "fe80::1%lo", "fe80::1%1", "1.2.3.4:80", "[::1]", "1.2.3.4.5",
       "256.1.1.1", "::g", "localhost", "example.com", "<script>alert(1)</script>", "", "unknown", "a" * 300,
       "1.2.3.4%eth0", "::1%", "1.2.3.4 5.6.7.8", "1.2.3.4;5.6.7.8", "\xe9", "1.2.3.4\xa0", "-", "0", "1.2.3", "::",
       "10.0.0.1 ", "_", "1.2.3.4/32", "for=1.2.3.4"]
TRUSTED_SETS = [[], ["10.0.0.1"], ["10.0.0.1", "192.168.1.77", "::1"]]
SCHEMES = ["http", "https", "HTTPS", "https, http", "http,https", "ftp", "", "javascript:", "on", "wss", "https,",
           ",https", "http, ftp", "Https", "https https", "\xe9"]
NAMES = {
    "real": ["X-Real-Ip", "X-Real-IP", "x-real-ip", "X-REAL-IP"],
    "xff": ["X-Forwarded-For", "x-forwarded-for", "X-FORWARDED-FOR"],
    "scheme": ["X-Scheme", "x-scheme", "X-SCHEME"],
    "proto": ["X-Forwarded-Proto", "x-forwarded-proto", "X-Forwarded-PROTO"],
}


# Dotted quads and their near misses: text that LOOKS like an IPv4 address but is one only if every part survives the
# platform's numeric parsers (inet_pton; leniently inet_aton): leading zeros (octal: 08 / 09 / 018 are no numbers),
# parts above 255, hex parts, signs, digit separators, non-ASCII digits, wrong part counts.
OCTET_LEAD0 = ["00", "000", "01", "07", "08", "09", "010", "017", "018", "019", "008", "009", "077", "078", "080", "089",
               "099", "0377", "0400", "0008", "0000", "0255", "0256"]
OCTET_BIG = ["256", "260", "299", "300", "999", "1000", "0x100", "4294967295"]
OCTET_HEX = ["0x8", "0xff", "0XfF", "0x0", "0x", "0x1g", "ff"]
OCTET_ODD = ["", "+1", "-1", " 1", "1 ", "1_0", "1e1", "0b1", "0o7", "\xb2", "\xb9", "1\xa0", "\xbc"]


def gen_octet(rng, odd_p):
    if rng.random() >= odd_p:
        return str(rng.choice([0, 1, 8, 9, 10, 99, 100, 127, 199, 200, 249, 250, 255, rng.randrange(256)]))
    r = rng.random()
    if r < 0.5:
        if rng.random() < 0.5:
            return rng.choice(OCTET_LEAD0)
        return "0" * rng.choice([1, 1, 2]) + str(rng.choice([8, 9, rng.randrange(10), rng.randrange(100)]))
    if r < 0.7:
        return rng.choice(OCTET_BIG)
    if r < 0.85:
        return rng.choice(OCTET_HEX)
    return rng.choice(OCTET_ODD)


def gen_quad(rng):
    n = rng.choice([4] * 12 + [3, 5, 2])
    parts = [gen_octet(rng, 0.35) for _ in range(n)]
    if all(p.isascii() and p.isdigit() and str(int(p)) == p and int(p) < 256 for p in parts) and rng.random() < 0.7:
        parts[rng.randrange(n)] = gen_octet(rng, 1.0)   # make sure most draws are near misses, not plain addresses
    q = ".".join(parts)
    if rng.random() < 0.03:
        q += "."
    return q


def gen_ip(rng, trusted):
    if rng.random() < 0.15:
        return gen_quad(rng)
    r = rng.random()
    if r < 0.4:
        return rng.choice(V4)
    if r < 0.6:
        return rng.choice(V6)
    if r < 0.7 and trusted:
        return rng.choice(trusted)
    return rng.choice(ODD)


def gen_list(rng, trusted):
    n = rng.choice([1, 1, 2, 2, 3, 4])
    ents = []
    for i in range(n):
        # trusted entries are likelier on the right, where they matter
        if trusted and rng.random() < (0.5 if i >= n - 2 else 0.15):
            ents.append(rng.choice(trusted))
        else:
            ents.append(gen_ip(rng, trusted))
    sep = rng.choice([", ", ",", " , ", ",  "])
    return sep.join(ents)


def gen_request(rng, tag, trusted, app):
    hdrs = []
    r = rng.random()
    kinds = []
    if r < 0.25:
        kinds = []
    else:
        for k, p in (("real", 0.45), ("xff", 0.55), ("scheme", 0.3), ("proto", 0.3)):
            if rng.random() < p:
                kinds.append(k)
    for k in kinds:
        nlines = 2 if rng.random() < 0.12 else 1
        for _ in range(nlines):
            name = rng.choice(NAMES[k])
            if k == "real":
                v = gen_ip(rng, trusted)
            elif k == "xff":
                v = gen_list(rng, trusted)
            else:
                v = rng.choice(SCHEMES)
            if rng.random() < 0.1:
                v = " " + v + "  "
            hdrs.append((k, name, v))
    rng.shuffle(hdrs)
    beh = "ok"
    if app == "web":
        b = rng.random()
        if b < 0.12:
            beh = "raise"
        elif b < 0.22:
            beh = "404"
    method = "POST" if rng.random() < 0.2 else "GET"
    body = b"x" * rng.choice([0, 1, 17]) if method == "POST" else b""
    return {"tag": tag, "hdrs": hdrs, "beh": beh, "method": method, "body": body}


def gen_case(rng, engine):
    trusted = rng.choice(TRUSTED_SETS)
    app = rng.choice(["callable", "web"])
    n = rng.choice([1, 2, 2, 3, 3, 4, 5])
    reqs = [gen_request(rng, i, trusted, app) for i in range(n)]
    fam = "unix" if engine == "vloop" else rng.choice(["inet", "inet", "inet6"])
    return {"engine": engine, "app": app, "trusted": trusted, "protocol": rng.choice([None, None, "https"]),
            "family": fam, "mode": rng.choice(["seq", "pipe"]), "reqs": reqs,
            "host": rng.choice(["example.com", "example.com:8080", "127.0.0.1"])}


def shards(tier, seed):
    q = tier == "quick"
    out = []
    for j in range(10):
        out.append({"engine": "vloop", "n": 650 if q else 20000, "j": j})
    for j in range(6):
        out.append({"engine": "real", "n": 350 if q else 9000, "j": j})
    return out


def gen_cases(spec):
    rng = core.rng_for(spec["seed"], PROP, f"{spec['engine']}:{spec['j']}")
    for _ in range(spec["n"]):
        yield gen_case(rng, spec["engine"])


def directed_cases():
    def rq(tag, *hdrs, beh="ok"):
        return {"tag": tag, "hdrs": [(k, n, v) for k, n, v in hdrs], "beh": beh, "method": "GET", "body": b""}
    # leak probes: a request with headers followed by one without
    for app in ("callable", "web"):
        for mode in ("seq", "pipe"):
            yield {"engine": "vloop", "app": app, "trusted": [], "protocol": None, "family": "unix", "mode": mode,
                   "host": "example.com",
                   "reqs": [rq(0, ("real", "X-Real-Ip", "1.2.3.4"), ("scheme", "X-Scheme", "https")), rq(1),
                            rq(2, ("xff", "X-Forwarded-For", "9.9.9.9, 8.8.8.8")), rq(3)]}
    # dotted quads that are no numeric IP for inet_pton / inet_aton: the socket address must be reported.
    # "10.\xb2.0.0" is the witness of fixes/C32-is-valid-ip-non-ascii-digits (idna NFKC turned the superscript into "2")
    yield {"engine": "vloop", "app": "callable", "trusted": [], "protocol": None, "family": "unix", "mode": "seq",
           "host": "example.com",
           "reqs": [rq(0, ("real", "X-Real-Ip", "10.\xb2.0.0")), rq(1, ("xff", "X-Forwarded-For", "1.2.3.4, 10.0.0.08")),
                    rq(2, ("real", "X-Real-Ip", "09.9.9.9")), rq(3, ("xff", "X-Forwarded-For", "1.2.3.256")),
                    rq(4, ("real", "X-Real-Ip", "1.2.3.\xb9"), ("xff", "X-Forwarded-For", "1.018.3.4"))]}
    yield {"engine": "vloop", "app": "web", "trusted": ["10.0.0.1"], "protocol": None, "family": "unix", "mode": "seq",
           "host": "example.com",
           "reqs": [rq(0, ("xff", "X-Forwarded-For", "4.4.4.4, 10.0.0.1"), beh="raise"), rq(1),
                    rq(2, ("real", "X-Real-Ip", "5.5.5.5"), beh="404"), rq(3)]}


# ---------------------------------------------------------------------------
# applications

def make_app(kind, seen):
    if kind == "callable":
        def app(request):
            tag = request.path.rsplit("/", 1)[-1]
            seen.append((tag, request.remote_ip, request.protocol))
            body = b"ok"
            h = HTTPHeaders()
            h.add("Content-Length", str(len(body)))
            request.connection.write_headers(ResponseStartLine("HTTP/1.1", 200, "OK"), h, body)
            request.connection.finish()
        return app

    class Ok(web.RequestHandler):
        def prepare(self):
            seen.append((self.path_args[0], self.request.remote_ip, self.request.protocol))

        def get(self, tag):
            self.write("ok")

        post = get

    class Boom(web.RequestHandler):
        def prepare(self):
            seen.append((self.path_args[0], self.request.remote_ip, self.request.protocol))

        def get(self, tag):
            raise RuntimeError("c32-intentional")

        post = get

    return web.Application([(r"/r/(\d+)", Ok), (r"/raise/(\d+)", Boom)])


def request_bytes(req, host):
    path = {"ok": "/r/%d", "raise": "/raise/%d", "404": "/nowhere/%d"}[req["beh"]] % req["tag"]
    lines = [f"{req['method']} {path} HTTP/1.1", f"Host: {host}"]
    for _k, name, v in req["hdrs"]:
        lines.append(f"{name}: {v}")
    if req["method"] == "POST":
        lines.append(f"Content-Length: {len(req['body'])}")
    return ("\r\n".join(lines) + "\r\n\r\n").encode("latin-1") + req["body"]


def parse_responses(buf, methods):
    """Number of complete responses at the front of buf (strict reader)."""
    n, rest = 0, bytes(buf)
    out = []
    for m in methods:
        if not rest:
            break
        try:
            r = rh.read_response(rest, m, eof=False)
        except rh.Incomplete:
            break
        out.append(r)
        rest = r.rest
        n += 1
    return out


# ---------------------------------------------------------------------------
# engines

async def run_vloop(case, seen):
    rig = ServerRig(make_app(case["app"], seen), record=False, xheaders=True,
                    trusted_downstream=case["trusted"] or None, protocol=case["protocol"])
    peer = rig.connect()
    methods = [r["method"] for r in case["reqs"]]
    blobs = [request_bytes(r, case["host"]) for r in case["reqs"]]
    got = []
    try:
        if case["mode"] == "pipe":
            await peer.send(b"".join(blobs))
            for _ in range(60):
                got = parse_responses(peer.rx, methods)
                if len(got) == len(methods) or peer.eof:
                    break
                await peer.drain(1)
        else:
            for i, b in enumerate(blobs):
                await peer.send(b)
                for _ in range(60):
                    got = parse_responses(peer.rx, methods)
                    if len(got) > i or peer.eof:
                        break
                    await peer.drain(1)
                if len(got) <= i:
                    break
    finally:
        peer.close()
        await rig.close()
    return got


class RealRig:
    """Persistent real-loop servers for one shard (one per configuration and address family)."""

    def __init__(self):
        self.loop = asyncio.new_event_loop()
        self.servers = {}
        self.seen = []

    def server_for(self, case):
        key = (case["app"], tuple(case["trusted"]), case["protocol"], case["family"])
        if key not in self.servers:
            fam = socket.AF_INET if case["family"] == "inet" else socket.AF_INET6
            addr = "127.0.0.1" if case["family"] == "inet" else "::1"
            socks = bind_sockets(0, addr, family=fam)
            srv = HTTPServer(make_app(case["app"], self.seen), xheaders=True,
                             trusted_downstream=case["trusted"] or None, protocol=case["protocol"])
            srv.add_sockets(socks)
            self.servers[key] = (srv, fam, addr, socks[0].getsockname()[1])
        return self.servers[key]

    async def run(self, case):
        srv, fam, addr, port = self.server_for(case)
        del self.seen[:]
        loop = asyncio.get_running_loop()
        s = socket.socket(fam, socket.SOCK_STREAM)
        s.setblocking(False)
        methods = [r["method"] for r in case["reqs"]]
        blobs = [request_bytes(r, case["host"]) for r in case["reqs"]]
        buf = bytearray()
        got = []
        try:
            await loop.sock_connect(s, (addr, port))
            local = s.getsockname()[0]
            groups = [b"".join(blobs)] if case["mode"] == "pipe" else blobs
            want = len(methods) if case["mode"] == "pipe" else 0
            for b in groups:
                await loop.sock_sendall(s, b)
                if case["mode"] != "pipe":
                    want += 1
                while True:
                    got = parse_responses(buf, methods)
                    if len(got) >= want:
                        break
                    d = await loop.sock_recv(s, 65536)
                    if not d:
                        break
                    buf += d
                if len(got) < want:
                    break
        finally:
            s.close()
        return got, local

    def close(self):
        async def shut():
            for srv, *_ in self.servers.values():
                srv.stop()
                await srv.close_all_connections()
        try:
            self.loop.run_until_complete(shut())
        finally:
            self.loop.close()


_REAL = None


def real_rig():
    global _REAL
    if _REAL is None:
        _REAL = RealRig()
        asyncio.set_event_loop(_REAL.loop)
        # tornado binds IOLoop.current() to the running asyncio loop lazily; start the servers inside run()
    return _REAL


def finish_shard(spec, ctx):
    global _REAL
    if _REAL is not None:
        _REAL.close()
        _REAL = None
        asyncio.set_event_loop(None)


_BASELINE = {}


def unix_baseline(protocol):
    """What a header-less request reports on a fresh AF_UNIX connection (the 'socket address')."""
    if protocol not in _BASELINE:
        seen = []
        case = {"app": "callable", "trusted": [], "protocol": protocol, "mode": "seq", "host": "example.com",
                "reqs": [{"tag": 0, "hdrs": [], "beh": "ok", "method": "GET", "body": b""}]}
        vloop.run(run_vloop, case, seen, collect=False)
        _BASELINE[protocol] = (seen[0][1], seen[0][2])
    return _BASELINE[protocol]


# ---------------------------------------------------------------------------
# judgement

def nontrivial(case):
    reqs = case["reqs"]
    for i, r in enumerate(reqs):
        if r["hdrs"]:
            sig = sorted((k, v) for k, _n, v in r["hdrs"])
            for later in reqs[i + 1:]:
                if sorted((k, v) for k, _n, v in later["hdrs"]) != sig:
                    return True
    return False


def run_case(case, ctx):
    seen = []
    with LogMon() as lm:
        if case["engine"] == "vloop":
            sock_ip, sock_proto = unix_baseline(case["protocol"])
            if not isinstance(sock_ip, str) or sock_proto not in ("http", "https"):
                ctx.violation("baseline/not-a-string-or-scheme", "header-less request on a fresh connection reports "
                              "a remote_ip that is no string or a protocol outside {http, https}",
                              {"remote_ip": repr(sock_ip), "protocol": repr(sock_proto)})
                return
            got = vloop.run(run_vloop, case, seen, collect=False)
            ctx.count("unix_requests", len(case["reqs"]))
        else:
            rig = real_rig()

            async def go():
                return await asyncio.wait_for(rig.run(case), 60)  # watchdog only: expiry => harness error
            got, local = rig.loop.run_until_complete(go())
            seen = list(rig.seen)
            sock_ip = local
            sock_proto = case["protocol"] or "http"
            ctx.count("inet_requests", len(case["reqs"]))
    ctx.mark((case["engine"], case["app"], tuple(case["trusted"]), case["protocol"], case["mode"],
              b"".join(request_bytes(r, case["host"]) for r in case["reqs"])), nontrivial(case))
    if nontrivial(case):
        ctx.sample({"trusted": case["trusted"], "mode": case["mode"],
                    "requests": [[(n, v) for _k, n, v in r["hdrs"]] for r in case["reqs"]]})
    if case["mode"] == "pipe":
        ctx.count("pipelined_sequences")
    by_tag = {}
    for tag, ip, proto in seen:
        by_tag.setdefault(str(tag), []).append((ip, proto))
    if len(got) < len(case["reqs"]):
        ctx.count("incomplete_sequences")
    prev_had_headers = False
    for i, r in enumerate(case["reqs"]):
        obs = by_tag.get(str(r["tag"]))
        lines = {"real": [], "xff": [], "scheme": [], "proto": []}
        for k, _n, v in r["hdrs"]:
            lines[k].append(v.strip(" \t"))
        if r["beh"] == "404" or obs is None:
            ctx.count("unobserved_requests")
            prev_had_headers = prev_had_headers or bool(r["hdrs"])
            continue
        ip, proto = obs[0]
        must, allowed = xr.resolve_ip(sock_ip, lines["real"], lines["xff"], case["trusted"])
        pmust, pallowed = xr.resolve_protocol(sock_proto, lines["scheme"], lines["proto"])
        wit = {"request_index": i, "headers": [(n, v) for _k, n, v in r["hdrs"]],
               "earlier_requests": [[(n, v) for _k, n, v in q["hdrs"]] for q in case["reqs"][:i]],
               "trusted_downstream": case["trusted"], "socket_address": sock_ip, "socket_protocol": sock_proto,
               "remote_ip": ip, "protocol": proto, "mode": case["mode"], "app": case["app"], "engine": case["engine"]}
        ctx.count("oracle_evals")
        if prev_had_headers and not (lines["real"] or lines["xff"]):
            ctx.count("leak_candidates")
        klass = ("after-headered-request" if prev_had_headers else "first-or-after-plain")
        if ip not in allowed:
            if any(ip in (v.strip(" \t") for _k, _n, v in q["hdrs"]) or
                   ip in xr.split_list([v for k, _n, v in q["hdrs"] if k in ("real", "xff")])
                   for q in case["reqs"][:i]):
                ctx.violation("remote_ip/value-from-earlier-request", "remote_ip carries a value that only an earlier "
                              "request on the connection supplied", wit)
            elif isinstance(ip, str) and ip in xr.split_list(lines["real"] + lines["xff"]):
                # shape of the accepted text (different validators fail on different shapes)
                shape = ("/non-ascii-text" if not ip.isascii() else
                         "/digits-and-dots" if ip and all(c in "0123456789." for c in ip) else "")
                ctx.violation("remote_ip/non-numeric-header-value-accepted" + shape,
                              "remote_ip was taken from a proxy header although it is not a numeric IP address", wit)
            else:
                ctx.violation("remote_ip/neither-socket-address-nor-header-entry",
                              "remote_ip is neither the socket address nor an entry of this request's proxy headers", wit)
        elif must is not None and ip != must:
            if lines["real"]:
                ctx.count("must_real_ip")
                ctx.violation(f"remote_ip/x-real-ip-not-used/{klass}", "a numeric X-Real-Ip was not used as remote_ip", wit)
            elif lines["xff"]:
                ctx.count("must_xff")
                if ip == sock_ip:
                    ctx.violation(f"remote_ip/x-forwarded-for-not-used/{klass}",
                                  "a numeric right-most untrusted X-Forwarded-For entry was not used", wit)
                else:
                    ctx.violation(f"remote_ip/wrong-x-forwarded-for-entry/{klass}",
                                  "remote_ip is not the right-most X-Forwarded-For entry outside trusted_downstream", wit)
            else:
                ctx.count("must_sock")
                ctx.violation(f"remote_ip/not-socket-address-without-proxy-headers/{klass}",
                              "a request without proxy headers does not report the socket address", wit)
        else:
            if must is None:
                ctx.count("unspecified_ip_choice")
            elif lines["real"]:
                ctx.count("must_real_ip")
            elif lines["xff"]:
                ctx.count("must_xff")
            else:
                ctx.count("must_sock")
        ctx.count("protocol_evals")
        if proto not in ("http", "https"):
            ctx.violation("protocol/not-http-or-https", "request.protocol is neither http nor https", wit)
        elif proto not in pallowed:
            ctx.violation("protocol/value-not-from-this-request", "request.protocol is neither the connection's scheme "
                          "nor named by this request's scheme headers", wit)
        elif pmust is not None and proto != pmust:
            ctx.violation(f"protocol/not-connection-scheme-without-headers/{klass}",
                          "a request without scheme headers does not report the connection's scheme", wit)
        elif pmust is None:
            ctx.count("unspecified_protocol_choice")
        prev_had_headers = prev_had_headers or bool(r["hdrs"])
    bad = [x for x in lm.uncaught() if "c32-intentional" not in (x.get("exc_text") or "") + x.get("msg", "")]
    ctx.check(not bad, "log/uncaught-exception", "an uncaught exception was logged while serving proxy-header requests",
              {"records": bad[:3], "requests": [[(n, v) for _k, n, v in r["hdrs"]] for r in case["reqs"]]})
