"""C04 — server size limits bound what a peer can make the application buffer.

Arithmetic oracle on generated sizes: header blocks and bodies (Content-Length,
chunked with several chunk splits, gzip with decompress_request incl. bombs) are
built to sit at limit-1 / limit / limit+1 / far above each configured limit
(server-wide max_body_size, per-request set_max_body_size override lower and
higher, max_header_size).  The REAL HTTPServer is driven over a socketpair on
the virtual loop; a recording HTTPMessageDelegate proxy gives the bytes handed
to the application.  Within-limit => exact delivery + 200 + the connection
keeps working; over-limit => no finish, delivered <= limit, 400-or-close, then
EOF and nothing afterwards.
"""
from __future__ import annotations

import gzip as gzip_mod
import hashlib

from vf import core, logmon, vloop, wire
from vf.refs import http as resp_ref

core.use_repo()
from tornado import httputil, web  # noqa: E402

PROP = "C04"
META = {
    "level": "exploration",
    "technique": "boundary-value generation around every size limit with an arithmetic oracle over bytes handed to the "
                 "application (recording delegate), peer-visible refusal and connection fate",
    "level_text": "Header blocks and bodies are generated at limit-1/limit/limit+1/2x/100x for each of max_header_size, "
                  "max_body_size (values from 0 = no request body accepted, up to 64 KiB) and a per-request set_max_body_size override (lower and higher, set in headers_received "
                  "of a raw delegate and in prepare() of a @stream_request_body handler), for Content-Length, chunked "
                  "(one chunk, 1-byte chunks, a chunk straddling the limit), a repeated Content-Length (two/three field lines, "
                  "'N, N' lists) and gzip bodies (1:1, zero bombs, wire size at "
                  "the limit, multi-member) under several segmentations; plus request histories on one kept-alive connection "
                  "(2-3 request/response exchanges mixing requests with and without the per-request override, the last one "
                  "probing the limit in force for it; server-wide limit given by max_body_size or only by max_buffer_size); the sum of data_received lengths, finish/close, "
                  "status and EOF are compared with what the arithmetic demands.",
    "level_note": "Sizes are sampled at boundaries, not exhaustive. Header-block size is ambiguous by a request line: heads "
                  "that exceed max_header_size only when the request line and final CRLF are counted are UNSPECIFIED. "
                  "Multi-member gzip bodies are only safety-checked (delivered <= limit).",
    "design_ref": "DESIGN.md §4 C04",
    "engine": "wire",
}
RULE = ("cases are (limit configuration incl. the limit value 0, framing, size, override, handler, schedule); sizes are limit-1, limit, limit+1, 2x, "
        "100x of the effective limit (decoded size, and wire size for gzip); 'seq' cases are histories of 2-3 exchanges on one "
        "connection ((max_body_size | max_buffer_size only), override higher/lower, which requests carry the override, probe "
        "size around both limits); non-trivial = size within +-1 of a limit or a "
        "gzip ratio > 10; distinct by the parameter tuple")
FLOORS = {"quick": 600, "thorough": 8000}
ASSUMPTIONS = [
    "effective body limit = per-request set_max_body_size value if the delegate/handler sets one, else max_body_size",
    "for gzip with decompress_request both the wire size and the decompressed size must be within the limit to be 'within limits'",
    "header block size H = request line + field lines + blank line; refusal is demanded only when the field lines alone exceed the limit",
    "a per-request override applies to the request whose delegate set it and to no later request on the connection",
    "without max_body_size the server-wide body limit is the connection stream's max_buffer_size (HTTPServer(max_buffer_size=N); "
    "the rig builds the accepted stream with that max_buffer_size as TCPServer does)",
    "histories are request/response exchanges, not pipelines: bytes sent ahead of the request being served fall under the "
    "stream's read-ahead cap (connection closed at max_buffer_size), which is not judged here",
    "a repeated identical Content-Length within the limit is accept-or-reject (RFC 9110 8.6); above the limit it must be refused either way",
]
REQUIRED_COUNTERS = ["oracle_evals", "must_accept", "must_refuse", "delivered_bound_evals", "header_cases", "gzip_cases",
                     "override_cases", "history_cases", "history_limit_from_max_buffer_size", "history_refused_last",
                     "history_all_within"]
SHARD_TIMEOUT = {"quick": 240, "thorough": 3000}

# 0 is a limit value like any other ("accept no request body at all"): every non-empty body is larger than it
LIMITS = [0, 1, 7, 64, 1000, 65536]
HEADER_LIMITS = [64, 300, 4096, 65536]
FRAMINGS = ["cl", "chunked1", "chunked-bytes", "chunked-straddle", "gzip-cl", "gzip-chunked", "gzip-bomb", "gzip-wire",
            "gzip-multi", "cl-dup-lines", "cl-dup-list"]
# a declared size that is repeated (RFC 9110 8.6: "Content-Length: 42, 42" may be rejected or used as 42): as two field
# lines, or as one list in the spellings proxies produce
DUP_LIST_STYLES = [b"%d, %d", b"%d,%d", b"%d, %d, %d", b"%d,  %d", b"%d ,%d"]
REQ_LINE = b"POST /u HTTP/1.1\r\n"
FOLLOW = b"GET /follow HTTP/1.1\r\nHost: x\r\n\r\n"


def _det(n, salt=b"c04"):
    out = bytearray()
    i = 0
    while len(out) < n:
        out += hashlib.sha256(salt + i.to_bytes(4, "big")).digest()
        i += 1
    return bytes(out[:n])


def _gz(b, level=6):
    return gzip_mod.compress(b, compresslevel=level, mtime=0)


def sizes_for(L, big_cap=300000):
    s = {max(0, L - 1), L, L + 1, 2 * L, min(100 * L, big_cap)}
    if L > 2:
        s.add(L // 2)
    if L == 0:
        # multiples of 0 collapse onto the limit itself: add explicit "above" and "far above" sizes (past one
        # read chunk, too), as every other limit value gets through 2x / 100x
        s |= {2, 3, 100, 5000, 70000}
    return sorted(x for x in s)


# ---------------------------------------------------------------------------
# case construction

def build_body(case):
    """Returns (header fields [(k, v)], wire bytes, decoded bytes, W, D, note)."""
    fr = case["framing"]
    D = case["size"]
    E = case["E"]
    hdrs = []
    if fr in ("cl", "chunked1", "chunked-bytes", "chunked-straddle", "cl-dup-lines", "cl-dup-list"):
        decoded = _det(D)
        payload = decoded
    elif fr in ("gzip-cl", "gzip-chunked"):
        decoded = _det(D)                       # incompressible: wire slightly larger than decoded
        payload = _gz(decoded)
        hdrs.append((b"Content-Encoding", b"gzip"))
    elif fr == "gzip-bomb":
        decoded = b"\0" * D
        payload = _gz(decoded, 9)
        hdrs.append((b"Content-Encoding", b"gzip"))
    elif fr == "gzip-wire":
        # wire size W == case["size"] exactly (decoded smaller): the declared-size limit applies to the wire bytes
        decoded = payload = None
        for d in range(max(0, D - 60), D + 1):
            p = _gz(_det(d), 0)
            if len(p) == D:
                decoded, payload = _det(d), p
                break
        if payload is None:
            return None
        hdrs.append((b"Content-Encoding", b"gzip"))
    elif fr == "gzip-multi":
        # k = 2..4 members.  Mostly *compressible* content, so that the wire size stays within the limit while the
        # members only add up past it (each member alone is under the limit): the decoded total is what is bounded.
        k = 2 + D % 3
        decoded = _det(D) if D % 4 == 3 else (_det(48) * (D // 48 + 1))[:D]
        step = -(-D // k) if D else 0
        members = [decoded[i:i + step] for i in range(0, D, step)] if D else [b"", b""]
        payload = b"".join(_gz(m) for m in members)
        hdrs.append((b"Content-Encoding", b"gzip"))
    else:
        raise ValueError(fr)
    W = len(payload)
    if fr == "cl-dup-lines":
        n = 2 + case.get("sseed", 0) % 2
        hdrs += [(b"Content-Length", str(W).encode())] * n
        wire_body = payload
    elif fr == "cl-dup-list":
        style = DUP_LIST_STYLES[case.get("sseed", 0) % len(DUP_LIST_STYLES)]
        hdrs.append((b"Content-Length", style % ((W,) * style.count(b"%d"))))
        wire_body = payload
    elif fr in ("cl", "gzip-cl", "gzip-bomb", "gzip-wire", "gzip-multi"):
        hdrs.append((b"Content-Length", str(W).encode()))
        wire_body = payload
    else:
        hdrs.append((b"Transfer-Encoding", b"chunked"))
        if fr == "chunked1" or W == 0:
            parts = [payload] if W else []
        elif fr == "chunked-bytes":
            parts = [payload[i:i + 1] for i in range(W)]
        elif fr == "chunked-straddle":
            # first chunk ends just below the effective limit, the second crosses it
            a = max(1, min(W - 1, E - 1)) if W > 1 else W
            parts = [payload[:a], payload[a:]] if W > 1 else [payload]
            parts = [p for p in parts if p]
        else:   # gzip-chunked: three chunks
            a, b = W // 3, 2 * W // 3
            parts = [p for p in (payload[:a], payload[a:b], payload[b:]) if p]
        wire_body = b"".join(b"%x\r\n" % len(p) + p + b"\r\n" for p in parts) + b"0\r\n\r\n"
    return hdrs, wire_body, decoded, W, len(decoded)


def build_header_case(case):
    """Head of exactly case['H'] bytes (terminated) built from padding fields."""
    H = case["H"]
    base = b"GET /h HTTP/1.1\r\n" + b"Host: x\r\n"
    need = H - len(base) - 2
    if need < 0:
        return None
    lines = b""
    if case["pad"] == "many":
        while need - len(lines) >= 6 + 6:
            lines += b"P: a\r\n"
    rest = need - len(lines)
    if rest == 0:
        pass
    elif rest >= 5:
        lines += b"Q: " + b"a" * (rest - 5) + b"\r\n"
    else:
        return None
    head = base + lines + b"\r\n"
    assert len(head) == H
    return head, len(base) - 17 + len(lines)       # F = field lines only (without request line "GET /h HTTP/1.1\r\n" = 17 bytes)


def shards(tier, seed):
    out = [{"kind": "header"}]
    for j in range(2 if tier == "quick" else 8):
        out.append({"kind": "seq", "j": j, "of": 2 if tier == "quick" else 8})
    if tier == "quick":
        for L in LIMITS:
            out.append({"kind": "body", "L": L, "override": False})
            out.append({"kind": "body", "L": L, "override": True})
    else:
        for L in LIMITS:
            for fr in FRAMINGS:
                out.append({"kind": "body", "L": L, "override": False, "framings": [fr]})
                out.append({"kind": "body", "L": L, "override": True, "framings": [fr]})
        out.append({"kind": "header", "more": True})
    return out


def gen_cases(spec):
    tier = spec["tier"]
    rng = core.rng_for(spec["seed"], PROP, f'{spec["kind"]}{spec.get("L")}{spec.get("override")}{spec.get("framings")}{spec.get("more")}'
                       + (f'{spec["j"]}' if spec["kind"] == "seq" else ""))
    if spec["kind"] == "header":
        for M in HEADER_LIMITS:
            hs = {M - 1, M, M + 1, M + 18, M + 19, M + 20, 2 * M, min(100 * M, 400000), max(27, M // 2)}
            if spec.get("more"):
                hs |= {M + d for d in range(-5, 40)}
            for H in sorted(hs):
                for pad in ("one", "many"):
                    for term in (True, False):
                        if H > 70000 and pad == "many" and not spec.get("more"):
                            continue
                        for sched in (["whole", "random"] if tier == "quick" else ["whole", "random", "bytes", "mix"]):
                            yield {"kind": "header", "M": M, "H": H, "pad": pad, "terminated": term, "sched": sched,
                                   "sseed": rng.getrandbits(30)}
        return
    if spec["kind"] == "seq":
        yield from gen_seq(spec, rng, tier)
        return
    L = spec["L"]
    framings = spec.get("framings") or FRAMINGS
    if spec["override"]:
        # (server limit, override): lower and higher than the server-wide value
        confs = [(4 * L + 100, L), (max(0, L // 4), L)]
        if L >= 64:
            confs.append((L * 2, L))
    else:
        confs = [(L, None)]
    for Ls, Lo in confs:
        E = L
        for fr in framings:
            if fr == "chunked-bytes" and L > 1000:
                continue
            szs = sizes_for(E, 200000 if fr != "gzip-bomb" else 2000000)
            if fr == "gzip-bomb":
                szs = sorted(set(szs) | {min(1000 * E, 2000000)})
            if fr == "chunked-bytes":
                szs = [s for s in szs if s <= 3000]
            for S in szs:
                hows = ["raw", "stream"] if (spec["override"] or tier == "thorough") else ["raw"]
                for how in hows:
                    css = [None]
                    if tier == "thorough":
                        css = [None, 1, 16] if E <= 1000 else [None, 16]
                    elif fr.startswith("gzip") and S <= 3000:
                        css = [None, 16]
                    for cs in css:
                        if cs == 1 and S > 3000:
                            continue
                        scheds = ["whole", "random"] if tier == "quick" else ["whole", "random", "bytes", "mix"]
                        for sched in scheds:
                            yield {"kind": "body", "Ls": Ls, "Lo": Lo, "E": E, "framing": fr, "size": S, "how": how,
                                   "chunk_size": cs, "sched": sched, "sseed": rng.getrandbits(30)}


# --- request histories on ONE kept-alive connection ------------------------------------------------------------
# The limit that applies to a request is the per-request override if ITS delegate set one, else the server-wide
# limit - whatever earlier requests on the connection did.  Server-wide limit: max_body_size, or, when that is not
# given, the connection stream's max_buffer_size (HTTPServer(max_buffer_size=N) alone).
SEQ_LIMITS = {"quick": [64, 1000], "thorough": [64, 1000, 5000, 20000]}
SEQ_KEEP = {"quick": 0.15, "thorough": 0.33}      # the product below is thinned at random (deterministic per seed)
SEQ_PROBE_FRAMINGS = ["cl", "chunked1", "chunked-straddle", "gzip-cl", "cl-dup-lines", "cl-dup-list"]
SEQ_EARLIER_FRAMINGS = ["cl", "chunked1", "chunked-straddle", "gzip-cl"]


def seq_configs(S):
    """(max_body_size, max_buffer_size) pairs whose server-wide body limit is S."""
    return [(None, S + 300 if S < 300 else S), (S, None), (S, 4 * S + 300), (S, max(300, S // 2))]


def seq_server_limit(Ls, N):
    return Ls if Ls is not None else N


def gen_seq(spec, rng, tier):
    k = 0
    for S0 in SEQ_LIMITS[tier]:
        for Ls, N in seq_configs(S0):
            S = seq_server_limit(Ls, N)
            for Lo in (4 * S + 100, S + 1, max(0, S // 4), S - 1):
                lo, hi = min(S, Lo), max(S, Lo)
                # the last request probes a limit; the earlier ones are within theirs (so the connection is kept)
                probe_sizes = sorted({lo - 1, lo, lo + 1, (lo + hi) // 2, hi - 1, hi, hi + 1, 2 * hi})
                within_u = sorted({Lo, min(Lo, S + 1), Lo // 2})       # sizes that use the override
                shapes = [("u", "p"), ("u", "u"), ("p", "u"), ("u", "p", "p"), ("p", "u", "p"), ("u", "u", "p")]
                for shape in shapes:
                    for ps in probe_sizes:
                        for pf in SEQ_PROBE_FRAMINGS:
                            k += 1
                            if k % spec["of"] != spec["j"]:
                                continue
                            if rng.random() >= SEQ_KEEP[tier]:
                                continue
                            reqs = []
                            for who in shape[:-1]:
                                size = rng.choice(within_u) if who == "u" else rng.choice([S, S - 1, S // 2])
                                fr = rng.choice(SEQ_EARLIER_FRAMINGS)
                                if fr == "gzip-cl":
                                    size = max(0, size - 40)      # the wire form of an incompressible body is ~23 bytes longer
                                reqs.append([who, fr, size])
                            reqs.append([shape[-1], pf, ps])
                            how = rng.choice(["raw", "stream"])
                            sched = rng.choice(["whole", "random"] if tier == "quick" else ["whole", "random", "bytes", "mix"])
                            yield {"kind": "seq", "Ls": Ls, "N": N, "Lo": Lo, "reqs": reqs, "how": how, "sched": sched,
                                   "sseed": rng.getrandbits(30)}


def directed_cases():
    # DESIGN §5: per-request override lower than the server limit + gzip body
    yield {"kind": "body", "Ls": 100000, "Lo": 50, "E": 50, "framing": "gzip-bomb", "size": 1000, "how": "raw",
           "chunk_size": None, "sched": "whole", "sseed": 1}
    yield {"kind": "body", "Ls": 100000, "Lo": 50, "E": 50, "framing": "gzip-bomb", "size": 1000, "how": "stream",
           "chunk_size": None, "sched": "whole", "sseed": 2}
    # ... and higher: a body within the raised limit
    yield {"kind": "body", "Ls": 20, "Lo": 5000, "E": 5000, "framing": "gzip-bomb", "size": 4000, "how": "raw",
           "chunk_size": None, "sched": "whole", "sseed": 3}
    # a repeated Content-Length above the limit (two field lines / one list)
    yield {"kind": "body", "Ls": 4096, "Lo": None, "E": 4096, "framing": "cl-dup-lines", "size": 4097, "how": "stream",
           "chunk_size": None, "sched": "whole", "sseed": 4}
    yield {"kind": "body", "Ls": 4096, "Lo": None, "E": 4096, "framing": "cl-dup-list", "size": 50000, "how": "raw",
           "chunk_size": None, "sched": "random", "sseed": 5}
    # limit given only by max_buffer_size; a request that raised its own limit, then an ordinary over-limit request
    yield {"kind": "seq", "Ls": None, "N": 16384, "Lo": 200000, "reqs": [["u", "cl", 100000], ["p", "cl", 50000]],
           "how": "stream", "sched": "whole", "sseed": 6}
    yield {"kind": "seq", "Ls": None, "N": 16384, "Lo": 200000, "reqs": [["u", "chunked1", 16385], ["p", "chunked-straddle", 16385]],
           "how": "raw", "sched": "random", "sseed": 7}


# ---------------------------------------------------------------------------
# targets

class RawDelegate(httputil.HTTPServerConnectionDelegate):
    def __init__(self, override):
        self.override = override

    def start_request(self, server_conn, request_conn):
        return RawMsg(self, request_conn)

    def on_close(self, server_conn):
        pass


class RawMsg(httputil.HTTPMessageDelegate):
    def __init__(self, owner, conn):
        self.o, self.conn = owner, conn
        self.first = None

    def headers_received(self, start_line, headers):
        if self.o.override is not None and start_line.path == "/u":
            self.conn.set_max_body_size(self.o.override)

    def data_received(self, chunk):
        pass

    def finish(self):
        self.conn.write_headers(httputil.ResponseStartLine("HTTP/1.1", 200, "OK"),
                                httputil.HTTPHeaders({"Content-Length": "0"}))
        self.conn.finish()

    def on_connection_close(self):
        pass


def make_stream_app(override):
    @web.stream_request_body
    class H(web.RequestHandler):
        def prepare(self):
            if override is not None and self.request.path == "/u":
                self.request.connection.set_max_body_size(override)

        def data_received(self, chunk):
            pass

        def post(self):
            self.set_header("Content-Length", "0")
        get = post
    return web.Application([(r"/.*", H)])


def execute(stream, case, server_kw, target, stream_kw=None):
    obs = {}
    rng = core.rng_for(case["sseed"], PROP, "sched")
    total = len(stream)
    sched = case["sched"]
    cuts, plan = None, None
    if sched == "random":
        cuts = wire.cuts_for(rng, total, "random")
    elif sched == "bytes":
        cuts = wire.cuts_for(rng, total, "bytes") if total <= 800 else wire.cuts_for(rng, total, "random")
    elif sched == "mix":
        cuts = wire.cuts_for(rng, total, "random")
        plan = wire.read_plan_for(rng, "mix", 200)

    async def main():
        rig = wire.ServerRig(target, read_plan=plan, stream_kw=stream_kw, **server_kw)
        peer = rig.connect()
        await peer.send(stream, cuts)
        await peer.drain(3)
        obs["eof_before_halfclose"] = peer.eof
        obs["rx_before_halfclose"] = bytes(peer.rx)
        peer.half_close()
        await peer.drain(3)
        obs["rx"] = bytes(peer.rx)
        obs["eof"] = peer.eof
        obs["log"] = rig.log
        await rig.close()
        peer.close()

    try:
        vloop.run(main, collect=False)
    except vloop.Quiescent:
        obs["quiescent"] = True
    return obs


def execute_seq(parts, case, server_kw, target, stream_kw=None):
    """Request/response exchanges one after the other on one connection (no pipelining: bytes a peer sends ahead of the
    request being served are subject to the stream's read-ahead policy, which is not what is examined here)."""
    obs = {"sent_parts": 0}
    rng = core.rng_for(case["sseed"], PROP, "sched")
    sched = case["sched"]

    def cuts_plan(total):
        if sched == "random" or (sched in ("bytes", "mix") and total > 800):
            return wire.cuts_for(rng, total, "random")
        if sched == "bytes":
            return wire.cuts_for(rng, total, "bytes")
        if sched == "mix":
            return wire.cuts_for(rng, total, "random")
        return None

    plan = wire.read_plan_for(rng, "mix", 200) if sched == "mix" else None

    async def main():
        rig = wire.ServerRig(target, read_plan=plan, stream_kw=stream_kw, **server_kw)
        peer = rig.connect()
        for i, part in enumerate(parts):
            await peer.send(part, cuts_plan(len(part)))
            obs["sent_parts"] = i + 1
            for _ in range(8):
                await peer.drain(1)
                if peer.eof or bytes(peer.rx).count(b"\r\n\r\n") > i:
                    break
            if peer.eof or peer.send_error is not None:
                break
        await peer.drain(3)
        obs["eof_before_halfclose"] = peer.eof
        peer.half_close()
        await peer.drain(3)
        obs["rx"] = bytes(peer.rx)
        obs["eof"] = peer.eof
        obs["log"] = rig.log
        await rig.close()
        peer.close()

    try:
        vloop.run(main, collect=False)
    except vloop.Quiescent:
        obs["quiescent"] = True
    return obs


def statuses_of(rx):
    out, rest = [], rx
    while rest:
        try:
            r = resp_ref.read_response(rest, "GET", eof=True)
        except (resp_ref.Reject, resp_ref.Unspec, resp_ref.Incomplete):
            out.append("garbage")
            break
        out.append(r.status)
        rest = r.rest
        if r.framing == "close":
            break
    return out


def summarise(log):
    per = {}
    for e in log:
        if e[0] == "conn_close":
            continue
        p = per.setdefault(e[1], {"headers": 0, "n": 0, "data": [], "finish": 0, "close": 0})
        if e[0] == "headers":
            p["headers"] += 1
        elif e[0] == "data":
            p["n"] += len(e[2])
            p["data"].append(e[2])
        elif e[0] == "finish":
            p["finish"] += 1
        elif e[0] == "close":
            p["close"] += 1
    return per


def expect_of(fr, W, D, E):
    """Arithmetic expectation for one request with wire size W / decoded size D under the effective limit E."""
    if fr == "gzip-multi":
        return "unspec"
    if fr.startswith("gzip"):
        return "accept" if (W <= E and D <= E) else "refuse"
    if fr.startswith("cl-dup"):
        # over the limit it is refused whichever way the repeated value is read (invalid, or too long); within the
        # limit RFC 9110 8.6 lets the recipient reject it or use the single value
        return "optional" if D <= E else "refuse"
    return "accept" if D <= E else "refuse"


def cls_of(fr, override):
    if fr.startswith("gzip"):
        return "gzip-override" if override else "gzip"
    if fr.startswith("chunked"):
        return "chunked"
    return "cl-repeated" if fr.startswith("cl-dup") else "cl"


def run_case(case, ctx):
    if case["kind"] == "header":
        return run_header(case, ctx)
    if case["kind"] == "seq":
        return run_seq(case, ctx)
    built = build_body(case)
    if built is None:
        ctx.count("unbuildable")
        return
    hdrs, wire_body, decoded, W, D = built
    fr = case["framing"]
    E, Ls, Lo = case["E"], case["Ls"], case["Lo"]
    is_gzip = fr.startswith("gzip")
    head = REQ_LINE + b"Host: x\r\n" + b"".join(k + b": " + v + b"\r\n" for k, v in hdrs) + b"\r\n"
    stream = head + wire_body + FOLLOW
    server_kw = {"max_body_size": Ls}
    if is_gzip:
        server_kw["decompress_request"] = True
    if case.get("chunk_size"):
        server_kw["chunk_size"] = case["chunk_size"]
    target = RawDelegate(Lo) if case["how"] == "raw" else make_stream_app(Lo)

    # --- arithmetic expectation ---
    expect = expect_of(fr, W, D, E)

    with logmon.LogMon() as lm:
        obs = execute(stream, case, server_kw, target)
    per = summarise(obs.get("log", []))
    r0 = per.get(0, {"headers": 0, "n": 0, "data": [], "finish": 0, "close": 0})
    r1 = per.get(1)
    st = statuses_of(obs.get("rx", b""))
    cls = cls_of(fr, Lo is not None)
    wit = {"case": dict(case), "W": W, "D": D, "E": E, "expect": expect, "delivered": r0["n"], "finish": r0["finish"],
           "close": r0["close"], "statuses": st, "eof": obs.get("eof"), "head": head[:200],
           "follow_up": None if r1 is None else {k: r1[k] for k in ("headers", "finish")}}
    ctx.count("oracle_evals")
    ctx.count("framing:" + fr)
    if is_gzip:
        ctx.count("gzip_cases")
    if Lo is not None:
        ctx.count("override_cases")
        ctx.count("override_lower" if Lo < Ls else "override_higher")
    if obs.get("quiescent"):
        ctx.violation("harness/quiescent", "driver stuck", wit)
        return

    if cls == "gzip-override" and expect != "unspec":
        # One root cause, one key: the decompressed-size check using the server-wide limit captured before the
        # per-request override was set.  Recognised by the observed outcome matching the arithmetic for Ls instead of E.
        alt = "accept" if (W <= E and D <= Ls) else "refuse"
        observed = "accept" if r0["finish"] == 1 else "refuse"
        # (only away from the +-1 boundary, so that an off-by-one in some comparison never hides behind this key)
        clear = (expect == "refuse" and D > E + 1) or (expect == "accept" and W < E - 1 and D < E - 1)
        if (clear and alt != expect and observed == alt) or (E + 1 < r0["n"] <= Ls):
            ctx.count("must_accept" if expect == "accept" else "must_refuse")
            ctx.check(False, "gzip-override/decompressed-size-checked-against-server-wide-limit",
                      "with a per-request set_max_body_size override the decompressed size of a gzip body is bounded by the "
                      "server-wide max_body_size instead of the override (over-limit body delivered / within-limit body refused)",
                      wit)
            ctx.mark((case["Ls"], case["Lo"], fr, case["size"], case["how"], case.get("chunk_size"), case["sched"]), True)
            return

    # safety half, every class: never more than the effective limit
    ctx.count("delivered_bound_evals")
    ctx.check(r0["n"] <= E, f"{cls}/application-handed-more-than-the-limit",
              "sum of data_received lengths exceeds the effective max_body_size", wit)
    ctx.check(decoded.startswith(b"".join(r0["data"])), f"{cls}/delivered-bytes-not-a-prefix-of-the-body",
              "delivered body bytes are not a prefix of the (decoded) body that was sent", wit)

    if expect == "accept":
        ctx.count("must_accept")
        ok = ctx.check(r0["finish"] == 1 and r0["close"] == 0, f"{cls}/within-limit-request-refused",
                       "a request whose sizes are within every limit did not reach finish()", wit)
        if ok:
            ctx.check(b"".join(r0["data"]) == decoded, f"{cls}/within-limit-body-differs",
                      "body delivered for a within-limit request differs from what was sent", wit)
            ctx.check(st == [200, 200] and r1 is not None and r1["finish"] == 1, f"{cls}/connection-affected-after-within-limit-request",
                      "the follow-up request on the same connection was not served after a within-limit request", wit)
    elif expect == "refuse":
        ctx.count("must_refuse")
        ctx.check(r0["finish"] == 0, f"{cls}/over-limit-request-finished",
                  "a request exceeding the effective limit reached finish()", wit)
        ctx.check(st in ([], [400]), f"{cls}/refusal-answer-not-400-or-close",
                  "peer saw something other than 400 or plain close for a refused request", wit)
        ctx.check(obs.get("eof_before_halfclose") is True or obs.get("eof") is True, f"{cls}/connection-open-after-refusal",
                  "connection was not closed after refusing an over-limit request", wit)
        ctx.check(r1 is None or r1["headers"] == 0, f"{cls}/request-served-after-refusal",
                  "a request following the refused one was delivered", wit)
    elif expect == "optional":
        # accept-or-reject; an accepted one must be framed by the repeated value and leave the connection usable
        ctx.count("optional_repeated_content_length")
        if r0["finish"] == 1:
            ctx.count("optional_accepted")
            ctx.check(b"".join(r0["data"]) == decoded, f"{cls}/within-limit-body-differs",
                      "body delivered for a within-limit request differs from what was sent", wit)
            ctx.check(st == [200, 200] and r1 is not None and r1["finish"] == 1, f"{cls}/connection-affected-after-within-limit-request",
                      "the follow-up request on the same connection was not served after a within-limit request", wit)
        else:
            ctx.count("optional_refused")
            ctx.check(st in ([], [400]) and (r1 is None or r1["headers"] == 0), f"{cls}/request-served-after-refusal",
                      "a request following the refused one was delivered", wit)
    else:
        ctx.count("unspecified_multi_member_gzip")
        ctx.count("unspecified_accepted" if r0["finish"] else "unspecified_refused")
    bad = [r for r in lm.records if r["level"] in ("ERROR", "CRITICAL")]
    if bad:
        ctx.count("error_log_records(informational)")
    ratio = (D / W) if W else 0
    near = any(abs(x - E) <= 1 for x in (D, W))
    ctx.mark((case["Ls"], case["Lo"], fr, case["size"], case["how"], case.get("chunk_size"), case["sched"]), near or ratio > 10)
    if (near or ratio > 10) and expect == "refuse":
        ctx.sample(dict(case, W=W, D=D, expect=expect))


def run_seq(case, ctx):
    """Several requests on one kept-alive connection; "/u" requests get the per-request override, "/p" requests none."""
    Ls, N, Lo = case["Ls"], case["N"], case["Lo"]
    S = seq_server_limit(Ls, N)
    plan_, parts = [], []
    any_gzip = any(fr.startswith("gzip") for _, fr, _ in case["reqs"])
    for i, (who, fr, size) in enumerate(case["reqs"]):
        E = Lo if who == "u" else S
        built = build_body({"framing": fr, "size": size, "E": E, "sseed": case["sseed"] + i})
        if built is None:
            ctx.count("unbuildable")
            return
        hdrs, wire_body, decoded, W, D = built
        head = b"POST /" + who.encode() + b" HTTP/1.1\r\nHost: x\r\n" + b"".join(k + b": " + v + b"\r\n" for k, v in hdrs) + b"\r\n"
        parts.append(head + wire_body)
        plan_.append({"who": who, "framing": fr, "E": E, "W": W, "D": D, "decoded": decoded, "expect": expect_of(fr, W, D, E)})
    parts.append(FOLLOW)
    server_kw = {}
    if Ls is not None:
        server_kw["max_body_size"] = Ls
    stream_kw = None
    if N is not None:
        # what HTTPServer(max_buffer_size=N) does for an accepted socket: TCPServer builds IOStream(max_buffer_size=N)
        server_kw["max_buffer_size"] = N
        stream_kw = {"max_buffer_size": N}
    if any_gzip:
        server_kw["decompress_request"] = True
    target = RawDelegate(Lo) if case["how"] == "raw" else make_stream_app(Lo)
    with logmon.LogMon():
        obs = execute_seq(parts, case, server_kw, target, stream_kw)
    per = summarise(obs.get("log", []))
    st = statuses_of(obs.get("rx", b""))
    empty = {"headers": 0, "n": 0, "data": [], "finish": 0, "close": 0}
    wit = {"case": dict(case), "server_wide_limit": S, "override": Lo,
           "requests": [{k: p[k] for k in ("who", "framing", "E", "W", "D", "expect")} for p in plan_],
           "observed": [{k: (per.get(i, empty)[k]) for k in ("headers", "n", "finish", "close")} for i in range(len(plan_) + 1)],
           "statuses": st, "eof": obs.get("eof"), "eof_before_halfclose": obs.get("eof_before_halfclose"),
           "exchanges_started": obs.get("sent_parts")}
    ctx.count("oracle_evals")
    ctx.count("history_cases")
    ctx.count("history_limit_from_max_buffer_size" if Ls is None else "history_limit_from_max_body_size")
    if obs.get("quiescent"):
        ctx.violation("harness/quiescent", "driver stuck", wit)
        return
    served = 0          # requests answered 200 so far
    refused_at = None
    overridden_before = False
    for i, p in enumerate(plan_):
        r = per.get(i, empty)
        cls = cls_of(p["framing"], p["who"] == "u")
        # the key says what the connection had seen before: an earlier request with its own override, or only plain ones
        hist = "history-after-per-request-override" if overridden_before else ("history-kept-alive" if i else "history-first")
        w = dict(wit, index=i)
        ctx.count("delivered_bound_evals")
        ctx.check(r["n"] <= p["E"], f"{hist}/{cls}/application-handed-more-than-the-limit",
                  "sum of data_received lengths exceeds the limit in force for this request (its own override, else the "
                  "server-wide limit)", w)
        ctx.check(p["decoded"].startswith(b"".join(r["data"])), f"{hist}/{cls}/delivered-bytes-not-a-prefix-of-the-body",
                  "delivered body bytes are not a prefix of the (decoded) body that was sent", w)
        expect = p["expect"]
        if expect == "optional":
            ctx.count("optional_repeated_content_length")
            expect = "accept" if r["finish"] == 1 else "refuse-optional"
        if expect == "accept":
            ctx.count("must_accept")
            ok = ctx.check(r["finish"] == 1 and r["close"] == 0, f"{hist}/{cls}/within-limit-request-refused",
                           "a request within the limit in force for it did not reach finish()", w)
            if not ok:
                return
            ctx.check(b"".join(r["data"]) == p["decoded"], f"{hist}/{cls}/within-limit-body-differs",
                      "body delivered for a within-limit request differs from what was sent", w)
            served += 1
        else:
            if expect == "refuse":
                ctx.count("must_refuse")
                ctx.check(r["finish"] == 0, f"{hist}/{cls}/over-limit-request-finished",
                          "a request exceeding the limit in force for it (its own override, else the server-wide limit) "
                          "reached finish()", w)
            refused_at = i
            break
        overridden_before = overridden_before or p["who"] == "u"
    if refused_at is None:
        ctx.count("history_all_within")
        rf = per.get(len(plan_))
        ctx.check(st == [200] * (served + 1) and rf is not None and rf["finish"] == 1,
                  "history/connection-affected-after-within-limit-requests",
                  "the follow-up request on the same connection was not served after within-limit requests", wit)
    else:
        ctx.count("history_refused_last" if refused_at == len(plan_) - 1 else "history_refused_earlier")
        ctx.check(st in ([200] * served, [200] * served + [400]), "history/refusal-answer-not-400-or-close",
                  "peer saw something other than the earlier 200s followed by 400 or plain close", wit)
        ctx.check(obs.get("eof_before_halfclose") is True or obs.get("eof") is True, "history/connection-open-after-refusal",
                  "connection was not closed after refusing an over-limit request", wit)
        later = [j for j in range(refused_at + 1, len(plan_) + 1) if per.get(j, empty)["headers"]]
        ctx.check(not later, "history/request-served-after-refusal", "a request following the refused one was delivered",
                  dict(wit, later=later))
    near = any(abs(x - e) <= 1 for p in plan_ for x in (p["D"], p["W"]) for e in (p["E"], S, Lo))
    ctx.mark(("seq", Ls, N, Lo, tuple(tuple(r) for r in case["reqs"]), case["how"], case["sched"]), near)
    if near and refused_at is not None:
        ctx.sample({k: case[k] for k in ("Ls", "N", "Lo", "reqs", "how", "sched")})


def run_header(case, ctx):
    built = build_header_case(case)
    if built is None:
        ctx.count("unbuildable")
        return
    head, F = built
    M, H = case["M"], case["H"]
    term = case["terminated"]
    stream = head + FOLLOW if term else head[:-2]
    if term:
        expect = "accept" if H <= M else ("refuse" if F > M else "unspec")
    else:
        # no blank line ever arrives: once the field lines alone exceed the limit the server must give up
        expect = "refuse" if F > M else "pending"
    with logmon.LogMon():
        obs = execute(stream, case, {"max_header_size": M}, RawDelegate(None))
    per = summarise(obs.get("log", []))
    r0 = per.get(0, {"headers": 0, "finish": 0, "close": 0, "n": 0})
    r1 = per.get(1)
    st = statuses_of(obs.get("rx", b""))
    wit = {"case": dict(case), "F": F, "expect": expect, "headers": r0["headers"], "finish": r0["finish"], "statuses": st,
           "eof_before_halfclose": obs.get("eof_before_halfclose"), "head": head[:120]}
    ctx.count("oracle_evals")
    ctx.count("header_cases")
    if obs.get("quiescent"):
        ctx.violation("harness/quiescent", "driver stuck", wit)
        return
    if expect == "accept":
        ctx.count("must_accept")
        ok = ctx.check(r0["finish"] == 1, "header/within-limit-header-block-refused",
                       "a request whose whole header block fits max_header_size was not delivered", wit)
        if ok:
            ctx.check(st == [200, 200] and r1 is not None and r1["finish"] == 1, "header/connection-affected-after-within-limit-request",
                      "follow-up request not served after a within-limit header block", wit)
    elif expect == "refuse":
        ctx.count("must_refuse")
        ctx.check(r0["headers"] == 0 and r0["finish"] == 0, "header/over-limit-header-block-delivered",
                  "a header block larger than max_header_size was delivered to the application", wit)
        ctx.check(st in ([], [400]), "header/refusal-answer-not-400-or-close", "unexpected bytes for a refused header block", wit)
        ctx.check(obs.get("eof_before_halfclose") is True, "header/connection-open-after-refusal",
                  "connection not closed after an over-limit header block (before the peer closed)", wit)
        ctx.check(r1 is None or r1["headers"] == 0, "header/request-served-after-refusal", "delivery after refusal", wit)
    elif expect == "unspec":
        ctx.count("unspecified_header_size_counts_request_line")
        ctx.count("unspecified_accepted" if r0["finish"] else "unspecified_refused")
    else:
        ctx.count("pending_header_within_limit")
        ctx.check(r0["headers"] == 0, "header/unterminated-header-block-delivered",
                  "headers_received although the blank line never arrived", wit)
    near = abs(H - M) <= 1 or abs(F - M) <= 1
    ctx.mark(("hdr", M, H, case["pad"], term, case["sched"]), near)
    if near and expect == "refuse":
        ctx.sample(dict(case, F=F, expect=expect))
