"""C04 — server size limits bound what a peer can make the application buffer.

Arithmetic oracle on generated sizes: header blocks and bodies (Content-Length,
chunked with several chunk splits, gzip with decompress_request incl. bombs) are
built to sit at limit-1 / limit / limit+1 / far above each configured limit
(server-wide max_body_size, per-request set_max_body_size override lower and
higher, max_header_size).  The REAL HTTPServer is driven over a socketpair on
the virtual loop; a recording HTTPMessageDelegate proxy gives the bytes handed
to the application.  Within-limit => exact delivery + 200 + the connection
keeps working; over-limit => no finish, delivered <= limit, 400-or-close, then
EOF and nothing afterwards.
"""
from __future__ import annotations

import gzip as gzip_mod
import hashlib

from vf import core, logmon, vloop, wire
from vf.refs import http as resp_ref

core.use_repo()
from tornado import httputil, web  # noqa: E402

PROP = "C04"
META = {
    "level": "exploration",
    "technique": "boundary-value generation around every size limit with an arithmetic oracle over bytes handed to the "
                 "application (recording delegate), peer-visible refusal and connection fate",
    "level_text": "Header blocks and bodies are generated at limit-1/limit/limit+1/2x/100x for each of max_header_size, "
                  "max_body_size (values from 0 = no request body accepted, up to 64 KiB) and a per-request set_max_body_size override (lower and higher, set in headers_received "
                  "of a raw delegate and in prepare() of a @stream_request_body handler), for Content-Length, chunked "
                  "(one chunk, 1-byte chunks, a chunk straddling the limit) and gzip bodies (1:1, zero bombs, wire size at "
                  "the limit, multi-member) under several segmentations; the sum of data_received lengths, finish/close, "
                  "status and EOF are compared with what the arithmetic demands.",
    "level_note": "Sizes are sampled at boundaries, not exhaustive. Header-block size is ambiguous by a request line: heads "
                  "that exceed max_header_size only when the request line and final CRLF are counted are UNSPECIFIED. "
                  "Multi-member gzip bodies are only safety-checked (delivered <= limit).",
    "design_ref": "DESIGN.md §4 C04",
    "engine": "wire",
}
RULE = ("cases are (limit configuration incl. the limit value 0, framing, size, override, handler, schedule); sizes are limit-1, limit, limit+1, 2x, "
        "100x of the effective limit (decoded size, and wire size for gzip); non-trivial = size within +-1 of a limit or a "
        "gzip ratio > 10; distinct by the parameter tuple")
FLOORS = {"quick": 600, "thorough": 8000}
ASSUMPTIONS = [
    "effective body limit = per-request set_max_body_size value if the delegate/handler sets one, else max_body_size",
    "for gzip with decompress_request both the wire size and the decompressed size must be within the limit to be 'within limits'",
    "header block size H = request line + field lines + blank line; refusal is demanded only when the field lines alone exceed the limit",
]
REQUIRED_COUNTERS = ["oracle_evals", "must_accept", "must_refuse", "delivered_bound_evals", "header_cases", "gzip_cases",
                     "override_cases"]
SHARD_TIMEOUT = {"quick": 240, "thorough": 3000}

# 0 is a limit value like any other ("accept no request body at all"): every non-empty body is larger than it
LIMITS = [0, 1, 7, 64, 1000, 65536]
HEADER_LIMITS = [64, 300, 4096, 65536]
FRAMINGS = ["cl", "chunked1", "chunked-bytes", "chunked-straddle", "gzip-cl", "gzip-chunked", "gzip-bomb", "gzip-wire",
            "gzip-multi"]
REQ_LINE = b"POST /u HTTP/1.1\r\n"
FOLLOW = b"GET /follow HTTP/1.1\r\nHost: x\r\n\r\n"


def _det(n, salt=b"c04"):
    out = bytearray()
    i = 0
    while len(out) < n:
        out += hashlib.sha256(salt + i.to_bytes(4, "big")).digest()
        i += 1
    return bytes(out[:n])


def _gz(b, level=6):
    return gzip_mod.compress(b, compresslevel=level, mtime=0)


def sizes_for(L, big_cap=300000):
    s = {max(0, L - 1), L, L + 1, 2 * L, min(100 * L, big_cap)}
    if L > 2:
        s.add(L // 2)
    if L == 0:
        # multiples of 0 collapse onto the limit itself: add explicit "above" and "far above" sizes (past one
        # read chunk, too), as every other limit value gets through 2x / 100x
        s |= {2, 3, 100, 5000, 70000}
    return sorted(x for x in s)


# ---------------------------------------------------------------------------
# case construction

def build_body(case):
    """Returns (header fields [(k, v)], wire bytes, decoded bytes, W, D, note)."""
    fr = case["framing"]
    D = case["size"]
    E = case["E"]
    hdrs = []
    if fr in ("cl", "chunked1", "chunked-bytes", "chunked-straddle"):
        decoded = _det(D)
        payload = decoded
    elif fr in ("gzip-cl", "gzip-chunked"):
        decoded = _det(D)                       # incompressible: wire slightly larger than decoded
        payload = _gz(decoded)
        hdrs.append((b"Content-Encoding", b"gzip"))
    elif fr == "gzip-bomb":
        decoded = b"\0" * D
        payload = _gz(decoded, 9)
        hdrs.append((b"Content-Encoding", b"gzip"))
    elif fr == "gzip-wire":
        # wire size W == case["size"] exactly (decoded smaller): the declared-size limit applies to the wire bytes
        decoded = payload = None
        for d in range(max(0, D - 60), D + 1):
            p = _gz(_det(d), 0)
            if len(p) == D:
                decoded, payload = _det(d), p
                break
        if payload is None:
            return None
        hdrs.append((b"Content-Encoding", b"gzip"))
    elif fr == "gzip-multi":
        a = D // 2
        decoded = _det(D)
        payload = _gz(decoded[:a]) + _gz(decoded[a:])
        hdrs.append((b"Content-Encoding", b"gzip"))
    else:
        raise ValueError(fr)
    W = len(payload)
    if fr in ("cl", "gzip-cl", "gzip-bomb", "gzip-wire", "gzip-multi"):
        hdrs.append((b"Content-Length", str(W).encode()))
        wire_body = payload
    else:
        hdrs.append((b"Transfer-Encoding", b"chunked"))
        if fr == "chunked1" or W == 0:
            parts = [payload] if W else []
        elif fr == "chunked-bytes":
            parts = [payload[i:i + 1] for i in range(W)]
        elif fr == "chunked-straddle":
            # first chunk ends just below the effective limit, the second crosses it
            a = max(1, min(W - 1, E - 1)) if W > 1 else W
            parts = [payload[:a], payload[a:]] if W > 1 else [payload]
            parts = [p for p in parts if p]
        else:   # gzip-chunked: three chunks
            a, b = W // 3, 2 * W // 3
            parts = [p for p in (payload[:a], payload[a:b], payload[b:]) if p]
        wire_body = b"".join(b"%x\r\n" % len(p) + p + b"\r\n" for p in parts) + b"0\r\n\r\n"
    return hdrs, wire_body, decoded, W, len(decoded)


def build_header_case(case):
    """Head of exactly case['H'] bytes (terminated) built from padding fields."""
    H = case["H"]
    base = b"GET /h HTTP/1.1\r\n" + b"Host: x\r\n"
    need = H - len(base) - 2
    if need < 0:
        return None
    lines = b""
    if case["pad"] == "many":
        while need - len(lines) >= 6 + 6:
            lines += b"P: a\r\n"
    rest = need - len(lines)
    if rest == 0:
        pass
    elif rest >= 5:
        lines += b"Q: " + b"a" * (rest - 5) + b"\r\n"
    else:
        return None
    head = base + lines + b"\r\n"
    assert len(head) == H
    return head, len(base) - 17 + len(lines)       # F = field lines only (without request line "GET /h HTTP/1.1\r\n" = 17 bytes)


def shards(tier, seed):
    out = [{"kind": "header"}]
    if tier == "quick":
        for L in LIMITS:
            out.append({"kind": "body", "L": L, "override": False})
            out.append({"kind": "body", "L": L, "override": True})
    else:
        for L in LIMITS:
            for fr in FRAMINGS:
                out.append({"kind": "body", "L": L, "override": False, "framings": [fr]})
                out.append({"kind": "body", "L": L, "override": True, "framings": [fr]})
        out.append({"kind": "header", "more": True})
    return out


def gen_cases(spec):
    tier = spec["tier"]
    rng = core.rng_for(spec["seed"], PROP, f'{spec["kind"]}{spec.get("L")}{spec.get("override")}{spec.get("framings")}{spec.get("more")}')
    if spec["kind"] == "header":
        for M in HEADER_LIMITS:
            hs = {M - 1, M, M + 1, M + 18, M + 19, M + 20, 2 * M, min(100 * M, 400000), max(27, M // 2)}
            if spec.get("more"):
                hs |= {M + d for d in range(-5, 40)}
            for H in sorted(hs):
                for pad in ("one", "many"):
                    for term in (True, False):
                        if H > 70000 and pad == "many" and not spec.get("more"):
                            continue
                        for sched in (["whole", "random"] if tier == "quick" else ["whole", "random", "bytes", "mix"]):
                            yield {"kind": "header", "M": M, "H": H, "pad": pad, "terminated": term, "sched": sched,
                                   "sseed": rng.getrandbits(30)}
        return
    L = spec["L"]
    framings = spec.get("framings") or FRAMINGS
    if spec["override"]:
        # (server limit, override): lower and higher than the server-wide value
        confs = [(4 * L + 100, L), (max(0, L // 4), L)]
        if L >= 64:
            confs.append((L * 2, L))
    else:
        confs = [(L, None)]
    for Ls, Lo in confs:
        E = L
        for fr in framings:
            if fr == "chunked-bytes" and L > 1000:
                continue
            szs = sizes_for(E, 200000 if fr != "gzip-bomb" else 2000000)
            if fr == "gzip-bomb":
                szs = sorted(set(szs) | {min(1000 * E, 2000000)})
            if fr == "chunked-bytes":
                szs = [s for s in szs if s <= 3000]
            for S in szs:
                hows = ["raw", "stream"] if (spec["override"] or tier == "thorough") else ["raw"]
                for how in hows:
                    css = [None]
                    if tier == "thorough":
                        css = [None, 1, 16] if E <= 1000 else [None, 16]
                    elif fr.startswith("gzip") and S <= 3000:
                        css = [None, 16]
                    for cs in css:
                        if cs == 1 and S > 3000:
                            continue
                        scheds = ["whole", "random"] if tier == "quick" else ["whole", "random", "bytes", "mix"]
                        for sched in scheds:
                            yield {"kind": "body", "Ls": Ls, "Lo": Lo, "E": E, "framing": fr, "size": S, "how": how,
                                   "chunk_size": cs, "sched": sched, "sseed": rng.getrandbits(30)}


def directed_cases():
    # DESIGN §5: per-request override lower than the server limit + gzip body
    yield {"kind": "body", "Ls": 100000, "Lo": 50, "E": 50, "framing": "gzip-bomb", "size": 1000, "how": "raw",
           "chunk_size": None, "sched": "whole", "sseed": 1}
    yield {"kind": "body", "Ls": 100000, "Lo": 50, "E": 50, "framing": "gzip-bomb", "size": 1000, "how": "stream",
           "chunk_size": None, "sched": "whole", "sseed": 2}
    # ... and higher: a body within the raised limit
    yield {"kind": "body", "Ls": 20, "Lo": 5000, "E": 5000, "framing": "gzip-bomb", "size": 4000, "how": "raw",
           "chunk_size": None, "sched": "whole", "sseed": 3}


# ---------------------------------------------------------------------------
# targets

class RawDelegate(httputil.HTTPServerConnectionDelegate):
    def __init__(self, override):
        self.override = override

    def start_request(self, server_conn, request_conn):
        return RawMsg(self, request_conn)

    def on_close(self, server_conn):
        pass


class RawMsg(httputil.HTTPMessageDelegate):
    def __init__(self, owner, conn):
        self.o, self.conn = owner, conn
        self.first = None

    def headers_received(self, start_line, headers):
        if self.o.override is not None and start_line.path == "/u":
            self.conn.set_max_body_size(self.o.override)

    def data_received(self, chunk):
        pass

    def finish(self):
        self.conn.write_headers(httputil.ResponseStartLine("HTTP/1.1", 200, "OK"),
                                httputil.HTTPHeaders({"Content-Length": "0"}))
        self.conn.finish()

    def on_connection_close(self):
        pass


def make_stream_app(override):
    @web.stream_request_body
    class H(web.RequestHandler):
        def prepare(self):
            if override is not None and self.request.path == "/u":
                self.request.connection.set_max_body_size(override)

        def data_received(self, chunk):
            pass

        def post(self):
            self.set_header("Content-Length", "0")
        get = post
    return web.Application([(r"/.*", H)])


def execute(stream, case, server_kw, target):
    obs = {}
    rng = core.rng_for(case["sseed"], PROP, "sched")
    total = len(stream)
    sched = case["sched"]
    cuts, plan = None, None
    if sched == "random":
        cuts = wire.cuts_for(rng, total, "random")
    elif sched == "bytes":
        cuts = wire.cuts_for(rng, total, "bytes") if total <= 800 else wire.cuts_for(rng, total, "random")
    elif sched == "mix":
        cuts = wire.cuts_for(rng, total, "random")
        plan = wire.read_plan_for(rng, "mix", 200)

    async def main():
        rig = wire.ServerRig(target, read_plan=plan, **server_kw)
        peer = rig.connect()
        await peer.send(stream, cuts)
        await peer.drain(3)
        obs["eof_before_halfclose"] = peer.eof
        obs["rx_before_halfclose"] = bytes(peer.rx)
        peer.half_close()
        await peer.drain(3)
        obs["rx"] = bytes(peer.rx)
        obs["eof"] = peer.eof
        obs["log"] = rig.log
        await rig.close()
        peer.close()

    try:
        vloop.run(main, collect=False)
    except vloop.Quiescent:
        obs["quiescent"] = True
    return obs


def statuses_of(rx):
    out, rest = [], rx
    while rest:
        try:
            r = resp_ref.read_response(rest, "GET", eof=True)
        except (resp_ref.Reject, resp_ref.Unspec, resp_ref.Incomplete):
            out.append("garbage")
            break
        out.append(r.status)
        rest = r.rest
        if r.framing == "close":
            break
    return out


def summarise(log):
    per = {}
    for e in log:
        if e[0] == "conn_close":
            continue
        p = per.setdefault(e[1], {"headers": 0, "n": 0, "data": [], "finish": 0, "close": 0})
        if e[0] == "headers":
            p["headers"] += 1
        elif e[0] == "data":
            p["n"] += len(e[2])
            p["data"].append(e[2])
        elif e[0] == "finish":
            p["finish"] += 1
        elif e[0] == "close":
            p["close"] += 1
    return per


def run_case(case, ctx):
    if case["kind"] == "header":
        return run_header(case, ctx)
    built = build_body(case)
    if built is None:
        ctx.count("unbuildable")
        return
    hdrs, wire_body, decoded, W, D = built
    fr = case["framing"]
    E, Ls, Lo = case["E"], case["Ls"], case["Lo"]
    is_gzip = fr.startswith("gzip")
    head = REQ_LINE + b"Host: x\r\n" + b"".join(k + b": " + v + b"\r\n" for k, v in hdrs) + b"\r\n"
    stream = head + wire_body + FOLLOW
    server_kw = {"max_body_size": Ls}
    if is_gzip:
        server_kw["decompress_request"] = True
    if case.get("chunk_size"):
        server_kw["chunk_size"] = case["chunk_size"]
    target = RawDelegate(Lo) if case["how"] == "raw" else make_stream_app(Lo)

    # --- arithmetic expectation ---
    if fr == "gzip-multi":
        expect = "unspec"
    elif is_gzip:
        expect = "accept" if (W <= E and D <= E) else "refuse"
    else:
        expect = "accept" if D <= E else "refuse"

    with logmon.LogMon() as lm:
        obs = execute(stream, case, server_kw, target)
    per = summarise(obs.get("log", []))
    r0 = per.get(0, {"headers": 0, "n": 0, "data": [], "finish": 0, "close": 0})
    r1 = per.get(1)
    st = statuses_of(obs.get("rx", b""))
    cls = ("gzip-override" if (is_gzip and Lo is not None) else ("gzip" if is_gzip else ("chunked" if fr.startswith("chunked") else "cl")))
    wit = {"case": dict(case), "W": W, "D": D, "E": E, "expect": expect, "delivered": r0["n"], "finish": r0["finish"],
           "close": r0["close"], "statuses": st, "eof": obs.get("eof"), "head": head[:200],
           "follow_up": None if r1 is None else {k: r1[k] for k in ("headers", "finish")}}
    ctx.count("oracle_evals")
    ctx.count("framing:" + fr)
    if is_gzip:
        ctx.count("gzip_cases")
    if Lo is not None:
        ctx.count("override_cases")
        ctx.count("override_lower" if Lo < Ls else "override_higher")
    if obs.get("quiescent"):
        ctx.violation("harness/quiescent", "driver stuck", wit)
        return

    if cls == "gzip-override" and expect != "unspec":
        # One root cause, one key: the decompressed-size check using the server-wide limit captured before the
        # per-request override was set.  Recognised by the observed outcome matching the arithmetic for Ls instead of E.
        alt = "accept" if (W <= E and D <= Ls) else "refuse"
        observed = "accept" if r0["finish"] == 1 else "refuse"
        # (only away from the +-1 boundary, so that an off-by-one in some comparison never hides behind this key)
        clear = (expect == "refuse" and D > E + 1) or (expect == "accept" and W < E - 1 and D < E - 1)
        if (clear and alt != expect and observed == alt) or (E + 1 < r0["n"] <= Ls):
            ctx.count("must_accept" if expect == "accept" else "must_refuse")
            ctx.check(False, "gzip-override/decompressed-size-checked-against-server-wide-limit",
                      "with a per-request set_max_body_size override the decompressed size of a gzip body is bounded by the "
                      "server-wide max_body_size instead of the override (over-limit body delivered / within-limit body refused)",
                      wit)
            ctx.mark((case["Ls"], case["Lo"], fr, case["size"], case["how"], case.get("chunk_size"), case["sched"]), True)
            return

    # safety half, every class: never more than the effective limit
    ctx.count("delivered_bound_evals")
    ctx.check(r0["n"] <= E, f"{cls}/application-handed-more-than-the-limit",
              "sum of data_received lengths exceeds the effective max_body_size", wit)
    ctx.check(decoded.startswith(b"".join(r0["data"])), f"{cls}/delivered-bytes-not-a-prefix-of-the-body",
              "delivered body bytes are not a prefix of the (decoded) body that was sent", wit)

    if expect == "accept":
        ctx.count("must_accept")
        ok = ctx.check(r0["finish"] == 1 and r0["close"] == 0, f"{cls}/within-limit-request-refused",
                       "a request whose sizes are within every limit did not reach finish()", wit)
        if ok:
            ctx.check(b"".join(r0["data"]) == decoded, f"{cls}/within-limit-body-differs",
                      "body delivered for a within-limit request differs from what was sent", wit)
            ctx.check(st == [200, 200] and r1 is not None and r1["finish"] == 1, f"{cls}/connection-affected-after-within-limit-request",
                      "the follow-up request on the same connection was not served after a within-limit request", wit)
    elif expect == "refuse":
        ctx.count("must_refuse")
        ctx.check(r0["finish"] == 0, f"{cls}/over-limit-request-finished",
                  "a request exceeding the effective limit reached finish()", wit)
        ctx.check(st in ([], [400]), f"{cls}/refusal-answer-not-400-or-close",
                  "peer saw something other than 400 or plain close for a refused request", wit)
        ctx.check(obs.get("eof_before_halfclose") is True or obs.get("eof") is True, f"{cls}/connection-open-after-refusal",
                  "connection was not closed after refusing an over-limit request", wit)
        ctx.check(r1 is None or r1["headers"] == 0, f"{cls}/request-served-after-refusal",
                  "a request following the refused one was delivered", wit)
    else:
        ctx.count("unspecified_multi_member_gzip")
        ctx.count("unspecified_accepted" if r0["finish"] else "unspecified_refused")
    bad = [r for r in lm.records if r["level"] in ("ERROR", "CRITICAL")]
    if bad:
        ctx.count("error_log_records(informational)")
    ratio = (D / W) if W else 0
    near = any(abs(x - E) <= 1 for x in (D, W))
    ctx.mark((case["Ls"], case["Lo"], fr, case["size"], case["how"], case.get("chunk_size"), case["sched"]), near or ratio > 10)
    if (near or ratio > 10) and expect == "refuse":
        ctx.sample(dict(case, W=W, D=D, expect=expect))


def run_header(case, ctx):
    built = build_header_case(case)
    if built is None:
        ctx.count("unbuildable")
        return
    head, F = built
    M, H = case["M"], case["H"]
    term = case["terminated"]
    stream = head + FOLLOW if term else head[:-2]
    if term:
        expect = "accept" if H <= M else ("refuse" if F > M else "unspec")
    else:
        # no blank line ever arrives: once the field lines alone exceed the limit the server must give up
        expect = "refuse" if F > M else "pending"
    with logmon.LogMon():
        obs = execute(stream, case, {"max_header_size": M}, RawDelegate(None))
    per = summarise(obs.get("log", []))
    r0 = per.get(0, {"headers": 0, "finish": 0, "close": 0, "n": 0})
    r1 = per.get(1)
    st = statuses_of(obs.get("rx", b""))
    wit = {"case": dict(case), "F": F, "expect": expect, "headers": r0["headers"], "finish": r0["finish"], "statuses": st,
           "eof_before_halfclose": obs.get("eof_before_halfclose"), "head": head[:120]}
    ctx.count("oracle_evals")
    ctx.count("header_cases")
    if obs.get("quiescent"):
        ctx.violation("harness/quiescent", "driver stuck", wit)
        return
    if expect == "accept":
        ctx.count("must_accept")
        ok = ctx.check(r0["finish"] == 1, "header/within-limit-header-block-refused",
                       "a request whose whole header block fits max_header_size was not delivered", wit)
        if ok:
            ctx.check(st == [200, 200] and r1 is not None and r1["finish"] == 1, "header/connection-affected-after-within-limit-request",
                      "follow-up request not served after a within-limit header block", wit)
    elif expect == "refuse":
        ctx.count("must_refuse")
        ctx.check(r0["headers"] == 0 and r0["finish"] == 0, "header/over-limit-header-block-delivered",
                  "a header block larger than max_header_size was delivered to the application", wit)
        ctx.check(st in ([], [400]), "header/refusal-answer-not-400-or-close", "unexpected bytes for a refused header block", wit)
        ctx.check(obs.get("eof_before_halfclose") is True, "header/connection-open-after-refusal",
                  "connection not closed after an over-limit header block (before the peer closed)", wit)
        ctx.check(r1 is None or r1["headers"] == 0, "header/request-served-after-refusal", "delivery after refusal", wit)
    elif expect == "unspec":
        ctx.count("unspecified_header_size_counts_request_line")
        ctx.count("unspecified_accepted" if r0["finish"] else "unspecified_refused")
    else:
        ctx.count("pending_header_within_limit")
        ctx.check(r0["headers"] == 0, "header/unterminated-header-block-delivered",
                  "headers_received although the blank line never arrived", wit)
    near = abs(H - M) <= 1 or abs(F - M) <= 1
    ctx.mark(("hdr", M, H, case["pad"], term, case["sched"]), near)
    if near and expect == "refuse":
        ctx.sample(dict(case, F=F, expect=expect))
