"""C36 — gen.multi / WaitIterator / with_timeout / chain_future always settle with the right outcome.

Exhaustive schedules on the virtual-time loop.  A schedule fixes, for up to four
inputs, each input's outcome (result / exception / cancelled), its kind (Future or
native coroutine), which inputs are already done when the combinator is called,
the completion order of the rest, where the consumer calls WaitIterator.next(),
and where the clock crosses the with_timeout deadline.  The oracle is a direct
specification function of the schedule.  "Never left pending" is decided by
quiescence: after all inputs are done and the loop has settled, the output future
must be done.
"""
from __future__ import annotations

import asyncio
import concurrent.futures
import gc
import itertools

from vf import core, vloop
from vf.logmon import LogMon
from vf.refs import synchist as sh

core.use_repo()
from tornado import gen  # noqa: E402
from tornado.concurrent import Future, chain_future  # noqa: E402

PROP = "C36"
META = {
    "level": "exploration",
    "technique": "exhaustive schedule enumeration (outcomes x completion orders x already-done sets x duplicates x deadline "
                 "placements) on a virtual-time loop, specification-function oracle, pending-at-quiescence detection",
    "level_text": "All schedules of up to 3 (quick) / 4 (thorough) inputs with every outcome (result, exception, cancelled), "
                  "every completion order, every already-done prefix, list/dict/duplicate forms, Future and native-coroutine "
                  "inputs, every consumer placement for WaitIterator.next(), every subset of those placements at which the consumer "
                  "abandons (cancels) a still-pending next() future, and every deadline placement for with_timeout "
                  "are executed against the real combinators; the output's final state is compared with a specification "
                  "function and must be done once the loop is quiescent after the last input finished.",
    "level_note": "Trusts the specification functions in this file and the virtual loop. A cancelled outcome of multi may be "
                  "reported either as a cancelled output or as CancelledError set as exception. A future passed twice to "
                  "WaitIterator may be yielded once or once per position, under any of its positions' index.",
    "design_ref": "DESIGN.md §4 C36",
    "engine": "vloop",
}
RULE = ("cases are schedules: (combinator, form, per-input kind+outcome, completion order, number already done, "
        "burst/settled completions, next()-placement bitmap [+ bitmap of placements where the pending next() future is "
        "cancelled by the consumer, directly / through a cancelled awaiting task / through asyncio.wait_for] or deadline "
        "position); enumerated exhaustively for k <= 3 "
        "(quick) / k <= 4 (thorough) plus seeded random schedules with k <= 6; non-trivial = at least two inputs, or one "
        "input that is cancelled/failed/late; distinct by the case tuple")
FLOORS = {"quick": 10000, "thorough": 150000}
ASSUMPTIONS = ["specification functions are correct", "single-threaded use on one loop",
               "deadline never coincides with a completion (half-grid)",
               "order among inputs that were already done when WaitIterator was built is not pinned"]
REQUIRED_COUNTERS = ["oracle_evals", "quiescence_evals", "multi_cases", "wait_iterator_cases", "with_timeout_cases",
                     "chain_future_cases", "cancelled_input_cases", "timeouts_expected", "wait_iterator_next_cancelled"]

OUTCOMES = "rec"     # result, exception, cancelled
DUP_KEYERROR = "wait_iterator/duplicate-future-KeyError"


def EXHAUSTIVE(tier):
    k = 3 if tier == "quick" else 4
    return ("multi: k<=%d inputs x {result,exception,cancelled}^k x 3 kind patterns x {list,dict,duplicate-first,"
            "duplicate-last} x all completion orders x all already-done prefixes x {settled,burst}; WaitIterator: k<=%d x "
            "outcomes x {args,kwargs} x orders x already-done prefixes x all next() placements x all subsets of the placements "
            "with a pending next() future cancelled by the consumer; with_timeout: single "
            "Future/coroutine and lists of <=%d x outcomes x orders x already-done x every deadline position x "
            "{absolute,timedelta}; chain_future: {asyncio,concurrent}^2 x outcomes x source-already-done x 5 target states"
            % (k, k, k))


# --------------------------------------------------------------------------
# case enumeration

def multi_cases(kmax):
    for k in range(0, kmax + 1):
        for outs in itertools.product(OUTCOMES, repeat=k):
            for kp in (0, 1, 2):                 # 0: all futures, 1: input 0 is a coroutine, 2: all coroutines
                if k == 0 and kp:
                    continue
                kinds = tuple("coro" if (kp == 2 or (kp == 1 and i == 0)) else "fut" for i in range(k))
                for form in ("list", "dict", "dupfirst", "duplast"):
                    if form.startswith("dup"):
                        if k == 0:
                            continue
                        src = 0 if form == "dupfirst" else k - 1
                        if kinds[src] == "coro":
                            continue             # a coroutine object cannot be awaited twice
                    for order in itertools.permutations(range(k)):
                        for npre in range(k + 1):
                            for burst in ((False, True) if k - npre >= 2 else (False,)):
                                yield ("multi", form, kinds, outs, order, npre, burst)


CANCEL_MODES = ("direct", "task", "wait_for")


def wi_cancel_effective(bits, cbits, npre, nslots):
    """True iff at every placement in `cbits` the consumer calls next() and nothing finished is there to be
    delivered, so that the future it got is still pending and can be cancelled (generator-side bookkeeping that
    prunes no-op cancellations; not an oracle)."""
    avail = npre
    for slot in range(nslots):
        waiting = False
        if bits >> slot & 1:
            if avail:
                avail -= 1
            elif slot < nslots - 1:     # (at the last placement every input is done: nothing left to wait for)
                waiting = True
        if cbits >> slot & 1:
            if not waiting:
                return False
            waiting = False
        if slot < nslots - 1 and not waiting:
            avail += 1
    return True


def wi_cases(kmax):
    for k in range(1, kmax + 1):
        for outs in itertools.product(OUTCOMES, repeat=k):
            for form in ("args", "kwargs"):
                for order in itertools.permutations(range(k)):
                    for npre in range(k + 1):
                        nslots = k - npre + 1
                        for bits in range(1 << nslots):
                            yield ("wi", form, ("fut",) * k, outs, order, npre, bits)
    # the consumer abandons a pending next() future (cancels it, as asyncio.wait_for or a cancelled awaiting task
    # does) at every subset of the placements where next() had nothing to deliver, then carries on
    for k in range(1, kmax + 1):
        for outs in itertools.product(OUTCOMES, repeat=k):
            for form in ("args", "kwargs"):
                for order in itertools.permutations(range(k)):
                    for npre in range(k + 1):
                        nslots = k - npre + 1
                        for bits in range(1 << nslots):
                            for cbits in range(1, 1 << nslots):
                                if cbits & ~bits or not wi_cancel_effective(bits, cbits, npre, nslots):
                                    continue
                                for cmode in (CANCEL_MODES if k <= 2 else CANCEL_MODES[:1]):
                                    yield ("wi", form, ("fut",) * k, outs, order, npre, (bits, cbits, cmode))
    # ... and a consumer that, at each of its placements, calls next() until it has to wait (so that it can abandon
    # several pending next() futures in the course of one iteration)
    for k in range(1, min(kmax, 3) + 1):
        for outs in itertools.product(OUTCOMES, repeat=k):
            for form in (("args", "kwargs") if k <= 2 else ("args",)):
                for order in itertools.permutations(range(k)):
                    for npre in range(k):
                        nslots = k - npre + 1
                        for bits in range(1 << nslots):
                            for cbits in range(1, 1 << (nslots - 1)):
                                if cbits & ~bits:
                                    continue
                                cmode = CANCEL_MODES[(bits + cbits + npre) % 3] if k <= 2 else "direct"
                                yield ("wi", form, ("fut",) * k, outs, order, npre, (bits, cbits, cmode, "drain"))
    # the same future passed twice (positions 0 and 2)
    for form in ("dupargs", "dupkwargs"):
        for outs in itertools.product(OUTCOMES, repeat=2):
            for order in itertools.permutations(range(2)):
                for npre in range(3):
                    for bits in range(1 << (3 - npre)):
                        yield ("wi", form, ("fut",) * 2, outs, order, npre, bits)


def wt_cases(kmax):
    # single input (Future or coroutine), incl. one that never finishes
    for kind in ("fut", "coro"):
        for out in OUTCOMES + "n":
            for dform in ("rel", "abs"):
                for npre in ((0, 1) if out != "n" else (0,)):
                    for advpos in ((0, 1, None) if npre == 0 else (0, None)):
                        if out == "n" and advpos is None:
                            continue
                        yield ("wt", "single", (kind,), (out,), (0,), npre, (dform, advpos))
    # every input finished strictly before a deadline that is "now" or already behind the call (timedelta(0), a negative
    # timedelta, an absolute time <= now): the input finished before the deadline, so its outcome is the answer
    for dform in ("late-tdzero", "late-neg", "late-absnow", "late-abspast"):
        for out in OUTCOMES:
            yield ("wt", "single", ("fut",), (out,), (0,), 1, (dform, None))
        for outs in itertools.product(OUTCOMES, repeat=2):
            yield ("wt", "list", ("fut",) * 2, outs, (0, 1), 2, (dform, None))
    for k in range(2, kmax + 1):
        for outs in itertools.product(OUTCOMES, repeat=k):
            for order in itertools.permutations(range(k)):
                for npre in range(k + 1):
                    for advpos in list(range(k - npre + 1)) + [None]:
                        for dform in ("rel", "abs"):
                            yield ("wt", "list", ("fut",) * k, outs, order, npre, (dform, advpos))


def cf_cases():
    for ak in ("asyncio", "concurrent"):
        for bk in ("asyncio", "concurrent"):
            for out in OUTCOMES:
                for apre in (0, 1):
                    for bstate in ("pending", "result-before-chain", "cancelled-before-chain", "result-after-chain",
                                   "cancelled-after-chain"):
                        if apre and bstate.endswith("after-chain"):
                            continue
                        yield ("cf", bstate, (ak, bk), (out,), (0,), apre, None)


def all_cases(tier):
    kmax = 3 if tier == "quick" else 4
    return itertools.chain(cf_cases(), wt_cases(kmax), multi_cases(kmax), wi_cases(kmax))


def shards(tier, seed):
    n = 16 if tier == "quick" else 32
    out = [{"kind": "exh", "mod": n, "rem": i} for i in range(n)]
    k = 4 if tier == "quick" else 16
    nr = 2000 if tier == "quick" else 160000
    for j in range(k):
        out.append({"kind": "rand", "n": nr // k, "j": j})
    return out


def rand_case(rng):
    comb = rng.choice(["multi", "multi", "wi", "wt"])
    k = rng.randint(4, 6) if comb != "wt" else rng.randint(2, 5)
    outs = tuple(rng.choice("rrrec") for _ in range(k))
    order = list(range(k))
    rng.shuffle(order)
    npre = rng.randint(0, k)
    if comb == "multi":
        kinds = tuple(rng.choice(["fut", "fut", "coro"]) for _ in range(k))
        form = rng.choice(["list", "dict", "dupfirst", "duplast"])
        if form == "dupfirst" and kinds[0] == "coro" or form == "duplast" and kinds[-1] == "coro":
            form = "list"
        return ("multi", form, kinds, outs, tuple(order), npre, rng.random() < 0.3)
    if comb == "wi":
        bits = rng.getrandbits(k - npre + 1)
        if rng.random() < 0.5:
            cbits = bits & rng.getrandbits(k - npre + 1)
            if cbits:
                return ("wi", rng.choice(["args", "kwargs"]), ("fut",) * k, outs, tuple(order), npre,
                        (bits, cbits, rng.choice(CANCEL_MODES)) + (("drain",) if rng.random() < 0.7 else ()))
        return ("wi", rng.choice(["args", "kwargs"]), ("fut",) * k, outs, tuple(order), npre, bits)
    return ("wt", "list", ("fut",) * k, outs, tuple(order), npre,
            (rng.choice(["rel", "abs"]), rng.choice(list(range(k - npre + 1)) + [None])))


def gen_cases(spec):
    if spec["kind"] == "exh":
        for i, c in enumerate(all_cases(spec["tier"])):
            if i % spec["mod"] == spec["rem"]:
                yield c
    else:
        rng = core.rng_for(spec["seed"], PROP, spec["j"])
        for _ in range(spec["n"]):
            yield rand_case(rng)


def directed_cases():
    # DESIGN §5: a cancelled input must not leave the output pending
    yield ("cf", "pending", ("asyncio", "asyncio"), ("c",), (0,), 0, None)
    yield ("multi", "list", ("fut", "fut"), ("r", "c"), (0, 1), 0, False)
    yield ("wi", "args", ("fut", "fut"), ("c", "r"), (0, 1), 0, 0b111)
    yield ("wt", "single", ("fut",), ("c",), (0,), 0, ("rel", None))
    yield ("wt", "single", ("fut",), ("c",), (0,), 1, ("rel", None))
    # the consumer's first next() is abandoned before any input is done (asyncio.wait_for timing out), then the inputs
    # complete and the consumer resumes: every input must still be yielded once
    yield ("wi", "args", ("fut", "fut", "fut"), ("r", "e", "r"), (1, 0, 2), 0, (0b0001, 0b0001, "wait_for"))
    yield ("wi", "kwargs", ("fut", "fut"), ("r", "c"), (0, 1), 0, (0b011, 0b010, "task"))
    yield ("wi", "args", ("fut",), ("r",), (0,), 0, (0b01, 0b01, "direct"))
    yield ("wi", "args", ("fut", "fut", "fut"), ("r", "r", "c"), (2, 0, 1), 0, (0b0111, 0b0111, "task", "drain"))
    # the same future passed twice to WaitIterator, everything already done, consumer drains
    yield ("wi", "dupargs", ("fut", "fut"), ("r", "r"), (0, 1), 2, 0b1)


# --------------------------------------------------------------------------
# execution

class Inp:
    def __init__(self, idx, kind, outcome):
        self.idx, self.kind, self.outcome = idx, kind, outcome
        if kind == "concurrent":
            self.hidden = concurrent.futures.Future()
        else:
            self.hidden = Future()
        self.obj = _await_it(self.hidden) if kind == "coro" else self.hidden

    def complete(self):
        if self.outcome == "r":
            self.hidden.set_result(self.idx * 10)
        elif self.outcome == "e":
            self.hidden.set_exception(ValueError(self.idx))
        elif self.outcome == "c":
            self.hidden.cancel()

    def spec(self):
        return {"r": ("r", self.idx * 10), "e": ("e", "ValueError", (self.idx,)), "c": ("c",), "n": ("p",)}[self.outcome]


async def _await_it(f):
    return await f


def outcome_of(f):
    if not f.done():
        return ("p",)
    if f.cancelled():
        return ("c",)
    e = f.exception()
    if e is None:
        return ("r", f.result())
    if isinstance(e, (asyncio.CancelledError, concurrent.futures.CancelledError)):
        return ("c",)
    if isinstance(e, (asyncio.TimeoutError, TimeoutError)):
        return ("t",)
    return ("e", type(e).__name__, e.args)


def oname(o):
    return {"p": "pending", "c": "cancelled", "r": "result", "t": "TimeoutError", "e": "exception"}[o[0]]


class Run:
    def __init__(self, case, ctx, lm):
        self.case, self.ctx, self.lm = case, ctx, lm
        self.failed = False
        self.inps = []

    def fail(self, mech, what, wit=None):
        if self.failed:
            return
        self.failed = True
        if self.case[1] in ("dupargs", "dupkwargs") and (
                "KeyError" in mech or any("KeyError" in str(e["exception"]) for e in self.lm.loop_exceptions)):
            mech = DUP_KEYERROR
            what = "a future passed twice to WaitIterator makes its second delivery raise KeyError (from next() or inside the done callback)"
        w = {"loop_exceptions": self.lm.loop_exceptions[:2]}
        w.update(wit or {})
        self.ctx.violation(mech, what, w)

    def tag(self):
        return "cancelled-input" if "c" in self.case[3] else "no-cancelled-input"


async def run_multi(R, case):
    _, form, kinds, outs, order, npre, burst = case
    k = len(kinds)
    inps = R.inps = [Inp(i, kinds[i], outs[i]) for i in range(k)]
    for i in order[:npre]:
        inps[i].complete()
    idxs = list(range(k))
    if form == "dupfirst":
        idxs = idxs + [0]
    elif form == "duplast":
        idxs = [k - 1] + idxs
    if form == "dict":
        children = {f"k{i}": inps[i].obj for i in idxs}
    else:
        children = [inps[i].obj for i in idxs]
    try:
        out = gen.multi(children)
    except BaseException as e:
        for x in inps:
            if asyncio.iscoroutine(x.obj):
                x.obj.close()
        return R.fail(f"multi/raises-{type(e).__name__}-synchronously/{R.tag()}",
                      "gen.multi raised instead of returning a future", {"err": repr(e)})
    await vloop.settle()
    rest = list(order[npre:])
    ndone = npre
    for n, i in enumerate(rest):
        # "resolves once all inputs are done": not earlier
        if out.done() and ndone < k:
            return R.fail("multi/resolved-before-all-inputs-done", "multi's future was done while an input was still pending",
                          {"done_inputs": ndone, "outcome": outcome_of(out)})
        inps[i].complete()
        ndone += 1
        if not burst or n == len(rest) - 1:
            await vloop.settle(2)
    await vloop.settle(2)
    R.ctx.count("quiescence_evals")
    if not out.done():
        return R.fail(f"multi/output-left-pending/{R.tag()}",
                      "all inputs are done and the loop is quiescent but multi's future is still pending")
    first_bad = next((inps[i].spec() for i in idxs if outs[i] != "r"), None)
    if first_bad is not None:
        want = first_bad
    elif form == "dict":
        want = ("r", {f"k{i}": i * 10 for i in idxs})
    else:
        want = ("r", [i * 10 for i in idxs])
    got = outcome_of(out)
    R.ctx.count("oracle_evals")
    if got != want:
        return R.fail(f"multi/wrong-outcome:{oname(want)}->{oname(got)}",
                      "multi's outcome differs from the specification (results in input order / first failed input in order)",
                      {"got": got, "want": want})


async def run_wi(R, case):
    _, form, kinds, outs, order, npre, bits = case
    cbits, cmode, drain = 0, None, False
    if isinstance(bits, (tuple, list)):
        drain = len(bits) > 3 and bits[3] == "drain"
        bits, cbits, cmode = bits[:3]
    k = len(kinds)
    dup = form in ("dupargs", "dupkwargs")
    inps = R.inps = [Inp(i, "fut", outs[i]) for i in range(k)]
    for i in order[:npre]:
        inps[i].complete()
    pos = list(range(k)) + ([0] if dup else [])          # input index at each argument position
    key = (lambda p: f"k{p}") if form.endswith("kwargs") else (lambda p: p)
    try:
        if form.endswith("kwargs"):
            wi = gen.WaitIterator(**{key(p): inps[i].obj for p, i in enumerate(pos)})
        else:
            wi = gen.WaitIterator(*[inps[i].obj for i in pos])
    except BaseException as e:
        return R.fail(f"wait_iterator/constructor-raises-{type(e).__name__}/{R.tag()}",
                      "WaitIterator() raised", {"err": repr(e)})
    if dup:
        R.ctx.count("wait_iterator_duplicate_cases")
    deliveries = []
    cur = [None]

    def want_next():
        if cur[0] is None and not wi.done():
            try:
                cur[0] = wi.next()
            except BaseException as e:
                R.fail(f"wait_iterator/next-raises-{type(e).__name__}/{R.tag()}",
                       "WaitIterator.next() raised instead of returning a future", {"err": repr(e), "deliveries": deliveries})
                return False
        return True

    def poll():
        f = cur[0]
        if f is not None and f.done():
            idx = wi.current_index
            cf = wi.current_future
            deliveries.append((idx, outcome_of(f), next((j for j, x in enumerate(inps) if x.obj is cf), None)))
            cur[0] = None

    async def abandon():
        """The consumer gives up on the pending future it got from next() - the way asyncio.wait_for, a cancelled
        awaiting task or a plain Future.cancel() does - and will call next() again later."""
        f = cur[0]
        if cmode == "direct":
            f.cancel()
        elif cmode == "task":
            t = asyncio.ensure_future(_await_it(f))
            await vloop.settle()
            t.cancel()
            await asyncio.gather(t, return_exceptions=True)
        else:
            t = asyncio.ensure_future(asyncio.wait_for(f, 0.25))
            await asyncio.sleep(0.5)
            await asyncio.gather(t, return_exceptions=True)
        await vloop.settle()
        if not f.cancelled():
            return R.fail("wait_iterator/pending-next-future-not-cancellable",
                          "the pending future returned by next() could not be cancelled by its consumer",
                          {"mode": cmode, "state": outcome_of(f)})
        R.ctx.count("wait_iterator_next_cancelled")
        cur[0] = None

    rest = list(order[npre:])
    for slot in range(len(rest) + 1):
        if bits >> slot & 1:
            for _ in range(len(pos) + 1 if drain else 1):
                if not want_next():
                    return
                await vloop.settle()
                poll()
                if cur[0] is not None:
                    break
        if cbits >> slot & 1 and cur[0] is not None and not cur[0].done():
            await abandon()
            if R.failed:
                return
        if slot < len(rest):
            inps[rest[slot]].complete()
            await vloop.settle()
            poll()
    # all inputs done: the consumer drains; every next() must settle at quiescence
    for _ in range(len(pos) + 2):
        poll()
        if R.failed or wi.done():
            break
        if not want_next():
            return
        await vloop.settle(2)
        R.ctx.count("quiescence_evals")
        if cur[0] is not None and not cur[0].done():
            return R.fail(f"wait_iterator/next-future-left-pending/{R.tag()}",
                          "all inputs are done and the loop is quiescent but the future returned by next() is pending",
                          {"deliveries": deliveries})
    R.ctx.count("oracle_evals")
    if not wi.done():
        return R.fail("wait_iterator/never-done", "every input was delivered but done() is still False",
                      {"deliveries": deliveries})
    for idx, oc, fi in deliveries:
        if fi is None or oc != inps[fi].spec() or idx not in [key(p) for p, i in enumerate(pos) if i == fi]:
            return R.fail("wait_iterator/wrong-index-or-outcome",
                          "a delivery's current_index / current_future / outcome do not belong to the same input",
                          {"deliveries": deliveries})
    seen = [d[0] for d in deliveries]
    if len(set(seen)) != len(seen):
        return R.fail("wait_iterator/input-delivered-twice", "the same index was delivered twice", {"deliveries": deliveries})
    got_inputs = [d[2] for d in deliveries]
    if dup:
        # a future given twice may be yielded once or once per position; every distinct future at least once
        if set(got_inputs) != set(range(k)) or got_inputs.count(1) != 1 or got_inputs.count(0) not in (1, 2):
            return R.fail("wait_iterator/duplicate-future-wrong-deliveries",
                          "with a future passed twice, each distinct future must be delivered (once, or once per position)",
                          {"deliveries": deliveries})
        return
    if sorted(got_inputs) != list(range(k)):
        return R.fail("wait_iterator/input-never-delivered" if len(got_inputs) < k else "wait_iterator/input-delivered-twice",
                      "not every input was delivered exactly once", {"deliveries": deliveries})
    # completion order; inputs that were already done at construction may come in any order, but first
    if sorted(got_inputs[:npre]) != sorted(order[:npre]) or got_inputs[npre:] != rest:
        return R.fail("wait_iterator/not-in-completion-order", "deliveries are not in completion order",
                      {"got_input_order": got_inputs, "completion_order": list(order), "already_done": npre})


async def run_wt(R, case):
    _, form, kinds, outs, order, npre, (dform, advpos) = case
    k = len(kinds)
    clock = sh.Clock()
    inps = R.inps = [Inp(i, kinds[i], outs[i]) for i in range(k)]
    for i in order[:npre]:
        inps[i].complete()
    target = inps[0].obj if form == "single" else [x.obj for x in inps]
    if dform.startswith("late-"):
        import datetime
        from tornado.ioloop import IOLoop
        await asyncio.sleep(1.0)     # the inputs finished one (virtual) second ago
        now = IOLoop.current().time()
        deadline = {"late-tdzero": datetime.timedelta(0), "late-neg": datetime.timedelta(seconds=-0.5),
                    "late-absnow": now, "late-abspast": now - 0.5}[dform]
        R.ctx.count("deadline_not_after_call_cases")
    else:
        deadline = clock.arg((dform, 0))
    try:
        out = gen.with_timeout(deadline, target)
    except BaseException as e:
        for x in inps:
            if asyncio.iscoroutine(x.obj):
                x.obj.close()
        return R.fail(f"with_timeout/raises-{type(e).__name__}-synchronously/{R.tag()}",
                      "gen.with_timeout raised instead of returning a future", {"err": repr(e)})
    await vloop.settle(2)
    rest = [i for i in order[npre:] if outs[i] != "n"]
    never = any(o == "n" for o in outs)
    ndone = npre
    expired_at = None          # number of inputs done when the deadline passed
    for slot in range(len(order[npre:]) + 1):
        if advpos == slot:
            await clock.advance()
            expired_at = ndone
        if slot < len(order[npre:]):
            i = order[npre:][slot]
            if outs[i] != "n":
                inps[i].complete()
                ndone += 1
            await vloop.settle(2)
    await vloop.settle(2)
    all_done = (ndone == k) and not never
    timed_out = expired_at is not None and expired_at < k
    if timed_out:
        R.ctx.count("timeouts_expected")
        want = ("t",)
    elif all_done:
        bad = next((inps[i].spec() for i in range(k) if outs[i] != "r"), None)
        want = bad if bad is not None else (("r", 0) if form == "single" else ("r", [i * 10 for i in range(k)]))
    else:
        want = ("p",)
    got = outcome_of(out)
    R.ctx.count("quiescence_evals")
    if want != ("p",) and got == ("p",):
        return R.fail(f"with_timeout/output-left-pending/{R.tag()}/{'deadline-passed' if timed_out else 'input-done'}",
                      "the input is done (or the deadline has passed) and the loop is quiescent but with_timeout's future "
                      "is still pending", {"want": want})
    R.ctx.count("oracle_evals")
    if got != want:
        return R.fail(f"with_timeout/wrong-outcome:{oname(want)}->{oname(got)}",
                      "with_timeout's outcome differs from the specification (input's outcome if done before the deadline, "
                      "else TimeoutError)", {"got": got, "want": want, "deadline_passed_after_n_inputs": expired_at})


async def run_cf(R, case):
    _, bstate, (ak, bk), (out,), _, apre, _ = case
    a = Inp(1, ak, out)
    R.inps = [a]
    b = concurrent.futures.Future() if bk == "concurrent" else Future()
    if apre:
        a.complete()
    if bstate == "result-before-chain":
        b.set_result("B")
    elif bstate == "cancelled-before-chain":
        b.cancel()
    try:
        chain_future(a.hidden, b)
    except BaseException as e:
        return R.fail(f"chain_future/raises-{type(e).__name__}-synchronously/{R.tag()}/{ak}-source",
                      "chain_future raised", {"err": repr(e)})
    await vloop.settle(2)
    if bstate == "result-after-chain":
        b.set_result("B")
    elif bstate == "cancelled-after-chain":
        b.cancel()
    await vloop.settle()
    if not apre:
        a.complete()
    await vloop.settle(3)
    if bstate == "pending":
        want = a.spec()
    elif bstate.startswith("result"):
        want = ("r", "B")
    else:
        want = ("c",)
    got = outcome_of(b)
    R.ctx.count("quiescence_evals")
    if got == ("p",):
        return R.fail(f"chain_future/target-left-pending/{R.tag()}/{ak}-source",
                      "the source future is done and the loop is quiescent but the chained future is still pending",
                      {"want": want})
    R.ctx.count("oracle_evals")
    if got != want:
        return R.fail(f"chain_future/wrong-outcome:{oname(want)}->{oname(got)}/{ak}-source-{bk}-target",
                      "the chained future's outcome is not a copy of the source's (or it was overwritten although already done)",
                      {"got": got, "want": want})


RUNNERS = {"multi": run_multi, "wi": run_wi, "wt": run_wt, "cf": run_cf}
COUNTERS = {"multi": "multi_cases", "wi": "wait_iterator_cases", "wt": "with_timeout_cases", "cf": "chain_future_cases"}
_ncases = 0


async def drive(case, ctx, lm):
    lm.attach_loop(asyncio.get_event_loop())
    R = Run(case, ctx, lm)
    await RUNNERS[case[0]](R, case)
    for x in R.inps:      # the harness retrieves its own inputs' exceptions so that only the combinators' reports remain
        h = x.hidden
        if h.done() and not h.cancelled():
            h.exception()
    await vloop.settle()
    return R


def run_case(case, ctx):
    global _ncases
    _ncases += 1
    ctx.count(COUNTERS[case[0]])
    if "c" in case[3]:
        ctx.count("cancelled_input_cases")
    with LogMon() as lm:
        try:
            R = vloop.run(drive, case, ctx, lm, collect=False)
        except vloop.Quiescent:
            ctx.violation("harness/quiescent", "virtual loop went idle inside the driver", None)
            return
        gc.collect() if _ncases % 300 == 0 else None
        ctx.count("log_checks")
        if not R.failed and lm.loop_exceptions:
            e = lm.loop_exceptions[0]
            kind = "exception-in-callback" if "callback" in str(e["message"]) else "loop-error"
            exc = e["exception"].split("(")[0]
            mech = f"{COUNTERS[case[0]][:-6]}/{kind}-{exc}/{R.tag()}"
            if case[1] in ("dupargs", "dupkwargs") and exc == "KeyError":
                mech = DUP_KEYERROR
            ctx.violation(mech,
                          "the event loop reported an uncaught exception while the combinator ran",
                          {"loop_exceptions": lm.loop_exceptions[:3]})
    k = len(case[3])
    nontriv = k >= 2 or any(o != "r" for o in case[3]) or (case[0] == "wt" and case[6][1] is not None)
    ctx.mark(case, nontriv)
    if nontriv and case[0] != "cf":
        ctx.sample({"combinator": case[0], "form": case[1], "kinds": case[2], "outcomes": case[3], "order": case[4],
                    "already_done": case[5], "extra": case[6]}, limit=4)
