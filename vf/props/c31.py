"""C31 — routing picks the first matching rule; reverse URLs route back.

Routing tables are generated in a neutral form, built both as real tornado routers
(RuleRouter / ReversibleRuleRouter with nested routers and HostMatches rules, and
web.Application with add_handlers / default_host) and handed to the reference resolver
(vf/refs/router.py: re.fullmatch per rule, in order).  Requests are driven through the public
HTTPServerConnectionDelegate boundary (start_request / headers_received / finish) with marker
callables as targets, so the chosen rule and the arguments it received are observed directly.
"""
from __future__ import annotations

import re

from vf import core

core.use_repo()
from tornado import httputil  # noqa: E402
from tornado.httputil import HTTPHeaders, HTTPServerRequest, RequestStartLine  # noqa: E402
from tornado.routing import (AnyMatches, HostMatches, PathMatches, ReversibleRuleRouter,  # noqa: E402
                             Rule, RuleRouter)
from tornado.web import Application, ErrorHandler, RequestHandler, URLSpec  # noqa: E402

from vf.refs import router as ref  # noqa: E402

PROP = "C31"
META = {
    "level": "exploration",
    "technique": "reference router (re.fullmatch per rule in order) vs the real routers on generated rule tables; "
                 "reverse_url round trip through the real router",
    "level_text": "Generated ordered rule tables (literal segments with regex-special characters, capturing groups, "
                  "named groups, optional groups, nested routers, host rules, Application.add_handlers/default_host) "
                  "are built as real routers and resolved by an independent first-full-match reference; for every "
                  "request the chosen target and its percent-decoded arguments are compared. Named reversible rules "
                  "are reversed with arguments drawn from their groups' languages and the result is routed back "
                  "through the real router.",
    "level_note": "The reference shares Python's `re` engine with the implementation (but neither the `$`-appending nor "
                  "`match`). Request paths are ASCII without whitespace (what a request line can carry). "
                  "'Reversible' is the implementation's own notion restricted to patterns made of escaped literals "
                  "and plain capturing groups; arguments are representable when the raw text and every "
                  "percent-encoding of it are in the group's language.",
    "design_ref": "DESIGN.md §4 C31",
    "engine": "oracle",
}
RULE = ("tables of 1-6 rules (depth <= 2) over literal atoms {a, ab, x1, ., +, %, %20, (, ), $, -, *, [, ^, ...} escaped with "
        "re.escape and groups {[^/]+, [^/]*, \\d+, .*, .+, [a-z]+, a|ab} (positional or named, optional variants, "
        "trailing /?), host rules, nested routers, Application host groups; requests are instances of the rules with "
        "percent-escapes (%2F %25 %zz %C3%A9 %00), near-misses (extra/missing/changed character, case change) and "
        "random atom strings x hosts (case, port, look-alike suffix/prefix). A request is non-trivial if at least one "
        "rule of the table matches it or it is a near-miss of one; distinct by (table, host, path).")
FLOORS = {"quick": 6000, "thorough": 600000}
ASSUMPTIONS = [
    "request paths are ASCII without whitespace or newline (a request line cannot carry others)",
    "patterns have no top-level alternation (excluded by the statement)",
    "a rule is 'reversible' if the implementation reports it so AND its pattern consists of escaped literals and plain capturing groups",
    "reverse arguments are representable: the raw text and its percent-encoded forms are in the group's language",
    "Application: the relative order of host-specific groups and the wildcard handlers, and default_host when the Host "
    "header matched some group, are not pinned: cases where the readings disagree are not gated",
]
REQUIRED_COUNTERS = ["oracle_evals", "dispatch_evals", "dispatch_matched", "dispatch_none", "args_evals",
                     "reverse_evals", "app_dispatch_evals", "nested_evals", "host_rule_evals"]

# ---------------------------------------------------------------------------
# pattern structures

LIT_ATOMS = ["a", "b", "ab", "x1", "user", "api", "v2", ".", "+", "%", "%20", "100%", "(", ")", "$", "-", "_", "~",
             "*", "[", "]", "^", "{", "}", "a.b", "a+", "c$", "%2F", "=", "&", ":", "@", "!", ",",
             "\\", "back\\slash", "\\d", "a\\1b", "\\W."]
GROUPS = {"seg": "[^/]+", "segs": "[^/]*", "num": r"\d+", "any": ".*", "any1": ".+", "low": "[a-z]+", "alt": "a|ab"}
SEG_ATOMS = ["a", "b", "x1", "%20", "%2F", "%2f", "%25", "%zz", "%C3%A9", "%", "+", ".", "$", "%E6%BC%A2", "%00", "%ff",
             "~", "-", "%4", "A", "7", "(", ")", "*", "=", "&"]


def sample_group(kind, rng):
    if kind in ("seg", "segs"):
        n = rng.randint(0 if kind == "segs" else 1, 3)
        return "".join(rng.choice(SEG_ATOMS) for _ in range(n))
    if kind == "num":
        return rng.choice(["0", "7", "42", "007", "1234567890"])
    if kind in ("any", "any1"):
        n = rng.randint(0 if kind == "any" else 1, 4)
        return "".join(rng.choice(SEG_ATOMS + ["/", "/"]) for _ in range(n))
    if kind == "low":
        return rng.choice(["a", "b", "abc", "zz"])
    if kind == "alt":
        return rng.choice(["a", "ab"])
    raise ValueError(kind)


def gen_pattern(rng, gi):
    """Returns a pattern structure: {"els": [...], "named": bool, "pre": str, "suf": str}.
    element: ("lit", text) | ("grp", kind, name|None, optional)  | ("optslash",)"""
    named = rng.random() < 0.3
    els = []
    nseg = rng.choice([1, 1, 2, 2, 3])
    for _ in range(nseg):
        els.append(("lit", "/"))
        r = rng.random()
        if r < 0.5:
            els.append(("lit", rng.choice(LIT_ATOMS)))
        elif r < 0.85:
            kind = rng.choice(list(GROUPS))
            opt = rng.random() < 0.12
            gi[0] += 1
            els.append(("grp", kind, f"g{gi[0]}" if named else None, opt))
        else:
            els.append(("lit", rng.choice(LIT_ATOMS)))
            gi[0] += 1
            els.append(("grp", rng.choice(["seg", "num", "low"]), f"g{gi[0]}" if named else None, False))
            if rng.random() < 0.5:
                els.append(("lit", rng.choice(LIT_ATOMS)))
    if rng.random() < 0.12:
        els.append(("optslash",))
    pre = "^" if rng.random() < 0.1 else ""
    suf = "$" if rng.random() < 0.15 else ""
    return {"els": els, "named": named, "pre": pre, "suf": suf}


def pat_regex(p):
    out = [p["pre"]]
    for e in p["els"]:
        if e[0] == "lit":
            out.append(re.escape(e[1]))
        elif e[0] == "grp":
            body = GROUPS[e[1]]
            out.append(("(?P<%s>%s)" % (e[2], body) if e[2] else "(%s)" % body) + ("?" if e[3] else ""))
        else:
            out.append("/?")
    out.append(p["suf"])
    return "".join(out)


def pat_simple(p):
    """Escaped literals and plain capturing groups only (the class the reverse half is stated for)."""
    return all(e[0] == "lit" or (e[0] == "grp" and not e[3]) for e in p["els"])


def pat_instance(p, rng):
    out = []
    for e in p["els"]:
        if e[0] == "lit":
            out.append(e[1])
        elif e[0] == "grp":
            if not (e[3] and rng.random() < 0.5):
                out.append(sample_group(e[1], rng))
        elif rng.random() < 0.5:
            out.append("/")
    return "".join(out)


def perturb(path, rng):
    if not path:
        return "/"
    r = rng.random()
    i = rng.randrange(len(path))
    if r < 0.25:
        return path + rng.choice(["/", "x", "$", "%", "a", ".", "/a"])
    if r < 0.45:
        return path[:-1] or "/"
    if r < 0.6:
        return path[:i] + rng.choice(["x", "/", "%2F", ".", "A", "$"]) + path[i + 1:]
    if r < 0.75:
        return path[:i] + path[i:].swapcase()
    if r < 0.85:
        return rng.choice(["/x", "x", "//"]) + path
    return path[:i] + path[i + 1:]


HOST_PATS = [r"example\.com", r".*\.example\.com", r"(www\.)?example\.com", r".*", r"a\.com", r"example.com",
             r"localhost", r"127\.0\.0\.1", r"\[::1\]", r"example\.com$", r"^a\.com$", r"[a-z]+\.example\.(com|org)"]
HOSTS = ["example.com", "www.example.com", "EXAMPLE.com", "example.com:8080", "api.example.com", "evilexample.com",
         "example.com.evil", "a.com", "localhost", "127.0.0.1", "[::1]", "[::1]:80", "exampleXcom", "a.com:443",
         "www.example.org", "xa.com", "a.comx", "Www.Example.Com:80"]


# ---------------------------------------------------------------------------
# neutral tables

def gen_table(rng, depth, ids, gi, names, allow_host=True, maxrules=6):
    n = rng.randint(1, maxrules)
    table = []
    for _ in range(n):
        r = rng.random()
        if r < 0.78 or not allow_host:
            p = gen_pattern(rng, gi)
            cond = ("path", pat_regex(p))
        elif r < 0.92:
            p = None
            cond = ("host", rng.choice(HOST_PATS))
        else:
            p = None
            cond = ("any",)
        rule = {"cond": cond, "pstruct": p, "leaf": None, "sub": None, "kwargs": {}, "name": None}
        if depth < 2 and rng.random() < (0.5 if cond[0] != "path" else 0.12):
            rule["sub"] = gen_table(rng, depth + 1, ids, gi, names, allow_host=allow_host, maxrules=3)
        else:
            ids[0] += 1
            rule["leaf"] = ids[0]
            if rng.random() < 0.3:
                rule["kwargs"] = {"k": ids[0]}
            if p is not None and rng.random() < 0.6:
                rule["name"] = f"n{ids[0]}"
                names.append(rule)
        table.append(rule)
    return table


def paths_for(table, rng, n):
    """Request paths derived from the table's path rules."""
    prules = [r for r, anc in ref.leaves(table) if r["pstruct"] is not None]
    prules += [a for r, anc in ref.leaves(table) for a in anc if a["pstruct"] is not None]
    out = []
    for _ in range(n):
        r = rng.random()
        if prules and r < 0.85:
            p = pat_instance(rng.choice(prules)["pstruct"], rng)
            if rng.random() < 0.35:
                p = perturb(p, rng)
            out.append(p or "/")
        else:
            out.append("/" + "".join(rng.choice(LIT_ATOMS + SEG_ATOMS + ["/"]) for _ in range(rng.randint(0, 4))))
    return out


ARG_SAMPLES = {
    "seg": ["a", "x y", "é", "%", "100%", "a?b", "a#b", "a+b", "a&b=c", "漢", "%41", "a b+c", "~", "'", '"', "\\", b"\xff\xfe",
            b"raw", 42, "ü.", "$", "(x)"],
    "segs": ["", "a", "x y", "é", "%25", 7],
    "num": ["0", "42", "007", 42, 0, b"13"],
    "any": ["", "a/b", "/", "a b/c?d", "é/ü", "%2F", "x", 5, b"a/\xff"],
    "any1": ["a/b", "/", "a b/c?d", "é/ü", "%2F", "x", 5],
    "low": ["a", "abc", "zz", b"q"],
    "alt": ["a", "ab"],
}


def gen_case(rng, kind):
    ids, gi, names = [0], [0], []
    if kind == "rr":
        table = gen_table(rng, 0, ids, gi, names)
        app = None
    else:
        wild = gen_table(rng, 1, ids, gi, names, allow_host=False, maxrules=4) if rng.random() < 0.85 else []
        hosts = []
        for _ in range(rng.choice([0, 1, 1, 2, 3])):
            hosts.append((rng.choice(HOST_PATS), gen_table(rng, 1, ids, gi, names, allow_host=False, maxrules=3)))
        app = {"wild": wild, "hosts": hosts,
               "default_host": rng.choice([None, None, "example.com", "www.example.com", "a.com"]),
               "default_handler": rng.random() < 0.2}
        table = None
    whole = table if table is not None else (app["wild"] + [r for _h, t in app["hosts"] for r in t])
    nreq = 12
    paths = paths_for(whole, rng, nreq) if whole else ["/"] * 3
    reqs = []
    for p in paths:
        host = rng.choice(HOSTS) if rng.random() < 0.8 else "example.com"
        xreal = rng.random() < 0.1
        reqs.append((host, p, xreal))
    revs = []
    for rule in names:
        p = rule["pstruct"]
        if not pat_simple(p):
            revs.append((rule["name"], None))  # only safety/consistency is observed
            continue
        for _ in range(2):
            args = [rng.choice(ARG_SAMPLES[e[1]]) for e in p["els"] if e[0] == "grp"]
            revs.append((rule["name"], args))
    return {"kind": kind, "table": table, "app": app, "reqs": reqs, "revs": revs}


def shards(tier, seed):
    q = tier == "quick"
    out = []
    for j in range(10):
        out.append({"kind": "rr", "n": 180 if q else 16000, "j": j})
    for j in range(6):
        out.append({"kind": "app", "n": 150 if q else 14000, "j": j})
    return out


def gen_cases(spec):
    rng = core.rng_for(spec["seed"], PROP, f"{spec['kind']}:{spec['j']}")
    for _ in range(spec["n"]):
        yield gen_case(rng, spec["kind"])


def _lit(*parts):
    els = []
    for x in parts:
        els.append(x if isinstance(x, tuple) else ("lit", x))
    return {"els": els, "named": False, "pre": "", "suf": ""}


def directed_cases():
    def rule(p, leaf, name=None):
        return {"cond": ("path", pat_regex(p)), "pstruct": p, "leaf": leaf, "sub": None, "kwargs": {}, "name": name}
    # literal % in a reversible pattern (DESIGN section 5)
    p1 = _lit("/", "my%20docs", "/", ("grp", "num", None, False))
    yield {"kind": "rr", "table": [rule(p1, 1, "n1")], "app": None,
           "reqs": [("example.com", "/my%20docs/5", False)], "revs": [("n1", [5]), ("n1", ["42"])]}
    p2 = _lit("/", "100%", "/", ("grp", "seg", None, False))
    yield {"kind": "app", "table": None,
           "app": {"wild": [rule(p2, 1, "n1")], "hosts": [], "default_host": None, "default_handler": False},
           "reqs": [("example.com", "/100%/x", False)], "revs": [("n1", ["x"])]}
    # a pattern ending in an escaped dollar sign
    p3 = _lit("/", "pay", "$")
    p4 = _lit("/", ("grp", "any", None, False))
    yield {"kind": "rr", "table": [rule(p3, 1), rule(p4, 2)], "app": None,
           "reqs": [("example.com", "/pay$", False), ("example.com", "/pay$/admin", False)], "revs": []}


# ---------------------------------------------------------------------------
# real routers

class Conn(httputil.HTTPConnection):
    """Dummy connection: records what the routing layer writes (the 404 of the default delegate)."""
    context = None

    def __init__(self):
        self.written = []
        self.finished = False

    def write_headers(self, start_line, headers, chunk=None):
        self.written.append(start_line)
        from tornado.concurrent import Future
        f = Future()
        f.set_result(None)
        return f

    def write(self, chunk):
        from tornado.concurrent import Future
        f = Future()
        f.set_result(None)
        return f

    def finish(self):
        self.finished = True

    def set_close_callback(self, cb):
        pass


def build_rr(table, calls, reversible):
    cls = ReversibleRuleRouter if reversible else RuleRouter
    rules = []
    for i, r in enumerate(table):
        c = r["cond"]
        if r["sub"] is not None:
            target = build_rr(r["sub"], calls, reversible)
        else:
            lid = r["leaf"]

            def target(request, _lid=lid, **kw):
                calls.append((_lid, request, kw))
        if c[0] == "path":
            style = (i + len(table)) % 3
            if style == 0:
                tup = [c[1], target]
                if r["kwargs"] or r["name"]:
                    tup.append(r["kwargs"])
                if r["name"]:
                    tup.append(r["name"])
                rules.append(tuple(tup))
            elif style == 1:
                rules.append(Rule(PathMatches(c[1]), target, r["kwargs"], r["name"]))
            else:
                # a pre-compiled pattern is used as given: anchor it ourselves unless the generator already did
                rules.append(Rule(PathMatches(re.compile(c[1] if r["pstruct"]["suf"] else c[1] + "$")), target,
                                  r["kwargs"] or None, r["name"]))
        elif c[0] == "host":
            rules.append(Rule(HostMatches(c[1]), target, r["kwargs"], None))
        else:
            rules.append(Rule(AnyMatches(), target, r["kwargs"]))
    return cls(rules)


class _Handlers:
    def __init__(self):
        self.by_id = {}
        self.by_cls = {}

    def get(self, lid):
        if lid not in self.by_id:
            cls = type(f"H{lid}", (RequestHandler,), {})
            self.by_id[lid] = cls
            self.by_cls[cls] = lid
        return self.by_id[lid]


def app_rules(table, hs, top=True):
    out = []
    for i, r in enumerate(table):
        pat = r["cond"][1]
        if r["sub"] is not None:
            out.append((pat, app_rules(r["sub"], hs, False)))
            continue
        h = hs.get(r["leaf"])
        style = i % 3
        if style == 0 or (r["name"] and style == 1):
            out.append(URLSpec(pat, h, r["kwargs"] or None, name=r["name"]))
        elif r["name"]:
            out.append((pat, h, r["kwargs"], r["name"]))
        elif r["kwargs"]:
            out.append((pat, h, r["kwargs"]))
        else:
            out.append((pat, h))
    return out


class DefaultH(RequestHandler):
    pass


def build_app(app, hs):
    settings = {}
    if app["default_handler"]:
        settings["default_handler_class"] = DefaultH
        settings["default_handler_args"] = {}
    a = Application(app_rules(app["wild"], hs) or None, default_host=app["default_host"], **settings)
    for hp, t in app["hosts"]:
        a.add_handlers(hp, app_rules(t, hs))
    return a


def app_expectations(app, host_name, path, xreal):
    """Set of acceptable resolutions under the readings the documentation leaves open."""
    def first(tables):
        for t in tables:
            got = ref.resolve(t, host_name, path)
            if got is not None:
                return got
        return None
    matching = [t for hp, t in app["hosts"] if re.fullmatch(hp, host_name)]
    defaults = []
    if app["default_host"] is not None and not xreal:
        defaults = [t for hp, t in app["hosts"] if re.fullmatch(hp, app["default_host"])]
    readings = []
    for order in ((matching, [app["wild"]]), ([app["wild"]], matching)):
        base = first(order[0] + order[1])
        if base is not None:
            readings.append(base)
            continue
        if not defaults:
            readings.append(None)
        elif not matching:
            readings.append(first(defaults))          # documented: Host matched no pattern
        else:
            readings.append(first(defaults))          # Host matched a group whose paths did not: not pinned
            readings.append(None)
    uniq = []
    for r in readings:
        if r not in uniq:
            uniq.append(r)
    return uniq


# ---------------------------------------------------------------------------
# observation

def drive(router, host, path, xreal, calls):
    """Public boundary: start_request -> headers_received -> finish. Returns ('leaf', id, kw) | ('404',) | ('other', ...)"""
    conn = Conn()
    del calls[:]
    h = HTTPHeaders()
    h.add("Host", host)
    if xreal:
        h.add("X-Real-Ip", "10.0.0.1")
    d = router.start_request(None, conn)
    d.headers_received(RequestStartLine("GET", path, "HTTP/1.1"), h)
    d.finish()
    if calls:
        lid, request, kw = calls[0]
        return ("leaf", lid, kw, len(calls))
    if conn.written:
        return ("status", conn.written[0].code)
    return ("nothing",)


def classify_rule(table_leaves, lid):
    for r, anc in table_leaves:
        if r["leaf"] == lid:
            c = r["cond"]
            if c[0] == "path":
                core_pat = c[1]
                if core_pat.endswith("\\$"):
                    return "pattern-ends-with-escaped-dollar"
                return "path-rule"
            return c[0] + "-rule"
    return "unknown"


def norm_kw(kw):
    args = kw.get("path_args")
    kwargs = kw.get("path_kwargs")
    return (list(args) if args is not None else [], dict(kwargs) if kwargs is not None else {},
            kw.get("target_kwargs") or {})


def check_dispatch(ctx, where, got, want, table_leaves, wit):
    """got: ('leaf', id, kw, ncalls) | ('status', 404) ; want: (leaf, args, kwargs, tkw) | None"""
    ctx.count("dispatch_evals")
    if want is None:
        ctx.count("dispatch_none")
        if got[0] == "leaf":
            ctx.violation(f"{where}/dispatched-though-no-rule-matches/{classify_rule(table_leaves, got[1])}",
                          "a request was dispatched to a rule whose patterns do not match the whole host and path",
                          wit)
            return False
        ok = got == ("status", 404)
        ctx.check(ok, f"{where}/no-match-but-not-404", "no rule matches but the router did not answer 404", wit)
        return ok
    ctx.count("dispatch_matched")
    if got[0] != "leaf":
        ctx.violation(f"{where}/not-dispatched-though-rule-matches/{classify_rule(table_leaves, want[0])}",
                      "a rule matches the whole host and path but the request was not dispatched to it", wit)
        return False
    if got[1] != want[0]:
        order = "earlier" if got[1] < want[0] else "later"
        ctx.violation(f"{where}/dispatched-to-{order}-rule/{classify_rule(table_leaves, got[1])}",
                      "the request was dispatched to a rule other than the first one that matches the whole host and path",
                      wit)
        return False
    ctx.count("oracle_evals")
    return True


def run_rr(case, ctx):
    table = case["table"]
    calls = []
    reversible = any(True for _ in case["revs"]) or (len(case["reqs"]) % 2 == 0)
    router = build_rr(table, calls, reversible)
    tl = list(ref.leaves(table))
    nested = any(anc for _r, anc in tl)
    hostrules = any(r["cond"][0] == "host" or any(a["cond"][0] == "host" for a in anc) for r, anc in tl)
    for host, path, xreal in case["reqs"]:
        hn = ref.host_name_of(host)
        want = ref.resolve(table, hn, path)
        try:
            got = drive(router, host, path, xreal, calls)
        except Exception as e:  # noqa: BLE001
            ctx.violation(f"rr/routing-raises-{type(e).__name__}", "routing a request raised",
                          {"host": host, "path": path, "exc": repr(e), "table": show(table)})
            continue
        wit = {"host": host, "path": path, "got": repr(got)[:300], "want": repr(want), "table": show(table)}
        if nested:
            ctx.count("nested_evals")
        if hostrules:
            ctx.count("host_rule_evals")
        near = want is not None or any(r["pstruct"] is not None for r, _a in tl)
        ctx.mark(("rr", show(table), host, path), near)
        if want is not None:
            ctx.sample({"rules": show(table), "host": host, "path": path, "expected_leaf": want[0]})
        if not check_dispatch(ctx, "rr", got, want, tl, wit) or want is None:
            continue
        ctx.count("args_evals")
        gargs, gkw, gtkw = norm_kw(got[2])
        ctx.check(got[3] == 1, "rr/target-called-more-than-once", "the target was invoked more than once", wit)
        ctx.check(gargs == want[1] and gkw == want[2], "rr/captured-groups-differ",
                  "captured groups are not the percent-decoded substrings of the path",
                  dict(wit, got_args=gargs, got_kwargs=gkw))
        ctx.check(gtkw == want[3], "rr/target-kwargs-differ", "the rule's target_kwargs did not reach the target",
                  dict(wit, got_tkw=gtkw))
    if reversible:
        run_reverse(case, ctx, "rr", router, table, calls, None)


def show(table):
    out = []
    for r in table:
        c = r["cond"]
        s = c[0] + ":" + (c[1] if len(c) > 1 else "")
        if r["sub"] is not None:
            out.append([s, show(r["sub"])])
        else:
            out.append(s + f" -> {r['leaf']}" + (f" name={r['name']}" if r["name"] else ""))
    return out


def pattern_tag(p):
    """Stable feature label of a pattern structure (for mechanism keys)."""
    lits = [e[1] for e in p["els"] if e[0] == "lit"]
    if any(")" in x for x in lits):
        return "literal-close-paren-in-pattern"
    if any("%" in x for x in lits):
        return "literal-percent-in-pattern"
    if any("\\" in x for x in lits):
        return "literal-backslash-in-pattern"
    if lits and p["els"][-1][0] == "lit" and lits[-1].endswith("$") and not p["suf"]:
        return "pattern-ends-with-escaped-dollar"
    return "other"


def representable(p, args):
    """The lenient reading of 'arguments representable in its groups': the raw text and every
    percent-encoding of it are in the group's language, and the reversed path has one parse
    (with several groups no argument may contain '/')."""
    ngroups = sum(1 for e in p["els"] if e[0] == "grp")
    if ngroups > 1:
        for a in args:
            if (b"/" in a) if isinstance(a, bytes) else ("/" in str(a)):
                return False
    return True


def reverse_path_to_request(url):
    return url.partition("?")[0]


def arg_bytes(a):
    if isinstance(a, bytes):
        return a
    return str(a).encode("utf-8")


def run_reverse(case, ctx, where, router, table, calls, app_ctx):
    """reverse_url round trip for the named rules of a case."""
    whole = table if table is not None else (case["app"]["wild"] + [r for _h, t in case["app"]["hosts"] for r in t])
    by_name = {r["name"]: (r, anc) for r, anc in ref.leaves(whole) if r["name"]}
    for name, args in case["revs"]:
        rule, anc = by_name[name]
        p = rule["pstruct"]
        regex = rule["cond"][1]
        tag = pattern_tag(p)
        ngroups = sum(1 for e in p["els"] if e[0] == "grp")
        if args is None:
            # not in the class the statement speaks about: only observe
            ctx.count("unspecified_reverse_not_simple")
            try:
                router.reverse_url(name, *(["1"] * ngroups))
            except Exception:  # noqa: BLE001
                ctx.count("unspecified_reverse_not_simple_raised")
            continue
        # is it reversible in the implementation's own terms?
        wit = {"pattern": regex, "args": [repr(a) for a in args], "table": show(whole)}
        if not representable(p, args):
            ctx.count("unspecified_reverse_args_ambiguous")
            try:
                router.reverse_url(name, *args)
            except Exception:  # noqa: BLE001
                pass
            continue
        try:
            url = router.reverse_url(name, *args)
        except Exception as e:  # noqa: BLE001
            if isinstance(e, ValueError) and "Cannot reverse url regex" in str(e):
                lits = [x[1] for x in p["els"] if x[0] == "lit"]
                if pat_simple(p) and not any("(" in x or ")" in x for x in lits):
                    # escaped literals (re.escape output, which re_unescape is documented to invert) and plain
                    # capturing groups only, no literal parentheses: this is the documented reversible class
                    ctx.count("reverse_evals")
                    ctx.violation(f"reverse/declared-irreversible/{tag}",
                                  "reverse_url refuses ('Cannot reverse url regex') a rule made only of re.escape'd "
                                  "literals and plain capturing groups", dict(wit, exc=repr(e)))
                    continue
                ctx.count("unspecified_reverse_declared_irreversible")
                continue
            ctx.count("reverse_evals")
            ctx.violation(f"reverse/raises-{type(e).__name__}/{tag}",
                          "reverse_url raised for a reversible rule and representable arguments",
                          dict(wit, exc=repr(e)))
            continue
        ctx.count("reverse_evals")
        if not ctx.check(isinstance(url, str), "reverse/result-not-str", "reverse_url did not return a string",
                         dict(wit, url=repr(url))):
            continue
        path = reverse_path_to_request(url)
        want_args = [arg_bytes(a) for a in args]
        if p["named"]:
            names = [e[2] for e in p["els"] if e[0] == "grp"]
            want = ([], dict(zip(names, want_args)))
        else:
            want = (want_args, {})
        wit["url"] = url
        # (a) the rule alone: the path must match it with the same arguments
        solo_calls = []
        solo_rule = dict(rule, sub=None)
        solo = build_rr([solo_rule], solo_calls, True)
        try:
            got = drive(solo, "example.com", path, False, solo_calls)
        except Exception as e:  # noqa: BLE001
            ctx.violation(f"reverse/route-back-raises-{type(e).__name__}", "routing the reversed url raised",
                          dict(wit, exc=repr(e)))
            continue
        if got[0] != "leaf":
            ctx.violation(f"reverse/url-does-not-match-its-own-rule/{tag}",
                          "the path returned by reverse_url is not matched by the rule it was built from",
                          dict(wit, got=repr(got)))
            continue
        gargs, gkw, _ = norm_kw(got[2])
        if not ctx.check((gargs, gkw) == want, f"reverse/arguments-do-not-round-trip/{tag}",
                         "routing the reversed url yields different arguments", dict(wit, got=[gargs, gkw], want=want)):
            continue
        ctx.count("oracle_evals")
        # (b) through the full router, unless an earlier rule legitimately shadows it
        host_ok = None
        for h in HOSTS:
            hn = ref.host_name_of(h)
            if table is not None:
                exp = ref.resolve(table, hn, path)
            else:
                exps = app_expectations(case["app"], hn, path, False)
                exp = exps[0] if len(exps) == 1 else "ambiguous"
            if exp not in (None, "ambiguous") and exp[0] == rule["leaf"]:
                host_ok = h
                break
        if host_ok is None:
            ctx.count("unspecified_reverse_shadowed_or_unreachable")
            continue
        ctx.count("reverse_full_router_evals")
        if table is not None:
            got = drive(router, host_ok, path, False, calls)
            ok = got[0] == "leaf" and got[1] == rule["leaf"] and norm_kw(got[2])[:2] == want
        else:
            d = app_ctx["find"](host_ok, path, False)
            ok = d[0] == "leaf" and d[1] == rule["leaf"] and (d[2], d[3]) == want
            got = d
        chosen = classify_rule(list(ref.leaves(whole)), got[1]) if got[0] == "leaf" else "none"
        ctx.check(ok, f"reverse/does-not-route-back-through-router/{tag}/chosen-{chosen}",
                  "the reversed url does not route to its rule with the same arguments through the real router",
                  dict(wit, host=host_ok, got=repr(got)[:300]))


def run_app(case, ctx):
    app = case["app"]
    hs = _Handlers()
    a = build_app(app, hs)
    whole = app["wild"] + [r for _h, t in app["hosts"] for r in t]
    tl = list(ref.leaves(whole))

    def find(host, path, xreal):
        h = HTTPHeaders()
        h.add("Host", host)
        if xreal:
            h.add("X-Real-Ip", "10.0.0.1")
        req = HTTPServerRequest(start_line=RequestStartLine("GET", path, "HTTP/1.1"), headers=h, connection=Conn())
        d = a.find_handler(req)
        cls = d.handler_class
        if cls in hs.by_cls:
            return ("leaf", hs.by_cls[cls], list(d.path_args or []), dict(d.path_kwargs or {}), dict(d.handler_kwargs or {}))
        if cls is ErrorHandler:
            return ("status", (d.handler_kwargs or {}).get("status_code"))
        if cls is DefaultH:
            return ("default",)
        return ("other", repr(cls))

    shown = {"wild": show(app["wild"]), "hosts": [(hp, show(t)) for hp, t in app["hosts"]],
             "default_host": app["default_host"]}
    for host, path, xreal in case["reqs"]:
        hn = ref.host_name_of(host)
        wants = app_expectations(app, hn, path, xreal)
        try:
            got = find(host, path, xreal)
        except Exception as e:  # noqa: BLE001
            ctx.violation(f"app/routing-raises-{type(e).__name__}", "Application.find_handler raised",
                          {"host": host, "path": path, "exc": repr(e), "app": shown})
            continue
        ctx.count("app_dispatch_evals")
        if app["hosts"]:
            ctx.count("host_rule_evals")
        if any(anc for _r, anc in tl):
            ctx.count("nested_evals")
        ctx.mark(("app", repr(shown), host, path, xreal), True)
        wit = {"host": host, "path": path, "x_real_ip": xreal, "got": repr(got)[:300], "want": repr(wants), "app": shown}
        if len(wants) != 1:
            ctx.count("unspecified_app_order_or_default_host")
            # still: whatever was chosen must be one of the readings
            acceptable = any((w is None and got[0] in ("status", "default")) or
                             (w is not None and got[0] == "leaf" and got[1] == w[0]) for w in wants)
            ctx.check(acceptable, "app/dispatch-outside-every-reading",
                      "the chosen handler is not the first match under any documented ordering", wit)
            continue
        want = wants[0]
        if want is None:
            ctx.count("dispatch_evals")
            ctx.count("dispatch_none")
            if got[0] == "leaf":
                ctx.violation(f"app/dispatched-though-no-rule-matches/{classify_rule(tl, got[1])}",
                              "a request was dispatched to a handler whose patterns do not match the whole host and path", wit)
            elif app["default_handler"]:
                ctx.check(got == ("default",), "app/no-match-but-not-default-handler",
                          "no rule matches but default_handler_class was not used", wit)
            else:
                ctx.check(got == ("status", 404), "app/no-match-but-not-404",
                          "no rule matches but the 404 handler was not used", wit)
            continue
        g2 = ("leaf", got[1], None, 1) if got[0] == "leaf" else got
        if not check_dispatch(ctx, "app", g2, want, tl, wit):
            continue
        ctx.count("args_evals")
        ctx.check(got[2] == want[1] and got[3] == want[2], "app/captured-groups-differ",
                  "captured groups are not the percent-decoded substrings of the path", wit)
        ctx.check(got[4] == want[3], "app/handler-kwargs-differ", "the URLSpec kwargs did not reach the handler", wit)
    run_reverse(case, ctx, "app", a, None, None, {"find": find})


def run_case(case, ctx):
    if case["kind"] == "rr":
        run_rr(case, ctx)
    else:
        run_app(case, ctx)
