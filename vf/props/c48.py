"""C48 — OAuth 1.0 / 1.0a request signatures equal the RFC 5849 HMAC-SHA1 signatures.

Differential monitor: every generated (secrets, method, url, parameters) is signed by
tornado.auth._oauth_signature and _oauth10a_signature and by the independent signer
vf/refs/rfc5849.py (validated at import against the worked examples of RFC 5849 §1.2 /
§3.4.1.1 and OAuth Core 1.0 appendix A.5).  A mismatch is *named* by finding the smallest
set of known deviation switches of the reference that reproduces tornado's output; each
switch is its own mechanism key, an unexplained mismatch gets `signature/unexplained-mismatch`.

Call histories (second case kind): several signature computations in ONE process, through the two
functions and through OAuthMixin._oauth_request_parameters (1.0 and 1.0a), whose parameter sets are
related to each other: the same names with other values, the same values under other names, exact
repeats, and values that compare (and hash) equal but print differently (1 / True / 1.0 /
Decimal("1.0"), 0 / False / 0.0 / -0.0, 10**16 / 1e16, n / float(n)) mixed with their string
spellings.  Each signature must equal the RFC 5849 signature of ITS OWN parameters, a non-string
value standing for the text tornado's own request helpers put on the wire for it
(urllib.parse.urlencode: str(value)).
"""
from __future__ import annotations

import itertools
import urllib.parse
from decimal import Decimal

from vf import core
from vf.refs import rfc5849 as ref

core.use_repo()
from tornado import auth  # noqa: E402

PROP = "C48"
META = {
    "level": "exploration",
    "technique": "differential monitor against an independent RFC 5849 signer over generated secrets/methods/URLs/parameter sets; mismatches classified by deviation switches",
    "level_text": "Both signature functions are executed on generated inputs (parameter names and values over unreserved, reserved, space, '+', '%', non-ASCII and astral characters; secrets with reserved characters; mixed-case methods, schemes and hosts; registered names, IPv4 and bracketed IPv6-literal hosts; explicit default and non-default ports; escaped paths) and compared byte-for-byte with an independent RFC 5849 §3.4 implementation that reproduces the RFC's own worked examples.",
    "level_note": "Trusts vf/refs/rfc5849.py (self-checked against three published examples on import). URLs carry no query, fragment, userinfo or empty path and values are str/int (what the statement does not pin). Ports with leading zeros / empty ports are not generated: RFC 5849 §3.4.1.2 does not pin numeric normalisation of the port text.",
    "design_ref": "DESIGN.md §4 C48",
    "engine": "oracle",
}
RULE = ("cases are (consumer secret, token secret or none, method, url, parameter dict of 0-8 entries); generated per "
        "character class for names and values; non-trivial if the parameter set is non-empty and at least one of: a "
        "name or value needs percent-encoding, host/scheme is mixed case, a port is present, a secret needs encoding; "
        "distinct by the full case; call histories: 2-6 related calls in one process (functions and OAuthMixin), "
        "non-trivial if a value compares equal to but prints differently from a value signed earlier")
FLOORS = {"quick": 15000, "thorough": 400000}
ASSUMPTIONS = [
    "vf/refs/rfc5849.py implements RFC 5849 §3.4 (validated against the RFC's worked examples)",
    "URL query strings are passed via `parameters` (URLs in cases have no query/fragment/userinfo, non-empty path)",
    "OAuth 1.0 key construction is taken from the statement ('encoded key') = RFC 5849 §3.4.2 = OAuth Core 1.0 §9.2",
]
REQUIRED_COUNTERS = ["oracle_evals", "sig10_evals", "sig10a_evals", "class_name_needs_encoding",
                     "class_default_port", "class_secret_needs_encoding", "class_ipv6_literal_host",
                     "class_ipv6_literal_host_with_port", "history_cases", "history_calls", "mixin_evals",
                     "class_equal_value_printed_differently_earlier", "class_exact_repeat_of_earlier_call"]


def _selfcheck():
    p = [("b5", "=%3D"), ("a3", "a"), ("c@", ""), ("a2", "r b"), ("oauth_consumer_key", "9djdj82h48djs9d2"),
         ("oauth_token", "kkk9d7dh3k39sjv7"), ("oauth_signature_method", "HMAC-SHA1"),
         ("oauth_timestamp", "137131201"), ("oauth_nonce", "7d8f3e4a"), ("c2", ""), ("a3", "2 q")]
    want = ("POST&http%3A%2F%2Fexample.com%2Frequest&a2%3Dr%2520b%26a3%3D2%2520q%26a3%3Da%26b5%3D%253D%25253D%26c"
            "%2540%3D%26c2%3D%26oauth_consumer_key%3D9djdj82h48djs9d2%26oauth_nonce%3D7d8f3e4a%26oauth_signature"
            "_method%3DHMAC-SHA1%26oauth_timestamp%3D137131201%26oauth_token%3Dkkk9d7dh3k39sjv7")
    assert ref.signature_base_string("post", "HTTP://EXAMPLE.COM:80/request", p) == want
    p2 = [("file", "vacation.jpg"), ("size", "original"), ("oauth_consumer_key", "dpf43f3p2l4k3l03"),
          ("oauth_token", "nnch734d00sl2jdk"), ("oauth_signature_method", "HMAC-SHA1"),
          ("oauth_timestamp", "137131202"), ("oauth_nonce", "chapoH")]
    assert ref.hmac_sha1_signature("GET", "http://photos.example.net/photos", p2, "kd94hf93k423kf44",
                                   "pfkkdhi9sl3r4s00") == b"MdpQcU8iPSUjWoN/UDMsK2sui9I="
    p3 = p2[:4] + [("oauth_signature_method", "HMAC-SHA1"), ("oauth_timestamp", "1191242096"),
                   ("oauth_nonce", "kllo9940pd9333jh"), ("oauth_version", "1.0")]
    assert ref.hmac_sha1_signature("GET", "http://photos.example.net/photos", p3, "kd94hf93k423kf44",
                                   "pfkkdhi9sl3r4s00") == b"tR3+Ty81lMeYAr/Fid0kMTYa/WM="
    # IP-literal hosts keep their brackets; only a real port is a port
    assert ref.base_string_uri("HTTPS://[2001:DB8::1]:443/r") == "https://[2001:db8::1]/r"
    assert ref.base_string_uri("http://[::1]:8080/r") == "http://[::1]:8080/r"
    assert ref.base_string_uri("http://[::80]/r") == "http://[::80]/r"
    assert ref.base_string_uri("http://[::1]:8080/r", drop_ipv6_brackets=True) == "http://::1:8080/r"


_selfcheck()

# ---------------------------------------------------------------------------------------------

UNRES = "abcdefghijklmnopqrstuvwxyzABCDEFGHIJKLMNOPQRSTUVWXYZ0123456789-._~"
RESERVED = " !\"#$%&'()*+,/:;<=>?@[\\]^`{|}"
NONASCII = ["\xe9", "\xfc", "ß", "Ж", "中", "文", "٣", "€", "K"]
ASTRAL = ["\U0001f600", "\U00010348", "\U0010ffff"]
PLAIN_NAMES = ["oauth_consumer_key", "oauth_nonce", "oauth_signature_method", "oauth_timestamp", "oauth_token",
               "oauth_version", "oauth_callback", "oauth_verifier", "status", "a1", "a2", "z", "A", "B-1", "x.y", "t~"]


def text(rng, lo, hi, classes):
    out = []
    for _ in range(rng.randint(lo, hi)):
        c = rng.choice(classes)
        if c == "u":
            out.append(rng.choice(UNRES))
        elif c == "r":
            out.append(rng.choice(RESERVED))
        elif c == "n":
            out.append(rng.choice(NONASCII))
        elif c == "a":
            out.append(rng.choice(ASTRAL))
        elif c == "p":
            out.append("%" + rng.choice("0123456789ABCDEFabcdef") + rng.choice("0123456789ABCDEFabcdef"))
    return "".join(out)


def gen_name(rng, cls):
    if cls == "plain":
        return rng.choice(PLAIN_NAMES) if rng.random() < 0.6 else text(rng, 1, 8, "u")
    if cls == "reserved":
        return rng.choice(["a b", "a&b", "c@", "a=b", "a+b", "a%20", "x[]", "k/1", "q?", "~ "]) \
            if rng.random() < 0.5 else text(rng, 1, 6, "uur")
    if cls == "nonascii":
        return text(rng, 1, 5, "unn")
    return text(rng, 1, 4, "ua")


def gen_value(rng):
    r = rng.random()
    if r < 0.3:
        return text(rng, 0, 10, "u")
    if r < 0.6:
        return text(rng, 0, 10, "uurp")
    if r < 0.8:
        return text(rng, 1, 6, "unra")
    if r < 0.9:
        return rng.choice(["", " ", "+", "%", "a b", "a+b", "=%3D", "2 q", "http://cb.example/x?y=1&z=2", "~", "*"])
    return rng.randint(0, 10 ** 10)


def gen_secret(rng):
    r = rng.random()
    if r < 0.55:
        return text(rng, 1, 20, "u")
    if r < 0.85:
        return text(rng, 1, 12, "uur")
    if r < 0.95:
        return text(rng, 1, 8, "unr")
    return rng.choice(["", "&", "a&b", "%26", "+", " "])


# IPv6 literals (RFC 3986 IP-literal, brackets are part of the host): loopback, compressed, full, embedded IPv4,
# and addresses whose last group reads like a default port (":80]" / ":443]")
V6_HOSTS = ["[::1]", "[::]", "[2001:db8::1]", "[2001:db8:85a3::8a2e:370:7334]", "[fe80::abcd:ef01:2345:6789]",
            "[2001:db8:0:0:0:0:0:a]", "[::ffff:192.0.2.1]", "[::80]", "[2001:db8::443]", "[abcd:ef::80]", "[1::443]"]


def gen_v6(rng):
    if rng.random() < 0.6:
        return rng.choice(V6_HOSTS)
    n = rng.randint(1, 6)
    groups = ["%x" % rng.choice([0, 1, 0x80, 0x443, 0xa, 0xdb8, 0xffff, rng.randrange(0x10000)]) for _ in range(n)]
    k = rng.randint(0, n)
    return "[" + ":".join(groups[:k]) + "::" + ":".join(groups[k:]) + "]"


def gen_url(rng, port_cls, path_params):
    scheme = rng.choice(["http", "https"])
    host = rng.choice(["example.com", "api.example.org", "photos.example.net", "localhost", "127.0.0.1", "a-b.c",
                       "xn--bcher-kva.example"])
    if rng.random() < 0.2:
        host = gen_v6(rng)
    if rng.random() < 0.5:
        host = "".join(c.upper() if rng.random() < 0.5 else c for c in host)
    shown = scheme if rng.random() < 0.6 else "".join(c.upper() if rng.random() < 0.5 else c for c in scheme)
    port = ""
    if port_cls == "default":
        port = ":80" if scheme == "http" else ":443"
    elif port_cls == "other":
        port = ":" + rng.choice(["8080", "8443", "81", "4430", "8", "65535", "443" if scheme == "http" else "80"])
    segs = []
    for _ in range(rng.randint(1, 4)):
        segs.append(text(rng, 0, 8, "uuuup") + (rng.choice("!$'()*,@:") if rng.random() < 0.15 else ""))
    path = "/" + "/".join(segs)
    if path_params:
        path += ";" + text(rng, 1, 4, "u") + rng.choice(["", "=1", "=a;b=2"])
    return shown + "://" + host + port + path


def gen_case(rng, force=None):
    r = rng.random()
    port_cls = "none" if r < 0.6 else "other" if r < 0.8 else "default"
    path_params = rng.random() < 0.05
    name_mix = rng.random()
    n = rng.choice([0, 1, 2, 3, 4, 5, 6, 7, 8])
    params = {}
    for _ in range(n):
        if name_mix < 0.55:
            cls = "plain"
        else:
            cls = rng.choice(["plain", "plain", "reserved", "nonascii", "astral"])
        params[gen_name(rng, cls)] = gen_value(rng)
    consumer = gen_secret(rng)
    token = None if rng.random() < 0.3 else gen_secret(rng)
    method = rng.choice(["GET", "POST", "get", "Post", "PUT", "delete", "pAtCh", "HEAD"])
    return {"consumer": consumer, "token": token, "method": method,
            "url": gen_url(rng, port_cls, path_params), "params": sorted(params.items(), key=lambda kv: repr(kv))}


# ---------------------------------------------------------------------------------------------
# call histories

# values that compare and hash equal but are sent (and must be signed) as different texts
EQ_POOLS = [
    [1, True, 1.0, Decimal("1"), Decimal("1.0"), Decimal("1.00")],
    [0, False, 0.0, -0.0, Decimal("0"), Decimal("0.0"), Decimal("-0")],
    [2, 2.0, Decimal("2.00")],
    [-1, -1.0, Decimal("-1.0")],
    [20, 20.0, Decimal("2E+1")],
    [100, 100.0, Decimal("1E+2"), Decimal("100.0")],
    [10 ** 16, 1e16, Decimal("1E+16")],
    [2 ** 53, float(2 ** 53)],
    [0.5, Decimal("0.5"), Decimal("0.50")],
    [1.5, Decimal("1.5"), Decimal("1.500")],
]
HIST_NAMES = ["count", "page", "include_entities", "trim_user", "since_id", "exclude_replies", "status", "lat",
              "long", "amount", "a b", "c@", "x[]", "caf\xe9", "flag", "n", "v", "1", "0", "True"]


def wire_text(v):
    """The text a parameter value stands for = what tornado's request helpers send for it (urlencode)."""
    return v if isinstance(v, str) else str(v)


def _selfcheck_wire_text():
    for pool in EQ_POOLS:
        for v in pool:
            sent = urllib.parse.parse_qsl(urllib.parse.urlencode([("k", v)]), keep_blank_values=True)
            assert sent == [("k", wire_text(v))], (v, sent)
            assert v == pool[0] and hash(v) == hash(pool[0]), v
        assert len({wire_text(v) for v in pool}) > 1, pool


_selfcheck_wire_text()


def gen_hvalue(rng, pools):
    r = rng.random()
    if r < 0.55:
        v = rng.choice(rng.choice(pools))
        if rng.random() < 0.15:
            return wire_text(v)                       # the string spelling of such a value ("True", "1.0")
        return v
    if r < 0.65:
        n = rng.choice([3, 7, 42, 200, -5, 1000, rng.randint(-10 ** 6, 10 ** 6)])
        return rng.choice([n, float(n), str(n), Decimal(n), Decimal(str(float(n)))])
    if r < 0.75:
        return rng.choice([0.1, 2.5e-3, 1e-7, 1e22, 123456.789, -2.25, rng.random()])
    return gen_value(rng)


def gen_history(rng):
    pools = rng.sample(EQ_POOLS, rng.choice([1, 1, 2, 3]))
    names = rng.sample(HIST_NAMES, rng.randint(2, 6))
    fixed_env = rng.random() < 0.6                     # one client signing many requests vs. unrelated requests
    env = gen_case(rng)
    calls = []
    for _ in range(rng.randint(2, 6)):
        r = rng.random()
        if calls and r < 0.12:
            call = dict(rng.choice(calls))             # exact repeat of an earlier call
            call["via"] = rng.choice(["fn", "fn", "mixin10a", "mixin10"])
            if call["token"] is None or any(k.startswith("oauth_") for k, _ in call["params"]):
                call["via"] = "fn"     # the mixin adds its own oauth_* parameters; a clash is not what the statement pins
            calls.append(call)
            continue
        params = {}
        if calls and r < 0.3:
            # same names as an earlier call, (mostly) other values
            for k, v in rng.choice(calls)["params"]:
                params[k] = v if rng.random() < 0.3 else gen_hvalue(rng, pools)
        else:
            for _ in range(rng.randint(1, 5)):
                k = rng.choice(names) if rng.random() < 0.8 else gen_name(rng, rng.choice(["plain", "reserved", "nonascii"]))
                params[k] = gen_hvalue(rng, pools)
        if not fixed_env:
            env = gen_case(rng)
        via = rng.choice(["fn", "fn", "fn", "mixin10a", "mixin10"])
        if env["token"] is None or any(k.startswith("oauth_") for k in params):
            via = "fn"
        plist = list(params.items())
        rng.shuffle(plist)                             # dict order = order in which the values are first handled
        calls.append({"consumer": env["consumer"], "token": env["token"], "method": env["method"] if rng.random() < 0.7
                      else rng.choice(["GET", "POST"]), "url": env["url"], "params": plist, "via": via})
    return {"history": calls}


def shards(tier, seed):
    n = 32000 if tier == "quick" else 1000000
    k = 8 if tier == "quick" else 16
    out = [{"n": n // k, "j": j} for j in range(k)]
    hn, hk = (2400, 2) if tier == "quick" else (32000, 4)
    out += [{"kind": "hist", "n": hn // hk, "j": 100 + j} for j in range(hk)]
    return out


def gen_cases(spec):
    rng = core.rng_for(spec["seed"], PROP, spec["j"])
    for _ in range(spec["n"]):
        yield gen_history(rng) if spec.get("kind") == "hist" else gen_case(rng)


def directed_cases():
    base = {"consumer": "kd94hf93k423kf44", "token": "pfkkdhi9sl3r4s00", "method": "GET",
            "url": "http://photos.example.net/photos", "params": [("file", "vacation.jpg"), ("size", "original")]}
    yield dict(base)
    yield dict(base, params=[("a b", "1"), ("c@", ""), ("a&b", "x")])               # names need encoding
    yield dict(base, params=[("a\xe9", "1"), ("az", "2")])                            # order after encoding differs
    yield dict(base, url="HTTP://Photos.Example.NET:80/photos")                       # default port
    yield dict(base, url="https://photos.example.net:443/photos")
    yield dict(base, url="http://photos.example.net/photos;v=1")                      # path parameters
    yield dict(base, url="http://[::1]:8080/r")                                       # IPv6 literal hosts
    yield dict(base, url="https://[2001:DB8::1]:443/r")
    yield dict(base, url="HTTP://[::80]/r")
    yield dict(base, url="http://[2001:db8::443]:80/r")
    yield dict(base, consumer="se&cr=et", token="to ken+")                            # secrets need encoding
    # one process signing several requests whose values compare equal but are different texts
    tl = dict(base, url="https://API.example.com/1.1/statuses/home_timeline.json", via="fn")
    yield {"history": [dict(tl, params=[("count", 1), ("screen_name", "tornadoweb")]),
                       dict(tl, params=[("count", 20), ("include_entities", True)], via="mixin10a"),
                       dict(tl, params=[("count", 1.0), ("trim_user", 1)]),
                       dict(tl, params=[("page", 0), ("exclude_replies", False)], via="mixin10"),
                       dict(tl, params=[("since_id", 0.0), ("contributor_details", True)]),
                       dict(tl, params=[("count", "1"), ("include_rts", "True")])]}
    yield {"history": [dict(tl, params=[("flag", True), ("count", 1), ("ratio", 1.0)])]}   # within one parameter set


# ---------------------------------------------------------------------------------------------

SWITCHES = {
    "raw_names": "base-string/parameter-names-not-percent-encoded",
    "keep_default_port": "base-string/default-port-kept",
    "drop_path_params": "base-string/path-parameters-dropped",
    "drop_ipv6_brackets": "base-string/ipv6-literal-brackets-dropped",
    "raw_key": "key/oauth10-secrets-not-percent-encoded",
}
WHAT = {
    "raw_names": "parameter names are neither percent-encoded nor sorted by their encoded form (RFC 5849 §3.4.1.3.2)",
    "keep_default_port": "the scheme's default port is kept in the base string URI (RFC 5849 §3.4.1.2 requires dropping :80/:443)",
    "drop_path_params": "';params' of the last path segment are cut out of the base string URI (RFC 5849 §3.4.1.2: path as sent)",
    "drop_ipv6_brackets": "the brackets of an IPv6-literal host are missing from the base string URI (RFC 5849 §3.4.1.2: host and "
                          "port match the Host header field, RFC 3986 host = IP-literal incl. brackets)",
    "raw_key": "the OAuth 1.0 HMAC key uses the raw secrets instead of their percent-encoded form (RFC 5849 §3.4.2)",
}
HISTORY_MECH = "history/value-signed-as-the-text-of-an-equal-comparing-value-handled-earlier"


def explain(got, method, url, params, consumer, token_secret, applicable):
    for k in range(1, len(applicable) + 1):
        for combo in itertools.combinations(applicable, k):
            v = {s: True for s in combo}
            if ref.hmac_sha1_signature(method, url, params, consumer, token_secret, **v) == got:
                return combo
    return None


def explain_by_earlier_values(got, method, url, pairs, consumer, token_secret, earlier):
    """pairs: [(name, value object or text)]. Does signing some values as the text of an equal-comparing object
    handled earlier in this process reproduce tornado's output?  Only *names* the mechanism of a mismatch."""
    options = []
    for k, v in pairs:
        alts = [wire_text(v)]
        for o in earlier:
            try:
                if o == v and hash(o) == hash(v) and wire_text(o) not in alts:
                    alts.append(wire_text(o))
            except TypeError:
                pass
        options.append([(k, a) for a in alts])
    n = 1
    for o in options:
        n *= len(o)
    if n == 1 or n > 20000:
        return None
    for combo in itertools.product(*options):
        if ref.hmac_sha1_signature(method, url, list(combo), consumer, token_secret) == got:
            return [(k, a) for (k, a), (_, v) in zip(combo, pairs) if a != wire_text(v)]
    return None


class _Mixin10a(auth.OAuthMixin):
    _OAUTH_VERSION = "1.0a"

    def __init__(self, consumer_secret):
        self._consumer = {"key": "ck", "secret": consumer_secret}

    def _oauth_consumer_token(self):
        return self._consumer


class _Mixin10(_Mixin10a):
    _OAUTH_VERSION = "1.0"


def eval_call(call, ctx, earlier, history=None, index=None):
    """Sign one request on the real code and judge every signature against the reference.
    `earlier`: value objects this process' history has handled before this call (None outside histories)."""
    consumer, token, method, url = call["consumer"], call["token"], call["method"], call["url"]
    via = call.get("via", "fn")
    params = dict((k, v) for k, v in call["params"])
    token_secret = token if token is not None else ""
    names_need = any(ref.enc(k) != k for k in params)
    vals_need = any(ref.enc(wire_text(v)) != wire_text(v) for v in params.values())
    m = ref._URL_RE.match(url)
    scheme, authority, path = m.group(1).lower(), m.group(2).lower(), m.group(3)
    default_port = (scheme == "http" and authority.endswith(":80")) or (scheme == "https" and authority.endswith(":443"))
    ipv6 = authority.startswith("[")
    has_port = ":" in authority.rsplit("]", 1)[-1]
    path_params = ";" in path.rsplit("/", 1)[-1]
    secret_needs = ref.enc(consumer) != consumer or ref.enc(token_secret) != token_secret
    mixed = m.group(1) != scheme or m.group(2) != authority or method != method.upper()
    if names_need:
        ctx.count("class_name_needs_encoding")
    if default_port:
        ctx.count("class_default_port")
    if path_params:
        ctx.count("class_path_params")
    if secret_needs:
        ctx.count("class_secret_needs_encoding")
    if mixed:
        ctx.count("class_mixed_case")
    if ipv6:
        ctx.count("class_ipv6_literal_host")
        if has_port:
            ctx.count("class_ipv6_literal_host_with_port")
    nontrivial = bool(params) and (names_need or vals_need or mixed or has_port or secret_needs or ipv6)

    consumer_d = {"key": "ck", "secret": consumer}
    token_d = None if token is None else {"key": "tk", "secret": token}
    applicable = [s for s, on in (("raw_names", names_need), ("keep_default_port", default_port),
                                  ("drop_path_params", path_params), ("drop_ipv6_brackets", ipv6)) if on]
    raw_key = ["raw_key"] if secret_needs else []
    if via == "fn":
        runs = [("_oauth10a_signature", "sig10a_evals", []), ("_oauth_signature", "sig10_evals", raw_key)]
    else:
        runs = [("OAuthMixin._oauth_request_parameters[%s]" % via[5:], "mixin_evals", raw_key if via == "mixin10" else [])]
    for fname, counter, extra in runs:
        ctx.count(counter)
        ctx.count("oracle_evals")
        pairs = list(params.items())
        try:
            if via == "fn":
                got = getattr(auth, fname)(consumer_d, method, url, dict(params), token_d)
            else:
                mixin = (_Mixin10a if via == "mixin10a" else _Mixin10)(consumer)
                oauth = mixin._oauth_request_parameters(url, token_d, dict(params), method)
                got = oauth.pop("oauth_signature").encode("ascii")
                # what is sent and therefore signed: the returned oauth_* parameters plus the request's own
                pairs = list(oauth.items()) + pairs
        except Exception as e:  # noqa: BLE001
            ctx.violation(f"{fname}/raises-{type(e).__name__}", f"{fname} raised", {"case": history or call, "error": repr(e)})
            continue
        str_params = [(k, wire_text(v)) for k, v in pairs]
        want = ref.hmac_sha1_signature(method, url, str_params, consumer, token_secret)
        if got == want:
            continue
        wit = {"function": fname, "case": history or call, "tornado": got, "rfc5849": want,
               "rfc5849_base_string": ref.signature_base_string(method, url, str_params)}
        if index is not None:
            wit["call_index"] = index
        if earlier is not None:
            own = [v for _, v in pairs]
            subst = explain_by_earlier_values(got, method, url, pairs, consumer, token_secret,
                                              list(_PROCESS_SEEN.values()) + list(earlier) + own)
            if subst is not None:
                ctx.violation(HISTORY_MECH,
                              f"{fname}: a parameter value was signed as the text of a different value that compares equal to it "
                              "and was handled earlier in the same process; the signature is not the RFC 5849 signature of the "
                              "parameters of this request", dict(wit, values_signed_as=subst))
                continue
        combo = explain(got, method, url, str_params, consumer, token_secret, applicable + extra)
        if combo is None:
            ctx.violation("signature/unexplained-mismatch",
                          f"{fname} differs from the RFC 5849 signature in a way none of the known deviations explains", wit)
        else:
            for s in combo:
                w = dict(wit, deviations_that_reproduce_tornado=list(combo))
                ctx.violation(SWITCHES[s], f"signature differs from RFC 5849: {WHAT[s]}", w)
    return nontrivial


# non-string value objects handled by earlier cases of this worker process (only used to *name* a mismatch: the
# process under test is the worker, so "earlier in the same process" includes earlier cases)
_PROCESS_SEEN = {}


def _collides(v, earlier):
    for o in earlier:
        try:
            if o == v and hash(o) == hash(v) and wire_text(o) != wire_text(v):
                return True
        except TypeError:
            pass
    return False


def run_history(case, ctx):
    calls = case["history"]
    ctx.count("history_cases")
    earlier = []          # value objects handled so far, in handling order
    seen_calls = []
    collisions = 0
    for idx, call in enumerate(calls):
        ctx.count("history_calls")
        key = repr((call["consumer"], call["token"], call["method"], call["url"], call["params"]))
        if key in seen_calls:
            ctx.count("class_exact_repeat_of_earlier_call")
        seen_calls.append(key)
        for _, v in call["params"]:
            if _collides(v, earlier):
                collisions += 1
                ctx.count("class_equal_value_printed_differently_earlier")
            earlier.append(v)
        eval_call(call, ctx, earlier[:len(earlier) - len(call["params"])], history=case, index=idx)
    for v in earlier:
        if not isinstance(v, str) and len(_PROCESS_SEEN) < 4096:
            _PROCESS_SEEN.setdefault((type(v).__name__, repr(v)), v)
    nontrivial = collisions > 0
    new = ctx.mark(("c48h", repr(calls)), nontrivial)
    if new and nontrivial and ctx.evaluations % 199 == 7:
        ctx.sample({"history": [dict(c, params=[(k, repr(v)) for k, v in c["params"]]) for c in calls]})


def run_case(case, ctx):
    if "history" in case:
        return run_history(case, ctx)
    nontrivial = eval_call(case, ctx, None)
    new = ctx.mark(("c48", case["consumer"], case["token"], case["method"], case["url"], case["params"]), nontrivial)
    if new and nontrivial and ctx.evaluations % 499 == 7:
        ctx.sample(case)
