"""C03 — connection persistence follows the request's keep-alive semantics.

Full factorial over the factors named by the statement.  Every combination is
executed on the real HTTPServer (wire.ServerRig, virtual loop) with a second
request on the same connection; "kept" / "closed" are observed operationally at
quiescence (second request answered on the same socket vs EOF), never by timeout.
"""
from __future__ import annotations

import itertools

from vf import core, logmon, vloop, wire

core.use_repo()
from tornado import web  # noqa: E402

from vf.props import c02 as P  # noqa: E402  (shared exchange helpers)
from vf.refs import http as H  # noqa: E402
from vf.refs import http_extra as X  # noqa: E402

PROP = "C03"
META = {
    "level": "exploration",
    "technique": "exhaustive factorial of the six keep-alive factors executed on the real server; keep/close observed "
                 "operationally (second request answered vs EOF at virtual-loop quiescence) and compared with the statement's predicate",
    "level_text": "Every combination of version x Connection form x method x request-body framing x no_keep_alive x handler kind "
                  "(buffered, flush-then-finish, early finish from prepare of a streaming handler with the body sent with the head / "
                  "after the response was flushed / while the finished response is still being flushed, raises) x response status "
                  "{200,204,304} x response-flush schedule (immediate, stalled write plan, real flow control with a 64 KiB response "
                  "and a peer that does not read) is run once (quick) or under 6 segmentations x 3 read plans "
                  "(thorough); the observed persistence and the Connection response header are compared with the predicate in the statement.",
    "level_note": "Multi-token Connection values, Transfer-Encoding on an HTTP/1.0 request and 'early finish with no request body' "
                  "are UNSPECIFIED (executed, counted, only the header/EOF consistency clauses are applied). Closing when keeping "
                  "was allowed is reported (the statement says 'exactly when').",
    "design_ref": "DESIGN.md §4 C03",
    "engine": "wire",
}
RULE = ("cases are the full factorial version{1.0,1.1} x Connection{absent,close,Close,keep-alive,Keep-Alive,'close, x',upgrade} x "
        "method{GET,HEAD,POST} x request body{none,Content-Length,chunked,(1.0 POST) undelimited} x no_keep_alive x handler"
        "{buffered,flush-then-finish,early-finish body-after,early-finish body-with,early-finish body-during-flush,raises} x "
        "status{200,204,304} x flush schedule{immediate,stall,backpressure (thorough: +trickle,throttle)} minus "
        "inapplicable combinations; each is followed by a second request; non-trivial when the second request was sent or EOF "
        "pre-empted it; distinct by the factor tuple (+ segmentation/read plan in thorough)")
FLOORS = {"quick": 2000, "thorough": 30000}
ASSUMPTIONS = ["strict response reader is correct", "AF_UNIX socketpair + virtual loop: quiescence means nothing is in flight",
               "plain-TCP HTTPServer path; default idle_connection_timeout never fires before quiescence (virtual time)"]
REQUIRED_COUNTERS = ["oracle_evals", "observed_keep", "observed_close", "expect_keep", "expect_close", "header_clause_evals",
                     "early_mid_flush_still_pending_after_body_arrived"]

CONN_FORMS = [None, "close", "Close", "keep-alive", "Keep-Alive", "close, x", "upgrade"]
KINDS = ["buffered", "flush", "early_after", "early_with", "early_mid", "raises"]
# response-flush schedules: how long the finished response stays in the server's write buffer
#   none          every write is accepted at once
#   stall         wire.ScriptedIOStream write plan: nothing is accepted for 150 loop iterations (request bytes that
#                 arrived in the same segment are parsed before the flush completes; a plan cannot outlast a quiet point)
#   trickle       one byte per loop iteration
#   throttle      C02's plan (small pieces, pauses) with a 64 KiB response body
#   backpressure  real flow control: 4 KiB kernel send buffer, 64 KiB response body and a peer that reads nothing until it
#                 has sent all its stages, so the flush is pending across quiet points while more request bytes arrive
WPLANS = {"none": None, "stall": [0] * 150, "throttle": list(P.WPLAN_THROTTLE), "trickle": [1] * 400, "backpressure": None}
BIG = b"x" * 65536
STATUSES = [200, 204, 304]
BODY = b"hello-body"


def EXHAUSTIVE(tier):
    return "full factorial of the stated factors (every applicable combination)" + (
        "" if tier == "quick" else " x 6 segmentations x 3 read plans")


def all_combos(wplans=("none", "stall", "backpressure")):
    for v, conn, m, nka, kind, status in itertools.product(("1.0", "1.1"), CONN_FORMS, ("GET", "HEAD", "POST"),
                                                            (False, True), KINDS, STATUSES):
        if kind == "raises" and status != 200:
            continue
        bodies = ["none", "cl", "chunked"]
        if v == "1.0" and m == "POST":
            bodies = ["undelim", "cl", "chunked"]
        for b in bodies:
            for wp in wplans:
                if kind == "early_mid" and wp != "backpressure" and len(wplans) > 1:
                    continue        # without real flow control it is the same schedule as early_after
                yield {"version": v, "conn": conn, "method": m, "nka": nka, "kind": kind, "status": status, "body": b,
                       "seg": "whole", "rplan": "none", "wplan": wp}


SEGS = ["whole", "bytes", "random", "random", "at:20", "pairs"]
RPLANS = ["none", "one", "mix"]


def shards(tier, seed):
    if tier == "quick":
        return [{"part": i, "of": 16, "variants": False} for i in range(16)]
    return [{"part": i, "of": 48, "variants": True} for i in range(48)]


def gen_cases(spec):
    rng = core.rng_for(spec["seed"], PROP, spec["part"])
    for i, c in enumerate(all_combos() if not spec["variants"] else all_combos(("none",))):
        if i % spec["of"] != spec["part"]:
            continue
        if not spec["variants"]:
            yield c
            continue
        for si, seg in enumerate(SEGS):
            for rp in RPLANS:
                d = dict(c)
                d["seg"], d["rplan"], d["vseed"] = seg, rp, rng.randrange(1 << 30) if (seg == "random" or rp == "mix") else si
                d["wplan"] = "backpressure" if d["kind"] == "early_mid" else rng.choice(
                    ["none", "none", "stall", "trickle", "throttle", "backpressure", "backpressure"])
                yield d


def directed_cases():
    base = {"seg": "whole", "rplan": "none"}
    # DESIGN §5: streamed response to an HTTP/1.0 keep-alive client
    yield dict(base, version="1.0", conn="keep-alive", method="GET", nka=False, kind="flush", status=200, body="none")
    # Keep-Alive acknowledged by a server configured with no_keep_alive
    yield dict(base, version="1.0", conn="keep-alive", method="GET", nka=True, kind="buffered", status=200, body="none")
    # handler finished before the request body arrived
    yield dict(base, version="1.1", conn=None, method="POST", nka=False, kind="early_after", status=200, body="cl")
    # ... and the rest of the body arrives (and is discarded) while the finished response is still being flushed
    yield dict(base, version="1.1", conn=None, method="POST", nka=False, kind="early_mid", status=200, body="cl", wplan="backpressure")
    yield dict(base, version="1.0", conn="keep-alive", method="POST", nka=False, kind="early_mid", status=200, body="chunked",
               wplan="backpressure")
    for wp in ("stall", "throttle", "trickle", "backpressure"):
        yield dict(base, version="1.1", conn=None, method="POST", nka=False, kind="early_with", status=200, body="chunked", wplan=wp)


# ---------------------------------------------------------------------------
# real side


def _emit(h, box, flush_first):
    st = box["status"]
    h.set_status(st)
    if flush_first:
        if st == 200:
            h.write(b"he")
        h.flush()
    return st


class KindHandler(web.RequestHandler):
    SUPPORTED_METHODS = ("GET", "HEAD", "POST")

    def initialize(self, box):
        self.box = box

    async def _run(self):
        box = self.box
        box["started"] += 1
        try:
            box["body_seen"] = len(self.request.body or b"")
            k = box["kind"]
            if k == "raises":
                raise web.HTTPError(500)
            st = _emit(self, box, k == "flush")
            if k == "flush":
                await vloop.settle()
            if st == 200:
                self.write(b"llo")
                if box.get("big"):
                    self.write(BIG)
            self.finish()
        finally:
            box["done"] += 1

    get = head = post = _run


@web.stream_request_body
class EarlyHandler(web.RequestHandler):
    SUPPORTED_METHODS = ("GET", "HEAD", "POST")

    def initialize(self, box):
        self.box = box

    def prepare(self):
        box = self.box
        box["started"] += 1
        try:
            st = _emit(self, box, False)
            if st == 200:
                self.write(b"early")
                if box.get("big"):
                    self.write(BIG)
            self.finish()
        finally:
            box["done"] += 1

    def data_received(self, chunk):
        self.box["body_seen"] += len(chunk)

    def get(self):
        self.box["method_ran"] = True

    head = post = get


def request_parts(c):
    lines = ["%s /p HTTP/%s" % (c["method"], c["version"]), "Host: t"]
    if c["conn"] is not None:
        lines.append("Connection: " + c["conn"])
    body = b""
    if c["body"] == "cl":
        lines.append("Content-Length: %d" % len(BODY))
        body = BODY
    elif c["body"] == "chunked":
        lines.append("Transfer-Encoding: chunked")
        body = b"5\r\n" + BODY[:5] + b"\r\n5\r\n" + BODY[5:] + b"\r\n0\r\n\r\n"
    head = ("\r\n".join(lines) + "\r\n\r\n").encode("latin-1")
    return head, body


async def send_no_read(peer, data, cuts):
    """Like Peer.send but the peer does not read what the server sends meanwhile (a client busy uploading)."""
    pos = 0
    for n in list(cuts) + [len(data)]:
        seg = data[pos:pos + n]
        pos += n
        if not seg:
            continue
        try:
            sent = peer.sock.send(seg)
            if sent != len(seg):
                peer.send_error = "short-send"
        except OSError as e:
            peer.send_error = e
        if peer.send_error is not None:
            return
        await vloop.settle()
    await vloop.settle()


def execute(c):
    obs = P.Obs()
    wplan = c.get("wplan", "none")
    backpressure = wplan == "backpressure"
    box = {"kind": c["kind"], "status": c["status"], "started": 0, "done": 0, "body_seen": 0, "raised": None,
           "big": wplan in ("throttle", "backpressure"), "flush_pending_when_body_sent": None,
           "flush_pending_after_body_sent": None, "flush_pending_at_some_quiet_point": False}
    obs.box = box
    early = c["kind"].startswith("early")
    import random
    import socket
    rng = random.Random(c.get("vseed", 0))

    async def main():
        lm.attach_loop(__import__("asyncio").get_running_loop())
        app = web.Application([("/p", EarlyHandler if early else KindHandler, {"box": box}), ("/second", P.SecondHandler)],
                              log_function=P._quiet)
        rig = wire.ServerRig(app, record=False, no_keep_alive=c["nka"])
        wp = WPLANS[wplan]
        peer = rig.connect(read_plan=wire.read_plan_for(rng, c["rplan"], 200), write_plan=list(wp) if wp else None)
        st = rig.streams[0]
        if backpressure:
            # real flow control: a small kernel send buffer and a peer that does not read until it has sent everything
            st.socket.setsockopt(socket.SOL_SOCKET, socket.SO_SNDBUF, 4096)

        def pending():
            return (not st.closed()) and st.writing()
        try:
            head, body = request_parts(c)
            # (bytes, what to wait for afterwards): "quiet" = full quiescence (response flushed); "handler" = only until
            # the handler has finished, so the next stage arrives while the response may still sit in the write buffer
            if c["kind"] == "early_after":
                stages = [(head, "quiet"), (body + P.SECOND_REQ, "quiet")]
            elif c["kind"] == "early_mid":
                stages = [(head, "handler"), (body + P.SECOND_REQ, "quiet")]
            else:
                stages = [(head + body + P.SECOND_REQ, "quiet")]
            sent_all = True
            for stage, wait in stages:
                if peer.eof or peer.send_error is not None:
                    sent_all = False
                    break
                if c["kind"] == "early_mid" and wait == "quiet":
                    box["flush_pending_when_body_sent"] = pending()
                cuts = wire.cuts_for(rng, len(stage), c["seg"])
                if backpressure and not (c["kind"] == "early_after" and wait == "quiet" and stage is head):
                    await send_no_read(peer, stage, cuts)
                else:
                    await peer.send(stage, cuts)
                if pending():
                    box["flush_pending_at_some_quiet_point"] = True
                if wait == "handler":
                    for _ in range(80):
                        if box["done"] >= 1:
                            break
                        await vloop.settle()
                else:
                    if c["kind"] == "early_mid":
                        box["flush_pending_after_body_sent"] = pending()
                    obs.quiesced = (await P.quiesce(peer, st, box, cap=1500)) and obs.quiesced
            obs.second_sent = sent_all and peer.send_error is None
            obs.rx, obs.eof = bytes(peer.rx), peer.eof
            obs.send_error = repr(peer.send_error) if peer.send_error else None
        finally:
            peer.close()
            await rig.close()

    with logmon.LogMon() as lm:
        vloop.run(main, collect=False)
        obs.loop_errors = list(lm.loop_exceptions)
        obs.logs = [(r["logger"], r["level"], r["msg"][:160], r["exc_text"]) for r in lm.records
                    if r["level"] in ("ERROR", "CRITICAL")]
    return obs


# ---------------------------------------------------------------------------
# the statement's predicate


def predicate(c):
    """Returns (keep: bool, why_close: str|None, unspecified: str|None)."""
    unspec = None
    conn = c["conn"]
    tok = conn.lower() if conn is not None else None
    if conn is not None and "," in conn:
        unspec = "multi-token-connection-value"
    if c["version"] == "1.0" and c["body"] == "chunked":
        unspec = unspec or "transfer-encoding-on-http10-request"
    early = c["kind"].startswith("early")
    if early and c["body"] in ("none", "undelim"):
        unspec = unspec or "early-finish-without-request-body"
    if c["version"] == "1.1":
        allows = tok != "close"
    else:
        delimited = c["body"] in ("cl", "chunked") or c["method"] in ("GET", "HEAD")
        allows = tok == "keep-alive" and delimited
    if not allows:
        return False, "request-disallows", unspec
    if c["nka"]:
        return False, "no_keep_alive", unspec
    self_delim = not (c["kind"] == "flush" and c["version"] == "1.0" and c["method"] != "HEAD" and c["status"] == 200)
    if not self_delim:
        return False, "undelimited-response", unspec
    if early:
        return False, "body-unread", unspec
    return True, None, unspec


def run_case(c, ctx):
    obs = execute(c)
    keep, why_close, unspec = predicate(c)
    ex = X.read_exchange(obs.rx, obs.eof, [c["method"], "GET"])
    wit = {"rx": obs.rx[:900], "rx_len": len(obs.rx), "eof": obs.eof, "second_sent": obs.second_sent,
           "expected_keep": keep, "why_close": why_close, "unspecified": unspec, "exchange": ex.as_dict(),
           "body_seen_by_app": obs.box["body_seen"], "logs": obs.logs[:3],
           "flush_pending_when_body_sent": obs.box["flush_pending_when_body_sent"],
           "flush_pending_after_body_sent": obs.box["flush_pending_after_body_sent"],
           "flush_pending_across_quiet_point": obs.box["flush_pending_at_some_quiet_point"]}
    nontriv = obs.second_sent or obs.eof
    if obs.box["flush_pending_when_body_sent"]:
        ctx.count("early_mid_body_sent_while_flush_pending")
    if obs.box["flush_pending_after_body_sent"]:
        ctx.count("early_mid_flush_still_pending_after_body_arrived")
    if obs.box["flush_pending_at_some_quiet_point"]:
        ctx.count("flush_pending_across_quiet_point")
    ctx.count("wplan_" + c.get("wplan", "none"))
    ctx.mark(tuple(sorted(c.items())), nontriv)
    if nontriv:
        ctx.sample(c)
    if obs.loop_errors:
        ctx.count("unspecified_loop_exception_logged")
    if not obs.quiesced:
        ctx.count("not_quiesced")
        return
    r1 = ex.responses[0] if ex.responses else None
    answered = (len(ex.responses) == 2 and ex.responses[1].body == P.SECOND_BODY) or (
        len(ex.responses) < 2 and P.SECOND_BODY in obs.rx)
    if answered and not obs.eof:
        observed = "keep"
    elif obs.eof and not answered:
        observed = "close"
    else:
        observed = "odd"
    ctx.count("observed_" + observed)
    ctx.count("expect_keep" if keep else "expect_close")
    ctx.seen("oracle_branches", (keep, why_close, observed, unspec))

    # --- persistence clause ----------------------------------------------
    ctx.count("oracle_evals")
    if observed == "odd":
        if not obs.eof and not answered and not obs.second_sent:
            ctx.count("second_not_sent_open")      # cannot happen with staged sends unless send failed
        elif not obs.eof and not answered:
            ctx.violation("open-but-second-request-unanswered", "connection left open at quiescence without answering the "
                          "pipelined second request", wit)
        else:
            ctx.violation("second-answered-then-closed", "the second (plain HTTP/1.1 keep-alive) request was answered and the "
                          "connection closed afterwards", wit)
    elif unspec:
        ctx.count("unspecified_" + unspec)
        ctx.count("unspecified_%s_%s" % (unspec, observed))
    elif keep and observed == "close":
        ctx.violation("closed-when-keep-allowed", "every condition of the statement for keeping the connection holds, "
                      "yet the server closed it", wit)
    elif not keep and observed == "keep":
        ctx.violation("kept-open-when-close-required/" + why_close,
                      "the connection was kept (second request answered) although the statement requires closing: " + why_close, wit)

    # --- header clauses (depend only on what was observed) -----------------
    if r1 is None:
        ctx.count("resp1_not_delimited")
        if observed == "close" or ex.state != "incomplete":
            return
        # undelimited first response on a kept connection: still look at its head
        try:
            r1, _ = H.read_head(obs.rx, obs.eof)
        except Exception:
            return
    ctx.count("header_clause_evals")
    toks = X.conn_tokens(r1)
    tag = why_close or "unexpected"
    if observed == "close":
        if c["version"] == "1.1":
            ctx.check("close" in toks, "http11-closed-without-connection-close/" + tag,
                      "an HTTP/1.1 client was not told 'Connection: close' although the server closed after this response", wit)
        ctx.check("keep-alive" not in toks, "keep-alive-ack-on-closing-connection/" + tag,
                  "'Connection: Keep-Alive' was sent on a response after which the server closed the connection", wit)
    else:
        if "close" in toks:
            ctx.count("unspecified_close_announced_but_kept")
        if c["version"] == "1.0" and observed == "keep" and "keep-alive" not in toks:
            ctx.count("unspecified_http10_kept_without_ack")
    ctx._n = getattr(ctx, "_n", 0) + 1
    if ctx._n % 200 == 0:
        import gc
        gc.collect()
