"""C33 — Semaphore / BoundedSemaphore / Lock never over-grant, lose wakeups or skip the queue.

History + executable model on the virtual-time loop: every operation of a history
(acquire with/without deadline, release, cancel of a pending acquire future, clock
advance, context-manager release, `async with` task) is applied to the real object
and to a 40-line sequential model; at every settle point the outcome vector of all
acquire futures (pending / granted / TimeoutError / cancelled) is compared.  At the
end of a history the hidden permit count is probed with zero-timeout acquires.
"""
from __future__ import annotations

import asyncio
import gc

from vf import core, vloop
from vf.logmon import LogMon
from vf.refs import synchist as sh

core.use_repo()
from tornado import locks  # noqa: E402

PROP = "C33"
META = {
    "level": "exploration",
    "technique": "reference-model monitor over operation histories on a virtual-time loop "
                 "(exhaustive small scope + seeded random long histories), outcome vector compared at every settle point",
    "level_text": "Every history (exhaustive up to a bounded length over acquire/acquire-with-deadline/release/"
                  "cancel/advance for Semaphore(0..2), BoundedSemaphore(0..2) and Lock; plus long random histories "
                  "that cross the 100-timeout waiter garbage collection) is executed on the real classes under virtual "
                  "time and on a sequential semaphore model; the states of all acquire futures are compared after every "
                  "step, over-release must raise, and the hidden permit count is probed at the end.",
    "level_note": "Trusts the sequential model in this file and the virtual loop (timer expiry exactly at the earliest "
                  "deadline; deadlines on a half-grid so no expiry ties with an operation). Bounded histories only.",
    "design_ref": "DESIGN.md §4 C33",
    "engine": "vloop",
}
RULE = ("cases are (class, initial value, op history, settle pattern); ops: acquire(None|timedelta|absolute|0), release, "
        "cancel(i), advance clock one grid unit, release through the returned context manager, async-with task enter/exit, "
        "burst of zero-timeout acquires; exhaustive by model-guided DFS to a fixed length plus seeded random histories; "
        "non-trivial = at least one acquire that blocked and at least one release; distinct by the case tuple")
FLOORS = {"quick": 20000, "thorough": 200000}
ASSUMPTIONS = ["sequential semaphore model is correct", "single-threaded use on one loop",
               "a deadline never coincides with another operation (half-grid deadlines)",
               "order in which several waiters time out inside one clock advance is not pinned by the statement"]
REQUIRED_COUNTERS = ["oracle_evals", "grants_after_block", "timeouts_seen", "cancels_of_pending",
                     "over_release_raises", "end_probe_evals"]
SHARD_TIMEOUT = {"quick": 240, "thorough": 3600}

# BoundedSemaphore(0) is the one bounded configuration in which waiters can be queued while the permit count is
# already at the bound: every release() there is "beyond the initial value" and must raise, waiters or not.
CONFIGS = [("sem", 0), ("sem", 1), ("sem", 2), ("bsem", 0), ("bsem", 1), ("bsem", 2), ("lock", 1)]
EXH_TMS = [None, ("rel", 0), ("abs", 1), ("zero",)]
RAND_TMS = [None, None, ("rel", 0), ("rel", 1), ("abs", 0), ("abs", 1), ("rel", 2), ("zero",), ("tdzero",), ("past",)]
EXH_LEN = {"quick": 6, "thorough": 7}
EXH_SYNC_LEN = {"quick": 5, "thorough": 6}
MAX_ACQ = 4


def EXHAUSTIVE(tier):
    return ("all histories of length %d (every prefix checked) over {acquire(None|timedelta 0.5|absolute +1.5|0), release, "
            "cancel(any pending), advance} with <= %d acquires, for Semaphore(0,1,2), BoundedSemaphore(0,1,2), Lock, "
            "each op followed by settle; and the same to length %d with no settle between ops"
            % (EXH_LEN[tier], MAX_ACQ, EXH_SYNC_LEN[tier]))


# --------------------------------------------------------------------------
# reference model

class W:
    __slots__ = ("exp", "st", "aw", "used")

    def __init__(self, exp, st, aw=False):
        self.exp, self.st, self.aw, self.used = exp, st, aw, False


class SemModel:
    """value + FIFO of waiters. States: P pending, G granted, T timed out, C cancelled."""

    def __init__(self, kind, v):
        self.kind, self.v0, self.value, self.G = kind, v, v, 0
        self.w = []

    def clone(self):
        m = SemModel(self.kind, self.v0)
        m.value, m.G = self.value, self.G
        for x in self.w:
            y = W(x.exp, x.st, x.aw)
            y.used = x.used
            m.w.append(y)
        return m

    def exp_of(self, tm):
        if tm is None:
            return None
        if tm[0] in sh.ZERO_FORMS:
            return self.G
        return self.G + tm[1] + 1

    def acquire(self, tm, aw=False):
        if self.value > 0:
            self.value -= 1
            self.w.append(W(None, "G", aw))
        else:
            self.w.append(W(self.exp_of(tm), "P", aw))
        return len(self.w) - 1

    def release(self):
        """Returns True when the call must raise (and then has no effect)."""
        if self.kind != "sem" and self.value >= self.v0:
            return True
        self.value += 1
        self.handoffs = getattr(self, "handoffs", 0)
        for x in self.w:
            if x.st == "P":
                x.st = "G"
                self.value -= 1
                self.handoffs += 1
                break
        return False

    def cancel(self, i):
        if self.w[i].st == "P" and not self.w[i].aw:
            self.w[i].st = "C"
            return True
        return False

    def settle(self):
        for x in self.w:
            if x.st == "P" and x.exp is not None and x.exp <= self.G:
                x.st = "T"

    # generator-side stepping: every op followed by settle
    def apply(self, op):
        k = op[0]
        if k == "acq":
            self.acquire(op[1])
        elif k == "rel":
            self.release()
        elif k == "cancel":
            self.cancel(op[1])
        elif k == "adv":
            self.G += 1
        elif k == "cm":
            self.w[op[1]].used = True
            self.release()
        elif k == "aw":
            self.acquire(None, aw=True)
        elif k == "awx":
            self.w[op[1]].used = True
            self.release()
        elif k == "burst":
            for _ in range(op[1]):
                self.acquire(("zero",))
        self.settle()

    def vector(self):
        return [x.st for x in self.w]


def exh_alpha(m):
    ops = []
    if len(m.w) < MAX_ACQ:
        for tm in EXH_TMS:
            ops.append(("acq", tm))
    ops.append(("rel",))
    timed = False
    for i, x in enumerate(m.w):
        if x.st == "P":
            ops.append(("cancel", i))
            if x.exp is not None:
                timed = True
    if timed:
        ops.append(("adv",))
    return ops


def rand_history(rng, kind, v, n):
    m = SemModel(kind, v)
    ops, sync = [], []
    warm = rng.choice([0, 0, 99, 100, 101])
    if warm:
        # bring the timed-out-waiter counter to the garbage-collection threshold: take all permits,
        # let `warm` zero-timeout acquires expire, give the permits back
        for _ in range(v):
            ops.append(("acq", None))
        ops.append(("burst", warm))
        for _ in range(v):
            ops.append(("rel",))
        for op in ops:
            m.apply(op)
    for _ in range(n):
        r = rng.random()
        pend = [i for i, x in enumerate(m.w) if x.st == "P" and not x.aw]
        cms = [i for i, x in enumerate(m.w) if x.st == "G" and not x.aw and not x.used]
        awx = [i for i, x in enumerate(m.w) if x.st == "G" and x.aw and not x.used]
        if r < 0.34:
            op = ("acq", rng.choice(RAND_TMS))
        elif r < 0.56:
            op = ("rel",)
        elif r < 0.66 and pend:
            op = ("cancel", rng.choice(pend))
        elif r < 0.78:
            op = ("adv",)
        elif r < 0.84 and cms:
            op = ("cm", rng.choice(cms))
        elif r < 0.89:
            op = ("aw",)
        elif r < 0.95 and awx:
            op = ("awx", rng.choice(awx))
        elif r < 0.97:
            op = ("burst", rng.choice([2, 3, 5]))
        else:
            op = ("cancel", rng.randrange(len(m.w))) if m.w else ("rel",)
        m.apply(op)
        ops.append(op)
        if rng.random() < 0.35 and _may_skip_settle(op):
            sync.append(len(ops) - 1)
    return ((kind, v), tuple(ops), tuple(sync))


def _may_skip_settle(op):
    if op[0] == "acq":
        return not sh.needs_settle(op[1])
    return op[0] in ("rel", "cancel", "cm")


# --------------------------------------------------------------------------
# shards / cases

def shards(tier, seed):
    out = []
    # exhaustive, settled: shard by config x first-op bucket
    for ci in range(len(CONFIGS)):
        nb = 3 if tier == "quick" else 6
        for b in range(nb):
            out.append({"kind": "exh", "cfg": ci, "bucket": b, "nb": nb, "maxlen": EXH_LEN[tier], "sync": False})
    for ci in range(len(CONFIGS)):
        out.append({"kind": "exh", "cfg": ci, "bucket": 0, "nb": 1, "maxlen": EXH_SYNC_LEN[tier], "sync": True})
    k = 8 if tier == "quick" else 16
    n = 3000 if tier == "quick" else 400000
    for j in range(k):
        out.append({"kind": "rand", "n": n // k, "maxlen": 24 if tier == "quick" else 40, "j": j})
    return out


def gen_cases(spec):
    if spec["kind"] == "exh":
        kind, v = CONFIGS[spec["cfg"]]
        pre = sh.prefixes(exh_alpha, lambda: SemModel(kind, v), 2)
        for idx, p in enumerate(pre):
            if idx % spec["nb"] != spec["bucket"]:
                continue
            for hist in sh.leaves(exh_alpha, SemModel(kind, v), p, spec["maxlen"]):
                if spec["sync"]:
                    sync = tuple(i for i, op in enumerate(hist[:-1]) if _may_skip_settle(op))
                else:
                    sync = ()
                yield ((kind, v), hist, sync)
    else:
        rng = core.rng_for(spec["seed"], PROP, spec["j"])
        for _ in range(spec["n"]):
            kind, v = rng.choice(CONFIGS + [("sem", 3), ("bsem", 3)])
            yield rand_history(rng, kind, v, rng.randint(4, spec["maxlen"]))


def directed_cases():
    # the GC-threshold crossing with a live waiter queued behind timed-out ones
    yield (("sem", 1), (("acq", None), ("burst", 100), ("acq", None), ("acq", ("zero",)), ("rel",), ("rel",), ("acq", None)), ())
    yield (("lock", 1), (("acq", None), ("acq", ("rel", 0)), ("acq", None), ("adv",), ("rel",), ("rel",), ("rel",)), ())
    yield (("bsem", 2), (("acq", None), ("acq", None), ("acq", None), ("cancel", 2), ("rel",), ("rel",), ("rel",)), (3, 4))
    # a bounded semaphore at its bound with waiters queued (only possible with initial value 0): release must raise
    # and grant nothing, whether the queue holds live, timed-out or cancelled waiters
    yield (("bsem", 0), (("acq", None), ("rel",), ("acq", ("rel", 0)), ("rel",), ("adv",), ("rel",), ("cancel", 0), ("rel",)), ())
    yield (("bsem", 0), (("acq", None), ("acq", None), ("rel",), ("rel",), ("cancel", 0), ("rel",)), (0, 1, 2))
    yield (("bsem", 0), (("aw",), ("rel",), ("acq", ("zero",)), ("rel",)), ())


# --------------------------------------------------------------------------
# execution on the real classes

_ncases = 0


def make(kind, v):
    if kind == "sem":
        return locks.Semaphore(v)
    if kind == "bsem":
        return locks.BoundedSemaphore(v)
    return locks.Lock()


def view(f):
    s = sh.fstate(f)
    return "G" if isinstance(s, tuple) else s


async def _aw_body(obj, gate, flag):
    async with obj:
        flag.append("in")
        await gate
    flag.append("out")


async def _drive(case, ctx, lm, pos):
    (kind, v), ops, sync = case
    sync = set(sync)
    loop = asyncio.get_event_loop()
    lm.attach_loop(loop)
    clock = sh.Clock()
    obj = make(kind, v)
    m = SemModel(kind, v)
    futs = []       # per model waiter: future, or ("aw", task, gate, flag)
    blocked = released = 0

    def compare(step, i):
        ctx.count("oracle_evals")
        want = m.vector()
        got = []
        for x, f in zip(m.w, futs):
            if x.aw:
                task, gate, flag = f[1:4]
                if task.done() and flag[-1:] != ["out"] and f[4] and not task.cancelled() \
                        and isinstance(task.exception(), (ValueError, RuntimeError)):
                    got.append("G")     # __aexit__ over-released (an explicit release had given the permit back): it must raise
                elif task.done() and flag[-1:] != ["out"]:
                    got.append("E:task-" + (type(task.exception()).__name__ if not task.cancelled() else "cancelled"))
                else:
                    got.append("G" if flag else "P")
            else:
                got.append(view(f))
        if got != want:
            j = next(k for k in range(len(want)) if got[k] != want[k])
            own = "own" if (step[0] in ("acq", "aw") and j == len(want) - 1) else "other"
            ctx.violation(f"{step[0]}/{own}:{sh.sname(want[j])}->{sh.sname(got[j])}",
                          f"after {step[0]} acquire future #{j} is {sh.sname(got[j])} but the sequential model says "
                          f"{sh.sname(want[j])}",
                          {"class": kind, "initial": v, "step_index": i, "step": step, "got": got, "want": want,
                           "model_value": m.value, "grid_time": m.G})
            return False
        return True

    def do_release(call, step):
        nonlocal released
        must_raise = m.release()
        try:
            call()
            raised = None
        except Exception as e:
            raised = e
        if must_raise:
            ctx.count("over_release_raises")
            if raised is None:
                ctx.violation("release/over-release-did-not-raise",
                              "release beyond the initial value (bounded semaphore / unlocked lock) did not raise",
                              {"class": kind, "initial": v, "step": step})
                return False
        else:
            released += 1
            if raised is not None:
                ctx.violation(f"release/spurious-{type(raised).__name__}",
                              "release raised although the model holds fewer than the initial permits",
                              {"class": kind, "initial": v, "step": step, "err": repr(raised), "model_value": m.value})
                return False
        return True

    def do_acquire(tm):
        nonlocal blocked
        before = m.value
        m.acquire(tm)
        futs.append(obj.acquire(clock.arg(tm)) if tm is not None else obj.acquire())
        if before == 0:
            blocked += 1

    for i, step in enumerate(ops):
        k = step[0]
        pos[:] = [i, step]
        if k == "acq":
            do_acquire(step[1])
        elif k == "burst":
            for _ in range(step[1]):
                do_acquire(("zero",))
        elif k == "rel":
            if not do_release(obj.release, step):
                return None
        elif k == "cancel":
            want = m.cancel(step[1])
            if want:
                ctx.count("cancels_of_pending")
            got = want if m.w[step[1]].aw else futs[step[1]].cancel()
            if got != want:
                ctx.violation("cancel/return-value", "Future.cancel() on an acquire future returned the wrong value",
                              {"step": step, "got": got, "want": want})
                return None
        elif k == "adv":
            m.G += 1
            await clock.advance()
        elif k == "cm":
            f = futs[step[1]]
            m.w[step[1]].used = True
            cm = f.result()

            def call(cm=cm):
                with cm:
                    pass
            if not do_release(call, step):
                return None
        elif k == "aw":
            if m.value == 0:
                blocked += 1
            m.acquire(None, aw=True)
            gate, flag = loop.create_future(), []
            futs.append(["aw", asyncio.ensure_future(_aw_body(obj, gate, flag)), gate, flag, False])
        elif k == "awx":
            m.w[step[1]].used = True
            must_raise = m.release()
            if must_raise:   # an explicit release already gave this block's permit back: __aexit__ must raise
                ctx.count("over_release_raises")
                futs[step[1]][4] = True
            else:
                released += 1
            futs[step[1]][2].set_result(None)
        if i in sync:
            continue
        await vloop.settle()
        before = [x.st for x in m.w]
        m.settle()
        for b, x in zip(before, m.w):
            if b == "P" and x.st == "T":
                ctx.count("timeouts_seen")
        if not compare(step, i):
            return None
    # end-of-history probe of the hidden permit count: exactly model.value zero-timeout acquires succeed
    ctx.count("end_probe_evals")
    n = m.value + 1
    for _ in range(n):
        m.acquire(("zero",))
        futs.append(obj.acquire(0))
    await vloop.settle()
    m.settle()
    if not compare(("end-probe", n), len(ops)):
        return None
    return blocked, released, getattr(m, "handoffs", 0)



async def drive(case, ctx, lm):
    """Any exception escaping an operation of the object under test is a finding, not a harness error."""
    import traceback
    pos = [None, ("setup",)]
    try:
        return await _drive(case, ctx, lm, pos)
    except Exception as e:
        ctx.violation(f"{case[0] if isinstance(case[0], str) else case[0][0]}:{pos[1][0]}/raises-{type(e).__name__}",
                      f"operation {pos[1][0]} raised {type(e).__name__} out of the public API",
                      {"step_index": pos[0], "step": pos[1], "err": repr(e), "traceback": traceback.format_exc()[-1500:]})
        return None


def run_case(case, ctx):
    global _ncases
    _ncases += 1
    with LogMon() as lm:
        try:
            res = vloop.run(drive, case, ctx, lm, collect=False)
        except vloop.Quiescent:
            ctx.violation("harness/quiescent", "virtual loop went idle inside the driver (cannot happen: driver only sleeps)", None)
            return
        bad = lm.uncaught()
        ctx.count("log_checks")
        if bad:
            r = bad[0]
            ctx.violation(f"log/{r['logger']}-{r['exc'] or 'error'}", "uncaught-error record while running a lock history",
                          {"records": bad[:3]})
            return
    if _ncases % 400 == 0:
        gc.collect()
    if res is None:
        return
    blocked, released, handoffs = res
    ctx.count("grants_after_block", handoffs)   # releases that handed the permit to a queued live waiter
    nontriv = blocked >= 1 and released >= 1
    ctx.mark(case, nontriv)
    if nontriv:
        ctx.sample({"class": case[0][0], "initial": case[0][1], "ops": [list(o) for o in case[1]], "nosettle_after": list(case[2])}, limit=3)
