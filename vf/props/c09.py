"""C09 - SimpleAsyncHTTPClient: every fetch completes exactly once, max_clients is honoured,
queued fetches start FIFO, redirects are bounded / rewritten / stripped of credentials.

A scenario = one client (max_clients 1..3) + N concurrent fetches against harness-owned origins
(vf.refs.clientrig.FakeOrigin: plain asyncio unix-socket servers that record every request line
and header list they receive).  Origins are distinct (scheme, host, port) triples reached only
through FakeResolver; connection outcomes (delay, reset, never answer, refused, connect phase
that never finishes), queue / connect / request timeouts all play out in virtual time.

Oracles (all on observed events, no timing model):
  completion   each fetch_impl callback runs exactly once; every user future is settled when the
               loop is quiescent; nothing fires a second time 200 virtual seconds later
  admission    len(active) <= max_clients at every start; open client sockets < max_clients when
               a new one is created; at quiet points started-not-completed <= max_clients
  FIFO         start order is increasing in submission order
  progress     at every quiet point: a queued fetch implies max_clients fetches in progress
  redirects    the ORIGINS are the observers: hops <= max_redirects; after 303 (non-HEAD) and
               after 301/302 of a POST the next request is a bodiless GET; a request arriving at
               an origin other than the first one carries none of the original secrets
               (Authorization values, Cookie values, URL / auth_username credentials)
"""
from __future__ import annotations

import asyncio
import base64

from vf import core, vloop
from vf.logmon import LogMon
from vf.refs import clientrig

core.use_repo()
from tornado.httpclient import HTTPRequest  # noqa: E402
from tornado.httputil import HTTPHeaders  # noqa: E402

PROP = "C09"
META = {
    "level": "exploration",
    "technique": "trace monitors over generated schedules of concurrent fetches on a virtual-time loop; origin servers observe redirects and credentials",
    "level_text": "Seeded scenarios of 1-10 concurrent fetches (delays, resets, refused and never-finishing connects, silent servers, queue/connect/request timeouts incl. disabled ones, redirect chains of length 0-6 over 4 origins incl. a TLS origin, all Location forms, header sets built with add/dict/[]=, auth_username, URL credentials) run against the real SimpleAsyncHTTPClient; completion counts, admission, FIFO order, work conservation and what the origins actually received are checked.",
    "level_note": "No timing model: which fetch times out is not predicted, only the invariants are checked. Method preservation for 307/308 and for non-POST 301/302, and where a Location leads, are not pinned by the statement (counted only). curl_httpclient is not exercised.",
    "design_ref": "DESIGN.md §4 C09",
    "engine": "vloop",
}
RULE = ("a scenario = (max_clients, fetch list with submit times, per-path origin scripts, redirect chains); generated from the seed; "
        "non-trivial = more fetches (incl. redirect hops) than max_clients at some time, or >= 1 redirect hop; distinct by the scenario dict")
FLOORS = {"quick": 800, "thorough": 30000}
ASSUMPTIONS = ["AF_UNIX delivery is synchronous (virtual-time soundness)",
               "FakeOrigin's hand-written request reader records header lines faithfully",
               "a fetch whose server never answers is only generated with a finite request_timeout"]
REQUIRED_COUNTERS = ["oracle_evals", "completion_evals", "admission_evals", "fifo_evals", "progress_evals",
                     "redirect_hops_seen", "rewrite_evals", "cross_origin_arrivals", "queued_fetches", "queue_timeouts_seen",
                     "tls_arrivals", "request_object_reused"]
SHARD_TIMEOUT = {"quick": 240, "thorough": 3600}

ORIGINS = [("http", "a.test", 80), ("http", "b.test", 80), ("http", "a.test", 8080), ("https", "a.test", 443)]
DEAD = ("http", "dead.test", 80)      # nobody listens: connect is refused
HANG_HOST = "hang.test"               # resolver never answers: connect phase never ends


def shards(tier, seed):
    if tier == "quick":
        return [{"n": 100} for _ in range(16)]
    return [{"n": 1300} for _ in range(48)]


# ------------------------------------------------------------------ generator

def origin_url(o, path, rng=None, userinfo=None, explicit_port=False, upper=False, scheme_rel=False):
    scheme, host, port = o
    h = host.upper() if upper else host
    pp = "" if (port == clientrig.default_port(scheme) and not explicit_port) else ":%d" % port
    ui = (userinfo + "@") if userinfo else ""
    if scheme_rel:
        return "//%s%s%s%s" % (ui, h, pp, path)
    sc = scheme.upper() if (upper and rng is not None and rng.random() < 0.3) else scheme
    return "%s://%s%s%s%s" % (sc, ui, h, pp, path)


def build_headers_spec(rng, k):
    """Returns (mode, [(name, value)], secrets)."""
    items, secrets = [], []
    if rng.random() < 0.75:
        n = rng.choice([1, 1, 2, 3])
        for j in range(n):
            v = "sid%d=SECRETCOOKIE%dx%d" % (j, k, j)
            items.append((rng.choice(["Cookie", "cookie", "COOKIE", "Cookie"]), v))
            secrets.append("SECRETCOOKIE%dx%d" % (k, j))
    if rng.random() < 0.5:
        v = "Bearer SECRETAUTH%d" % k
        items.append((rng.choice(["Authorization", "authorization", "AUTHORIZATION"]), v))
        secrets.append("SECRETAUTH%d" % k)
        if rng.random() < 0.2:
            items.append(("Authorization", "Bearer SECRETAUTHB%d" % k))
            secrets.append("SECRETAUTHB%d" % k)
    if rng.random() < 0.5:
        items.append(("X-Trace", "t%d" % k))
    rng.shuffle(items)
    mode = rng.choice(["add", "add", "dict", "setitem", "pairs"])
    return mode, items, secrets


def build_scenario(rng, tier):
    m = rng.choice([1, 1, 2, 2, 3])
    nf = rng.choice([1, 2, 3, 4, 5, 6, 8] + ([10, 12] if tier == "thorough" else []))
    routes = {}
    fetches = []
    use_tls = False
    for k in range(nf):
        tok = "f%d" % k
        f = {"k": k, "tok": tok, "at": rng.choice([0, 0, 0, 0, 0.1, 1, 3]), "method": "GET", "body": None,
             "ct": None, "rt": None, "max_redirects": None, "follow": None, "auth": None, "urlcreds": None}
        f["hmode"], f["headers"], secrets = build_headers_spec(rng, k)
        r = rng.random()
        if r < 0.5:
            # ---- redirect chain
            L = rng.choice([1, 1, 2, 2, 3, 4, 6])
            f["method"] = rng.choice(["GET", "GET", "POST", "POST", "PUT", "HEAD", "DELETE"])
            if f["method"] in ("POST", "PUT"):
                f["body"] = "BODY-%s-%s" % (tok, "x" * rng.choice([0, 10, 300]))
            f["max_redirects"] = rng.choice([None, None, 0, 1, 2, 3])
            if rng.random() < 0.07:
                f["follow"] = False
            oi = rng.choice([0, 0, 1, 2, 3] if rng.random() < 0.3 else [0, 0, 1, 2])
            f["origin"] = oi
            cur = oi
            for i in range(L):
                nxt = cur if rng.random() < 0.4 else rng.choice([j for j in range(4 if rng.random() < 0.25 else 3) if j != cur])
                path, npath = "/%s/h%d" % (tok, i), "/%s/h%d" % (tok, i + 1)
                code = rng.choice([301, 302, 302, 303, 303, 307, 308])
                if nxt == cur and rng.random() < 0.6:
                    loc = rng.choice([npath, "h%d" % (i + 1), "./h%d" % (i + 1), "../%s/h%d" % (tok, i + 1)])
                else:
                    ui = "u9:SECRETLOC%d" % k if rng.random() < 0.15 else None
                    loc = origin_url(ORIGINS[nxt], npath, rng, userinfo=ui, explicit_port=rng.random() < 0.15,
                                     upper=rng.random() < 0.15,
                                     scheme_rel=(ORIGINS[nxt][0] == ORIGINS[cur][0] and rng.random() < 0.15))
                routes["%d %s" % (cur, path)] = {"kind": "redirect", "code": code, "location": loc,
                                                 "delay": rng.choice([0, 0, 0, 0.2, 1]),
                                                 "with_body": rng.random() < 0.3}
                cur = nxt
            last = "/%s/h%d" % (tok, L)
            if rng.random() < 0.1:
                # endless self-redirect: must stop after max_redirects
                routes["%d %s" % (cur, last)] = {"kind": "redirect", "code": rng.choice([302, 307]), "location": last,
                                                 "delay": 0, "with_body": False}
            else:
                routes["%d %s" % (cur, last)] = {"kind": "ok", "delay": rng.choice([0, 0, 0.3]), "code": rng.choice([200, 200, 404])}
            path0 = "/%s/h0" % tok
        else:
            # ---- plain fetch with a connection outcome
            f["method"] = rng.choice(["GET", "GET", "GET", "POST", "HEAD"])
            if f["method"] == "POST":
                f["body"] = "BODY-%s" % tok
            f["ct"] = rng.choice([None, None, 1, 5, 0])
            f["rt"] = rng.choice([None, None, 1, 5, 0])
            oi = rng.choice([0, 0, 1, 2])
            f["origin"] = oi
            path0 = "/%s/p" % tok
            kind = rng.choice(["ok", "ok", "ok", "ok", "reset", "hold", "refused", "hang", "slow"])
            if kind == "hold" and f["rt"] == 0:
                f["rt"] = rng.choice([1, 5, None])
            if kind == "hang" and f["ct"] == 0 and f["rt"] == 0:
                f["ct"] = 1
            if kind == "hang" and f["ct"] == 0:
                # with connect_timeout disabled the only bound is request_timeout
                pass
            if kind == "refused":
                f["origin"] = "dead"
            elif kind == "hang":
                f["origin"] = "hang"
            else:
                d = rng.choice([0, 0, 0.5, 2, 4.9, 5, 5.1, 19, 21, 30]) if kind != "slow" else rng.choice([19.9, 20, 20.1, 40])
                if f["rt"] == 0 and f["ct"] == 0 and rng.random() < 0.5:
                    d = rng.choice([0, 50, 500])  # no timeouts at all: any delay must be survived
                routes["%d %s" % (oi, path0)] = {"kind": "ok" if kind == "slow" else kind, "delay": d, "code": 200}
        # credentials
        ar = rng.random()
        if ar < 0.2:
            f["auth"] = ("user%d" % k, "SECRETPW%d" % k)
            secrets.append("SECRETPW%d" % k)
            secrets.append(base64.b64encode(("user%d:SECRETPW%d" % (k, k)).encode()).decode())
        elif ar < 0.4:
            f["urlcreds"] = "user%d:SECRETURL%d" % (k, k)
            secrets.append("SECRETURL%d" % k)
            secrets.append(base64.b64encode(f["urlcreds"].encode()).decode())
        f["secrets"] = secrets
        f["path0"] = path0
        if f["origin"] == 3 or any(v.get("location", "").lower().startswith("https") for v in routes.values()):
            use_tls = True
        fetches.append(f)
    # application reuses one HTTPRequest object for a later, different fetch (url/headers/credentials re-assigned):
    # nothing learnt during the first fetch may carry over into the second
    if nf >= 2 and rng.random() < 0.35:
        k1, k2 = sorted(rng.sample(range(nf), 2))
        fetches[k2]["reuse_of"] = k1
    return {"m": m, "fetches": fetches, "routes": routes, "tls": use_tls}


def gen_cases(spec):
    rng = core.rng_for(spec["seed"], PROP, spec["shard"])
    for _ in range(spec["n"]):
        yield build_scenario(rng, spec["tier"])


def _chain(k, method, hops, hmode, headers, secrets, m=1, auth=None, urlcreds=None, body=None, max_redirects=None):
    """hops: [(origin_idx, code, location)], final origin index."""
    routes = {}
    for i, (oi, code, loc) in enumerate(hops):
        if code is None:
            routes["%d /f%d/h%d" % (oi, k, i)] = {"kind": "ok", "delay": 0, "code": 200}
        else:
            routes["%d /f%d/h%d" % (oi, k, i)] = {"kind": "redirect", "code": code, "location": loc, "delay": 0,
                                                  "with_body": False}
    f = {"k": k, "tok": "f%d" % k, "at": 0, "method": method, "body": body, "ct": None, "rt": None,
         "max_redirects": max_redirects, "follow": None, "auth": auth, "urlcreds": urlcreds, "hmode": hmode,
         "headers": headers, "origin": hops[0][0], "path0": "/f%d/h0" % k, "secrets": secrets}
    return f, routes


def directed_cases():
    # (1) regression for the C06 `del` defect (fixed in 98dd1be): multi-valued Cookie built with
    #     HTTPHeaders.add survived a cross-origin redirect because `del headers["Cookie"]` raised
    #     KeyError, which finish() swallowed.
    f, r = _chain(0, "GET", [(0, 302, "http://b.test/f0/h1"), (1, None, None)], "add",
                  [("Cookie", "sid0=SECRETCOOKIE0x0"), ("Cookie", "sid1=SECRETCOOKIE0x1"),
                   ("Authorization", "Bearer SECRETAUTH0")],
                  ["SECRETCOOKIE0x0", "SECRETCOOKIE0x1", "SECRETAUTH0"])
    yield {"m": 1, "fetches": [f], "routes": r, "tls": False, "directed": "multi-valued-cookie-cross-origin"}
    # (2) same host, other port; case variants of the header names
    f, r = _chain(0, "GET", [(0, 301, "http://a.test:8080/f0/h1"), (2, None, None)], "add",
                  [("cookie", "sid0=SECRETCOOKIE0x0"), ("COOKIE", "sid1=SECRETCOOKIE0x1")],
                  ["SECRETCOOKIE0x0", "SECRETCOOKIE0x1"])
    yield {"m": 1, "fetches": [f], "routes": r, "tls": False, "directed": "other-port"}
    # (3) http -> https on the same host, URL credentials
    f, r = _chain(0, "GET", [(0, 302, "https://a.test/f0/h1"), (3, None, None)], "dict",
                  [("Cookie", "sid0=SECRETCOOKIE0x0")],
                  ["SECRETCOOKIE0x0", "SECRETURL0", base64.b64encode(b"user0:SECRETURL0").decode()],
                  urlcreds="user0:SECRETURL0")
    yield {"m": 1, "fetches": [f], "routes": r, "tls": True, "directed": "scheme-change"}
    # (4) 303 after POST and 302 after POST become bodiless GETs; hop budget
    f, r = _chain(0, "POST", [(0, 303, "/f0/h1"), (0, 302, "/f0/h2"), (0, 302, "/f0/h3"), (0, None, None)], "add", [], [],
                  body="BODY-f0", max_redirects=2)
    yield {"m": 1, "fetches": [f], "routes": r, "tls": False, "directed": "rewrite-and-budget"}
    # (5) queue: three fetches, one slot, middle one times out in the queue, last one has no timeouts at all
    fs, routes = [], {}
    for k, (ct, rt, d) in enumerate([(None, None, 3), (1, 1, 0), (0, 0, 0)]):
        fs.append({"k": k, "tok": "f%d" % k, "at": 0, "method": "GET", "body": None, "ct": ct, "rt": rt,
                   "max_redirects": None, "follow": None, "auth": None, "urlcreds": None, "hmode": "add", "headers": [],
                   "origin": 0, "path0": "/f%d/p" % k, "secrets": []})
        routes["0 /f%d/p" % k] = {"kind": "ok", "delay": d, "code": 200}
    yield {"m": 1, "fetches": fs, "routes": routes, "tls": False, "directed": "queue-timeout-then-progress"}
    # (6) the request that follows a redirect fails (connection refused / timeout in the queue):
    #     the original fetch must still complete (with that error)
    f, r = _chain(0, "GET", [(0, 302, "http://dead.test/f0/h1")], "add", [], [])
    yield {"m": 1, "fetches": [f], "routes": r, "tls": False, "directed": "redirect-to-refused-origin"}
    f, r = _chain(0, "GET", [(0, 302, "/f0/h1"), (0, None, None)], "add", [], [])
    f["ct"] = f["rt"] = 1
    blocker = {"k": 1, "tok": "f1", "at": 0, "method": "GET", "body": None, "ct": None, "rt": None, "max_redirects": None,
               "follow": None, "auth": None, "urlcreds": None, "hmode": "add", "headers": [], "origin": 0,
               "path0": "/f1/p", "secrets": []}
    r["0 /f1/p"] = {"kind": "ok", "delay": 10, "code": 200}
    yield {"m": 1, "fetches": [f, blocker], "routes": r, "tls": False, "directed": "redirect-hop-times-out-in-queue"}


# ------------------------------------------------------------------ execution

def make_request(f):
    if f["origin"] == "dead":
        o = DEAD
    elif f["origin"] == "hang":
        o = ("http", HANG_HOST, 80)
    else:
        o = ORIGINS[f["origin"]]
    url = origin_url(o, f["path0"], userinfo=f["urlcreds"])
    items = f["headers"]
    if f["hmode"] in ("add", "pairs"):
        h = HTTPHeaders()
        for k, v in items:
            h.add(k, v)
    elif f["hmode"] == "dict":
        h = {}
        for k, v in items:
            h[k] = (h[k] + "; " + v) if (k in h and k.lower() == "cookie") else v
    else:
        h = HTTPHeaders()
        for k, v in items:
            if k in h and k.lower() == "cookie":
                h[k] = h[k] + "; " + v
            else:
                h[k] = v
    kw = {}
    if f["ct"] is not None:
        kw["connect_timeout"] = f["ct"]
    if f["rt"] is not None:
        kw["request_timeout"] = f["rt"]
    if f["max_redirects"] is not None:
        kw["max_redirects"] = f["max_redirects"]
    if f["follow"] is not None:
        kw["follow_redirects"] = f["follow"]
    if f["auth"]:
        kw["auth_username"], kw["auth_password"] = f["auth"]
    return HTTPRequest(url, method=f["method"], headers=h, body=f["body"], validate_cert=False,
                       allow_nonstandard_methods=False, **kw)


async def _scenario(sc, state, ctx):
    loop = asyncio.get_event_loop()
    rig = clientrig.Rig(hang=[HANG_HOST])
    state["rig"] = rig
    m = sc["m"]
    routes = sc["routes"]
    viol = state["viol"] = []

    def responder_for(oi):
        def responder(req):
            act = routes.get("%d %s" % (oi, (req.target or "").split("?")[0]))
            req_info = {"code": None}
            req.body = req.body  # noqa
            state["sent"][id(req)] = req_info
            tokn = (req.target or "/").split("/")[1] if "/" in (req.target or "") else ""
            state["per_token"][tokn] = state["per_token"].get(tokn, 0) + 1
            if act is None or (act["kind"] == "redirect" and state["per_token"][tokn] > 14):
                # unknown path, or a client that does not stop following a redirect loop: the
                # origin ends the chain itself so that the scenario terminates (the hop budget
                # check still sees every hop that arrived)
                req_info["code"] = 404
                return [("send", b"HTTP/1.1 404 Not Found\r\nContent-Length: 2\r\n\r\nNF")]
            out = []
            if act["delay"]:
                out.append(("sleep", act["delay"]))
            if act["kind"] == "ok":
                body = b"" if req.method == "HEAD" else ("OK %s" % req.target).encode()
                req_info["code"] = act["code"]
                out.append(("send", b"HTTP/1.1 %d X\r\nContent-Length: %d\r\n\r\n" % (act["code"], len(("OK %s" % req.target).encode())) + body))
            elif act["kind"] == "redirect":
                req_info["code"] = act["code"]
                body = b"redirecting" if (act["with_body"] and req.method != "HEAD") else b""
                out.append(("send", b"HTTP/1.1 %d X\r\nLocation: %s\r\nContent-Length: %d\r\n\r\n"
                            % (act["code"], act["location"].encode("latin-1"), len(body)) + body))
            elif act["kind"] == "reset":
                out.append(("send", b"HTTP/1.1 200 OK\r\nContent-Length: 100\r\n\r\npartial"))
                out.append(("close",))
            elif act["kind"] == "hold":
                out.append(("hold",))
            return out
        return responder

    state["sent"] = {}
    state["per_token"] = {}
    for oi, o in enumerate(ORIGINS):
        if o[0] == "https" and not sc["tls"]:
            continue
        await rig.origin(o[0], o[1], o[2], responder_for(oi))
    client = rig.client(max_clients=m)
    state["client"] = client

    # ---- hooks
    def on_create_stream(stream, af, addr, open_now):
        ctx.count("admission_evals")
        if open_now >= m:
            viol.append(("admission/open-client-sockets-exceed-max_clients",
                         "a new connection was opened while max_clients client sockets were still open",
                         {"open": open_now, "max_clients": m, "t": loop.time()}))

    def on_start(rec, cl):
        ctx.count("admission_evals")
        if len(cl.active) > m:
            viol.append(("admission/active-exceeds-max_clients", "len(active) > max_clients when a request was started",
                         {"active": len(cl.active), "max_clients": m}))
        schedule_eval()

    def on_complete(rec, resp):
        schedule_eval()

    pending_eval = []

    def schedule_eval():
        if not pending_eval:
            pending_eval.append(loop.call_later(2e-6, quiet_point))

    def quiet_point():
        # Runs 2 virtual microseconds after a submit/start/completion, i.e. after every ready
        # callback has run.  Slots are counted on client.active: a request that was answered by
        # a redirect has released its slot although its own callback only runs when the whole
        # chain is finished, so "started and not completed" would over-count.
        pending_eval.clear()
        ctx.count("progress_evals")
        queued = [r["fid"] for r in rig.fetches if r["started"] is None and r["completions"] == 0]
        active = len(client.active)
        if queued:
            state["saw_queue"] = True
        if active > m:
            viol.append(("admission/active-exceeds-max_clients", "len(active) > max_clients at a quiet point",
                         {"active": active, "max_clients": m}))
        if queued and active < m:
            # Not yet a verdict: a queue timeout that fired in this very timer batch has already taken its
            # fetch out of the queue but delivers the completion through add_callback (next iteration).
            # Re-examine after two more loop iterations at the same virtual instant.
            suspects = list(queued)
            ctx.count("progress_rechecks")

            def recheck(hops=2):
                if hops:
                    loop.call_soon(recheck, hops - 1)
                    return
                still = [r["fid"] for r in rig.fetches
                         if r["fid"] in suspects and r["started"] is None and r["completions"] == 0]
                act = len(client.active)
                if still and act < m:
                    viol.append(("progress/slot-free-but-queued-fetch-not-started",
                                 "at a quiet point a fetch was waiting in the queue although fewer than max_clients "
                                 "were in progress",
                                 {"queued": still, "active": act, "max_clients": m, "t": loop.time()}))
            loop.call_soon(recheck)

    rig.on_create_stream, rig.on_start, rig.on_complete = on_create_stream, on_start, on_complete

    # ---- submit
    futs = {}
    order = sorted(sc["fetches"], key=lambda f: (f["at"], f["k"]))
    t0 = loop.time()
    user_recs = {}
    reqs = {}
    order = [f for f in order if f.get("reuse_of") is None] + [f for f in order if f.get("reuse_of") is not None]
    for f in order:
        dt = f["at"] - (loop.time() - t0)
        if dt > 0:
            await asyncio.sleep(dt)
        req = make_request(f)
        src = f.get("reuse_of")
        if src is not None and src in futs:
            try:
                await futs[src]
            except Exception:  # noqa: BLE001
                pass
            old_req = reqs[src]
            vars(old_req).update(vars(req))   # every attribute the constructor sets is re-assigned on the old object
            req = old_req
            ctx.count("request_object_reused")
        reqs[f["k"]] = req
        n0 = len(rig.fetches)
        futs[f["k"]] = client.fetch(req, raise_error=False)
        user_recs[f["k"]] = rig.fetches[n0]["fid"] if len(rig.fetches) > n0 else None
        schedule_eval()
    state["user_recs"] = user_recs
    state["futs"] = futs
    state["phase"] = "await"
    res = {}
    for k, fu in futs.items():
        state["awaiting"] = k
        try:
            res[k] = ("ok", await fu)
        except Exception as e:  # noqa: BLE001
            res[k] = ("err", e)
    state["awaiting"] = None
    state["phase"] = "after"
    snap = [(r["fid"], r["completions"]) for r in rig.fetches]
    await asyncio.sleep(200.0)
    await vloop.settle(2)
    state["late"] = [(r["fid"], r["completions"]) for r in rig.fetches if (r["fid"], r["completions"]) not in snap]
    state["leftover"] = {"queue": len(client.queue), "active": len(client.active), "waiting": len(client.waiting)}
    state["open_streams"] = [a for s, a in rig.open_streams()]
    await rig.close()
    return res


def run_case(sc, ctx):
    state = {"awaiting": None, "phase": "submit", "saw_queue": False}
    with LogMon() as lm:
        try:
            res = vloop.run(_scenario, sc, state, ctx, collect=(ctx.evaluations % 40 == 0))
        except vloop.Quiescent:
            res = None
            # futures the scenario never got to await must not be reported as "exception was
            # never retrieved" inside some later case
            for fu in (state.get("futs") or {}).values():
                if fu.done() and not fu.cancelled():
                    fu.exception()
            import gc
            gc.collect()
        finally:
            if state.get("rig") is not None:
                state["rig"].cleanup_sync()
    rig = state["rig"]
    nhops = sum(1 for r in sc["routes"].values() if r["kind"] == "redirect")
    ctx.mark(sc, len(sc["fetches"]) > sc["m"] or nhops > 0)
    if len(ctx.samples) < 3 and nhops:
        ctx.sample({"max_clients": sc["m"], "fetches": [{k: f[k] for k in ("method", "at", "origin", "path0", "hmode", "headers", "ct", "rt", "max_redirects")}
                                                        for f in sc["fetches"]][:3], "routes": dict(list(sc["routes"].items())[:4])})
    brief = {"max_clients": sc["m"],
             "fetches": [{k: f[k] for k in ("k", "method", "at", "origin", "path0", "ct", "rt", "max_redirects", "follow", "auth", "urlcreds", "hmode", "headers")}
                         for f in sc["fetches"]],
             "routes": sc["routes"], "events": rig.events[:120]}
    ctx.count("oracle_evals")
    if res is None:
        k = state.get("awaiting")
        f = next((x for x in sc["fetches"] if x["k"] == k), None)
        kind = "?"
        if f is not None:
            r0 = sc["routes"].get("%s %s" % (f["origin"], f["path0"]), {})
            kind = "redirect-chain" if r0.get("kind") == "redirect" else str(r0.get("kind") or f["origin"])
        ctx.violation(f"completion/fetch-pending-at-quiescence/{kind}",
                      "a fetch future was still pending when the virtual loop had nothing left to run",
                      dict(brief, pending_fetch=k, phase=state.get("phase"),
                           rig_state=[{kk: r[kk] for kk in ("fid", "url", "started", "completions")} for r in rig.fetches]))
        return
    # ---- hook-detected violations
    seen = set()
    for mech, what, w in state["viol"]:
        if mech in seen:
            continue
        seen.add(mech)
        ctx.violation(mech, what, dict(brief, detail=w))
    # ---- completion
    for r in rig.fetches:
        ctx.count("completion_evals")
        if r["completions"] != 1:
            ctx.violation("completion/callback-count-%s" % ("zero" if r["completions"] == 0 else "more-than-one"),
                          "a fetch_impl callback ran a number of times different from one",
                          dict(brief, fid=r["fid"], url=r["url"], completions=r["completions"]))
            break
    if state["late"]:
        ctx.violation("completion/late-second-completion", "a completion callback fired long after the fetch had completed",
                      dict(brief, late=state["late"]))
    if any(state["leftover"].values()):
        ctx.violation("state/queue-active-waiting-not-empty-at-end",
                      "client.queue / active / waiting still hold entries after every fetch completed",
                      dict(brief, leftover=state["leftover"]))
    if state["open_streams"]:
        ctx.violation("leak/client-stream-open-at-end", "client sockets still open 200 virtual seconds after the last completion",
                      dict(brief, open=state["open_streams"]))
    unc = [r for r in lm.uncaught() if not (r["logger"] == "asyncio" and "clientrig" in r["msg"])]
    if unc:
        ctx.violation(f"log/{unc[0]['exc'] or 'uncaught'}", "uncaught-exception report in the log (InvalidStateError = completed twice)",
                      dict(brief, records=unc[:3]))
    # ---- FIFO
    ctx.count("fifo_evals")
    so = rig.start_order
    if any(a > b for a, b in zip(so, so[1:])):
        ctx.violation("fifo/start-order-not-submission-order", "queued fetches did not start in submission order",
                      dict(brief, start_order=so))
    if state["saw_queue"]:
        ctx.count("queued_fetches")
    # ---- results belong to their fetch
    for f in sc["fetches"]:
        out = res[f["k"]]
        if out[0] == "ok":
            r = out[1]
            ctx.count("fetch_ok")
            if r.code == 200 and f["method"] != "HEAD" and ("/%s/" % f["tok"]).encode() not in r.body:
                ctx.violation("completion/response-of-another-fetch", "a fetch was completed with a response that belongs to another request",
                              dict(brief, fetch=f["k"], body=r.body[:100]))
            if r.code == 599:
                ctx.count("fetch_599")
        else:
            ctx.count("fetch_err")
            msg = str(out[1])
            if "in request queue" in msg:
                ctx.count("queue_timeouts_seen")
            elif "Timeout" in msg:
                ctx.count("other_timeouts_seen")
    # ---- redirects, as seen by the origins
    judge_redirects(sc, rig, state, brief, ctx)


def judge_redirects(sc, rig, state, brief, ctx):
    sent = state["sent"]
    for f in sc["fetches"]:
        tok = "/%s/" % f["tok"]
        arr = [a for a in rig.arrivals if a.target and tok in a.target]
        if not arr:
            continue
        hops = len(arr) - 1
        if hops:
            ctx.count("redirect_hops_seen", hops)
        budget = 5 if f["max_redirects"] is None else f["max_redirects"]
        if f["follow"] is False:
            budget = 0
        trail = [{"origin": a.origin.name, "line": a.line, "headers": a.headers, "body_len": len(a.body),
                  "answered": sent.get(id(a), {}).get("code")} for a in arr]
        ctx.count("oracle_evals")
        if hops > budget:
            ctx.violation("redirect/more-hops-than-max_redirects", "more redirects were followed than max_redirects allows",
                          dict(brief, fetch=f["k"], hops=hops, budget=budget, trail=trail))
            continue
        first = arr[0].origin
        for i in range(1, len(arr)):
            prev, cur = arr[i - 1], arr[i]
            code = sent.get(id(prev), {}).get("code")
            if code is None:
                continue
            ctx.count("rewrite_evals")
            must_get = (code == 303 and prev.method != "HEAD") or (code in (301, 302) and prev.method == "POST")
            if must_get:
                ctx.count("rewrite_must_get")
                cl = [v for v in cur.get_all("content-length") if v.strip() not in ("0", "")]
                if cur.method != "GET" or cur.body or cl or cur.get_all("transfer-encoding"):
                    what = "method-kept" if cur.method != "GET" else "body-kept"
                    ctx.violation(f"redirect/rewrite/{code}-after-{prev.method}-{what}",
                                  "a 303 (non-HEAD) / a 301-302 after POST must be followed by a bodiless GET",
                                  dict(brief, fetch=f["k"], hop=i, trail=trail))
                    break
            else:
                ctx.count("unspecified_method_preserved" if cur.method == prev.method else "unspecified_method_changed")
        for i, a in enumerate(arr):
            if a.origin.scheme == "https":
                ctx.count("tls_arrivals")
            if a.origin is first:
                continue
            ctx.count("cross_origin_arrivals")
            head = a.raw_head.decode("latin-1")
            leaked = [s for s in f["secrets"] if s in head]
            if f["secrets"]:
                ctx.count("cross_origin_with_secrets")
            if leaked:
                names = sorted({k.lower() for k, v in a.headers if any(s in v for s in leaked)})
                where = "+".join(names) if names else "request-line"
                multi = "multi-valued" if any(sum(1 for k, _ in f["headers"] if k.lower() == n) > 1 for n in names) else "single"
                ctx.violation(f"redirect/credentials-sent-to-other-origin/{where}/{multi}/{f['hmode']}",
                              "a request that followed a redirect to a different scheme/host/port carried original credentials",
                              dict(brief, fetch=f["k"], hop=i, leaked=leaked, first_origin=first.name, this_origin=a.origin.name,
                                   trail=trail))
                break
