"""C20 — template autoescaping never emits unescaped data.

Taint markers: every value produced by an expression/raw/module tag is
`<Mk>&"'p` with a k unique to the tag (as str, bytes, an object whose str()
is the marker, or an instance of a builtin-type subclass / Enum whose str() is
the marker), or a unique plain number checked against custom wrapping escapers.  The reference interpreter of vf/refs/tmpl.py (shared with C19)
knows for every emission whether it is escaped (an escaping function is in
effect for the *file that contains the tag*) or raw; the output of the real
Template is scanned for both forms of every marker.
"""
from __future__ import annotations

import re

from vf import core
from vf.refs import tmpl
from vf.props import c19 as base

core.use_repo()
from tornado import template as T  # noqa: E402

PROP = "C20"
META = {
    "level": "exploration",
    "technique": "taint markers through generated multi-file templates; expected escaped/raw form per emission from a direct interpreter, output scanned for both forms",
    "level_text": ("Templates from the C19 generator biased towards include/extends/block/apply nesting with a different "
                   "autoescape setting per file (loader default, constructor argument, directive, custom escaping function "
                   "from the namespace, None) emit uniquely numbered markers containing all five HTML specials as str, bytes, "
                   "objects with a markup __str__, and subclasses of int/float/complex/Fraction/Decimal/list/tuple/dict/str/"
                   "bytes, int-mixin Enum and IntFlag members and exceptions whose str() is the marker; for every marker the "
                   "number of escaped and raw occurrences in the real output must equal what the direct interpretation says. "
                   "Plain int and float values are emitted as unique numbers: under an escaping function that transforms "
                   "every input (wrapping custom functions) the function's result must appear once per escaped emission."),
    "level_note": ("Trusts vf/refs/tmpl.py (interpreter, printer, 5-entry escape table); apply functions are restricted to "
                   "content-preserving ones so markers survive; &#39; and &#x27; are both accepted; cases whose interpretation "
                   "ends in an exception are only counted."),
    "design_ref": "DESIGN.md §4 C20",
    "engine": "oracle",
}
RULE = ("a case is a seed for the C19 generator in marker mode; non-trivial = at least two markers are emitted; distinct by "
        "printed sources + configuration")
FLOORS = {"quick": 2500, "thorough": 250000}
ASSUMPTIONS = ["reference interpreter and printer are correct", "all autoescape functions offered by the generator escape the five specials"]
REQUIRED_COUNTERS = ["oracle_evals", "markers_checked", "escaped_expected", "raw_expected", "mixed_autoescape_cases",
                     "apply_emits", "nonmain_file_emits", "builtin_subclass_escaped_evals", "numeric_transformed_evals"]

_MK = re.compile(r"\b(mk[a-z]?)\((\d+)\)")


def shards(tier, seed):
    k = 16
    n = 8000 if tier == "quick" else 800000
    return [{"n": n // k, "j": j} for j in range(k)]


def gen_cases(spec):
    rng = core.rng_for(spec["seed"], PROP, spec["j"])
    for _ in range(spec["n"]):
        yield (rng.getrandbits(48), "wf")


def esc_form(k):
    return ("&lt;M%d&gt;&amp;&quot;&#x27;p" % k).encode()


def raw_form(k):
    return tmpl.marker(k).encode()


def check_numeric(ctx, built, it, got, k, e, where):
    """A plain int/float value: its text holds no special character, so the escaped form differs from the text only
    under an escaping function that transforms every input (myesc, tagesc: wrappers).  The escaped form is what the
    function in effect for the tag's file returns for the text; it must occur once per escaped emission, and the
    bare text nowhere else than in the expected emissions."""
    fn = tmpl.MARKER_FNS["mkr" if e["value"] == "float" else "mkn"][0]
    raw = str(fn(k)).encode()
    auto = e["autoescape"]
    escf = raw
    if auto is not None and e["esc"]:
        r = eval(auto, it.ns)(raw)
        escf = r.encode("utf-8") if isinstance(r, str) else r
    n_raw_total = got.count(raw)
    if escf == raw:
        ctx.count("numeric_plain_evals")
        if n_raw_total != e["esc"] + e["raw"]:
            ctx.violation(f"{where}/number/missing-or-extra", "a numeric value is not emitted the expected number of times",
                          base.witness(built, marker=k, expected=e, found={"occurrences": n_raw_total}, got=got))
        return
    ctx.count("numeric_transformed_evals")
    ne = got.count(escf)
    want_total = e["esc"] * escf.count(raw) + e["raw"]
    if ne == e["esc"] and n_raw_total == want_total:
        return
    if ne < e["esc"] and n_raw_total >= want_total:
        found = "raw"                # the number is there, but not in the form the escaping function produces
    elif n_raw_total < want_total:
        found = "missing-or-altered"
    else:
        found = "extra"
    ctx.violation(f"{where}/number/expected-escaped-found-{found}",
                  "a numeric value does not appear in the form the escaping function in effect produces",
                  base.witness(built, marker=k, expected=e, escaped_form=escf, found={"escaped": ne, "bare": n_raw_total}, got=got))


def run_case(case, ctx):
    seedv, _ = case
    built = base.build(seedv, "wf", "c20")
    if built is None:
        ctx.count("generator_rejects")
        return
    c = built["case"]
    it = tmpl.Interp(c, tmpl.user_namespace())
    try:
        it.render()
    except Exception:
        ctx.count("skipped_interpretation_raises")
        return
    if it.unspecified - {"exotic-whitespace-under-filtering"}:
        ctx.count("unspecified_cases")
        return
    try:
        t, kw = base.make_template(built, built["rng"])
        got = t.generate(**kw)
    except Exception as e:
        ctx.violation(f"generate-raises-{type(e).__name__}", "real template raised where the interpretation produced output",
                      base.witness(built, err=repr(e)))
        return
    got = got.replace(b"&#39;", b"&#x27;")
    ctx.count("oracle_evals")
    chain = it.chain
    want = {}
    autos = set()
    for src, file, escaped, in_apply in it.emits:
        m = _MK.search(src)
        if not m:
            continue
        fn, k = m.group(1), int(m.group(2))
        vclass = tmpl.MARKER_FNS[fn][1]
        role = ("child" if len(chain) > 1 else "main") if file == c["main"] else ("parent" if file in chain else "included")
        if file != c["main"]:
            ctx.count("nonmain_file_emits")
        if in_apply:
            ctx.count("apply_emits")
        kind = "raw-tag" if (not escaped and it.auto[file] is not None) else "expr"
        e = want.setdefault(k, {"esc": 0, "raw": 0, "role": role, "apply": in_apply, "kind": kind, "file": file,
                                "autoescape": it.auto[file], "value": vclass, "numeric": fn in tmpl.NUMERIC_MARKERS})
        e["esc" if escaped else "raw"] += 1
        autos.add(it.auto[file] is None)
    if len(autos) > 1:
        ctx.count("mixed_autoescape_cases")
    for k, e in want.items():
        ctx.count("markers_checked")
        ctx.count("value:" + e["value"])
        ctx.count("escaped_expected", e["esc"])
        ctx.count("raw_expected", e["raw"])
        where = e["role"] + ("/apply" if e["apply"] else "") + "/" + e["kind"]
        if e["numeric"]:
            check_numeric(ctx, built, it, got, k, e, where)
            continue
        if e["value"] not in ("str", "bytes", "object") and e["esc"]:
            ctx.count("builtin_subclass_escaped_evals")
        ne, nr = got.count(esc_form(k)), got.count(raw_form(k))
        if (ne, nr) == (e["esc"], e["raw"]):
            continue
        if e["esc"] and nr > e["raw"]:
            found = "raw"
        elif e["raw"] and ne > e["esc"]:
            found = "escaped"
        elif ne + nr < e["esc"] + e["raw"]:
            found = "missing-or-altered"
        else:
            found = "extra"
        expect = "escaped" if e["esc"] else "raw"
        if e["value"] not in ("str", "bytes", "object"):
            where += "/builtin-subclass"     # (the exact class is in the witness; one key per shape, not per class)
        ctx.violation(f"{where}/expected-{expect}-found-{found}",
                      "a marker value does not appear in the form the per-file autoescape setting defines",
                      base.witness(built, marker=k, expected=e, found={"escaped": ne, "raw": nr}, got=got))
    ctx.mark((sorted(built["sources"].items()), sorted(c["cfg"].items(), key=str)), len(want) >= 2)
    if len(want) >= 3 and len(c["files"]) > 1:
        ctx.sample({"sources": {k: v[:300] for k, v in built["sources"].items()}, "cfg": c["cfg"]}, limit=2)
