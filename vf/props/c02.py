"""C02 — responses are well-framed and carry exactly what the handler wrote.

A *handler program* (list of output operations) is interpreted twice: by a real
tornado.web.RequestHandler inside a real Application behind a real HTTPServer
(wire.ServerRig, virtual loop, AF_UNIX socketpair) and by `reference()` below,
which computes the set of acceptable outcomes from the property statement.  The
bytes the peer received are delimited by the independent strict response reader
with the client's knowledge (method); every case carries a second request on the
same connection so that any framing error shows up as desynchronisation.

This module also hosts the program interpreter / exchange driver shared with
C03 and C29 (they import it from here).
"""
from __future__ import annotations

import hashlib
import itertools

from vf import core, logmon, vloop, wire

core.use_repo()
from tornado import web  # noqa: E402

from vf.refs import http as H  # noqa: E402
from vf.refs import http_extra as X  # noqa: E402

PROP = "C02"
META = {
    "level": "exploration",
    "technique": "handler-program generator interpreted by the real RequestHandler/HTTPServer and by a reference; "
                 "wire bytes delimited by an independent strict response reader; second pipelined request exposes desync",
    "level_text": "Seeded random handler programs (<= 7 output ops) plus an exhaustive small scope (all programs of <= N ops "
                  "over a reduced op alphabet x 3 methods x 4 version/Connection forms) are executed on the real server over a "
                  "socketpair on a virtual-time loop; every byte the peer receives must be delimited by the strict reader into "
                  "exactly the response the reference allows (status, app headers, body), followed by nothing or by exactly the "
                  "canonical answer to the second request.",
    "level_note": "Trusts the ~150-line reference interpreter and the strict reader. 1xx used as a final status, an explicit "
                  "Content-Length on 1xx/204, a wrong explicit Content-Length on HEAD and header changes after the first flush "
                  "are UNSPECIFIED (executed, counted, not gated). ETag value scheme (sha1 of the buffered body) is used only to "
                  "build If-None-Match; a 304 is demanded only when the 200 twin would carry exactly that ETag.",
    "design_ref": "DESIGN.md §4 C02",
    "engine": "wire",
}
RULE = ("a case is (method, version, Connection, If-None-Match form, send mode, handler program of <= 7 ops over "
        "set_status/set_header/add_header/clear_header/explicit Content-Length/write/flush/finish/raise/settle with chunks "
        "b'', 1 B, CRLF-bearing, fake-terminator, 1 KiB, 70 KiB); non-trivial when the program writes >= 1 non-empty chunk and "
        "(flushes before finishing, or the status/method is bodiless, or the request is HTTP/1.0); distinct by the whole case; "
        "'xform' cases run clean programs (content type in/out of the compressible set, chunk sizes around the 1 KiB gzip "
        "threshold, Accept-Encoding with/without gzip, mostly HEAD) under compress_response=True: the delimited body is decoded "
        "per Content-Encoding before comparison and a HEAD Content-Length is compared with the wire body of the GET twin")
FLOORS = {"quick": 1500, "thorough": 60000}
ASSUMPTIONS = [
    "reference interpreter of handler programs encodes the statement correctly",
    "strict response reader (vf/refs/http.py) is correct",
    "AF_UNIX socketpair + virtual loop: quiescence means nothing is in flight",
    "plain-TCP HTTPServer path only (no TLS, no xheaders); Application settings: default, and compress_response=True "
    "(the one built-in output transform) for the 'xform' cases",
    "zlib (full-stream gunzip of the delimited body) is correct",
]
REQUIRED_COUNTERS = ["oracle_evals", "resp1_checked", "second_checked", "bodiless_checked", "close_delimited_checked",
                     "head_cl_checked", "head_twin_checked", "head_twin_get_was_encoded", "xform_gzip_decoded"]

SECOND_BODY = b"SECOND-OK"
SECOND_REQ = b"GET /second HTTP/1.1\r\nHost: t\r\n\r\n"

LIT = {
    "one": b"x",
    "crlf": b"a\r\nb\r\n\r\nc",
    "fake": b"0\r\n\r\nHTTP/1.1 200 OK\r\nContent-Length: 0\r\n\r\n",
    "y": b"yz",
}
_BLK = {}


def mk_chunk(spec):
    """Deterministic bytes for a chunk spec (keeps cases small and replayable)."""
    if spec is None:
        return None
    k = spec[0]
    if k == "e":
        return b""
    if k == "lit":
        return LIT[spec[1]]
    if k == "b":
        n, s = spec[1], spec[2]
        blk = _BLK.get(s)
        if blk is None:
            blk = _BLK[s] = bytes((j * 7 + s) & 0xFF for j in range(256))
        return (blk * (n // 256 + 1))[:n]
    if k == "r":   # incompressible (seeded random) bytes: gzip output is larger than the input
        import random as _random
        key = (spec[1], spec[2])
        blk = _BLK.get(key)
        if blk is None:
            blk = _BLK[key] = _random.Random(spec[2]).randbytes(spec[1])
        return blk
    if k == "t":   # compressible ascii text
        n, s = spec[1], spec[2]
        unit = (b"line %d of text; " % s)
        return (unit * (n // len(unit) + 1))[:n]
    raise ValueError(spec)


def chunk_len(spec):
    c = mk_chunk(spec)
    return len(c) if c else 0


def bodiless(code):
    return code in (204, 304) or 100 <= code < 200


# ---------------------------------------------------------------------------
# real side: handler program interpreter


class ProgHandler(web.RequestHandler):
    SUPPORTED_METHODS = ("GET", "HEAD", "POST")

    def initialize(self, box):
        self.box = box

    async def _run(self):
        box = self.box
        box["started"] += 1
        try:
            for i, op in enumerate(box["prog"]):
                box["at"] = i
                k = op[0]
                if k == "settle":
                    await vloop.settle()
                elif k == "status":
                    if len(op) > 2:
                        self.set_status(op[1], op[2])
                    else:
                        self.set_status(op[1])
                elif k == "set":
                    self.set_header(op[1], op[2])
                elif k == "add":
                    self.add_header(op[1], op[2])
                elif k == "clear":
                    self.clear_header(op[1])
                elif k == "write":
                    self.write(mk_chunk(op[1]))
                elif k == "flush":
                    f = self.flush()
                    if len(op) > 1 and op[1]:
                        await f
                elif k == "finish":
                    self.finish(mk_chunk(op[1]) if len(op) > 1 else None)
                elif k == "raise":
                    raise web.HTTPError(op[1])
                else:
                    raise AssertionError(op)
        except BaseException as e:
            box["raised"] = (box["at"], type(e).__name__)
            raise
        finally:
            box["done"] += 1

    get = head = post = _run


class SecondHandler(web.RequestHandler):
    def get(self):
        self.write(SECOND_BODY)


def _quiet(handler):
    pass


class Obs:
    """Everything the harness observed for one connection."""

    def __init__(self):
        self.rx = b""
        self.eof = False
        self.second_sent = False
        self.box = None
        self.loop_errors = []
        self.quiesced = True
        self.send_error = None
        self.logs = []


async def quiesce(peer, st, box, cap=600):
    """Virtual-time quiescence: the handler program is over, the server stream has
    nothing left to write and nothing arrived for 4 consecutive rounds."""
    idle = 0
    for _ in range(cap):
        n = len(peer.rx)
        await vloop.settle()
        peer.pump()
        busy = (len(peer.rx) != n or (not st.closed() and st.writing())
                or box["started"] > box["done"])
        idle = 0 if busy else idle + 1
        if idle >= 4:
            return True
    return False


def build_request(case, inm_value=None):
    lines = ["%s /p HTTP/%s" % (case["method"], case["version"]), "Host: t"]
    if case.get("conn"):
        lines.append("Connection: " + case["conn"])
    if inm_value:
        lines.append("If-None-Match: " + inm_value)
    for h in case.get("req_headers", ()):
        lines.append(h)
    body = b""
    if case["method"] == "POST":
        lines.append("Content-Length: 3")
        body = b"xyz"
    return ("\r\n".join(lines) + "\r\n\r\n").encode("latin-1") + body


def run_exchange(case, request_bytes, app_settings=None, server_kw=None, handler_cls=ProgHandler):
    """Execute one case on the real server. Returns Obs."""
    obs = Obs()
    box = {"prog": [tuple(o) for o in case["prog"]], "started": 0, "done": 0, "at": -1, "raised": None}
    obs.box = box

    async def main():
        app = web.Application([("/p", handler_cls, {"box": box}), ("/second", SecondHandler)],
                              log_function=_quiet, **(app_settings or {}))
        rig = wire.ServerRig(app, record=False, **(server_kw or {}))
        # "throttle": the transport accepts the first writes only in small pieces (and sometimes nothing), so the
        # response head, flushed chunks and the final chunk stay pending across loop iterations
        peer = rig.connect(write_plan=list(WPLAN_THROTTLE) if case.get("wplan") == "throttle" else None)
        st = rig.streams[0]
        try:
            if case.get("send", "pipelined") == "pipelined":
                await peer.send(request_bytes + SECOND_REQ)
                obs.second_sent = peer.send_error is None
                obs.quiesced = await quiesce(peer, st, box)
            else:
                await peer.send(request_bytes)
                obs.quiesced = await quiesce(peer, st, box)
                if not peer.eof and peer.send_error is None:
                    await peer.send(SECOND_REQ)
                    obs.second_sent = peer.send_error is None
                    obs.quiesced = (await quiesce(peer, st, box)) and obs.quiesced
            obs.rx, obs.eof = bytes(peer.rx), peer.eof
            obs.send_error = repr(peer.send_error) if peer.send_error else None
        finally:
            peer.close()
            await rig.close()

    with logmon.LogMon() as lm:
        import asyncio

        async def wrapped():
            lm.attach_loop(asyncio.get_running_loop())
            await main()
        vloop.run(wrapped, collect=False)
        obs.loop_errors = list(lm.loop_exceptions)
        obs.logs = [(r["logger"], r["level"], r["msg"][:160], r["exc_text"]) for r in lm.records
                    if r["level"] in ("ERROR", "CRITICAL", "WARNING")]
    return obs


# ---------------------------------------------------------------------------
# reference side


class Exp:
    def __init__(self):
        self.unspec = None          # reason string: whole case is UNSPECIFIED
        self.alts = []              # acceptable complete responses
        self.abort_ok = False       # EOF with no / an incomplete / a prefix-bodied message is acceptable
        self.written = b""          # every body byte the program handed to write()/finish() before it ended
        self.etag_body = None       # buffered body at the moment Tornado would compute the ETag
        self.flushed_before_finish = False
        self.body_on_bodiless = False
        self.notes = set()

    def as_dict(self):
        return {"unspec": self.unspec, "abort_ok": self.abort_ok, "notes": sorted(self.notes),
                "alts": [{k: (v if k != "body" else (len(v), v[:80])) for k, v in a.items()} for a in self.alts]}


def etag_of(body):
    return '"%s"' % hashlib.sha1(body).hexdigest()


def inm_header(form, body):
    e = etag_of(body)
    return {None: None, "match": e, "weak": "W/" + e, "star": "*", "other": '"0000"',
            "list": '"0000", ' + e}[form]


def header_value_ok(v):
    """Field-value characters the statement lets an application send (HTAB, SP, VCHAR, obs-text)."""
    return all(c == "\t" or " " <= c <= "~" or "\x80" <= c <= "\xff" for c in v)


def header_name_ok(n):
    return bool(n) and all(c in "!#$%&'*+-.^_`|~" or c.isalnum() and c < "\x7f" for c in n)


def reference(case, eager_at=()):
    """What the statement allows the peer to see for this case.  `eager_at`: indexes of set_header ops with an
    unserialisable *name* that the implementation rejected at call time (it may also defer the rejection to the
    moment the head is serialised; both are 'the operation was rejected')."""
    method = case["method"]
    exp = Exp()
    st, reason = 200, None
    hd = {}            # lower name -> [values]
    unpinned = set()
    buf = b""
    sent = b""
    committed = None
    finished = False
    poison = False     # a header whose *name* cannot be serialised was stored
    nparts = 0         # write() calls since the last flush (Tornado asserts on the *list*, so [b""] counts)

    def err(code):
        return {"kind": "error", "status": code}

    def normal(body):
        c = committed
        return {"kind": "normal", "status": c["status"], "reason": c["reason"], "headers": c["headers"],
                "unpinned": c["unpinned"], "body": b"" if (method == "HEAD" or bodiless(c["status"])) else body,
                "get_body": body, "explicit_cl": c["cl"]}

    def commit():
        nonlocal committed
        committed = {"status": st, "reason": reason, "headers": {k: list(v) for k, v in hd.items()},
                     "unpinned": set(unpinned), "cl": (hd.get("content-length") or [None])[-1]}
        if 100 <= st < 200:
            exp.unspec = "1xx-final-status"
        if committed["cl"] is not None and st in (204,) :
            exp.unspec = exp.unspec or "explicit-content-length-on-204"

    def cl_limit():
        c = committed
        if c is None or c["cl"] is None or method == "HEAD" or bodiless(c["status"]):
            return None
        return int(c["cl"])

    def rejected_before_commit(code=500):
        # an operation was rejected while nothing had been written: Tornado's error response
        exp.alts = [err(code)]
        exp.abort_ok = exp.abort_ok or code == 500 and poison

    def end_after_commit():
        # the program ended by an exception after the head was committed
        if bodiless(committed["status"]) or method == "HEAD":
            exp.alts = [normal(b"")]
            if buf and method != "HEAD":
                # the error path finishes the request, i.e. flushes the buffered body onto the committed
                # bodiless head: rejected exactly like an explicit flush()/finish() there (see
                # "flushed-body-on-bodiless-status" below) -> the connection is aborted, and what the peer
                # holds by then is a prefix of the bodiless response
                exp.body_on_bodiless = True
                exp.notes.add("flushed-body-on-bodiless-status")
                exp.abort_ok = True
        else:
            exp.alts = [normal(sent + buf), normal(sent)]
        if cl_limit() is not None and cl_limit() != len(sent + buf):
            exp.abort_ok = True
        if cl_limit() is not None and cl_limit() != len(sent):
            exp.abort_ok = True

    ended = False
    for op_index, op in enumerate(case["prog"]):
        k = op[0]
        if k == "settle":
            continue
        if finished:
            if k in ("write", "finish", "raise"):
                ended = True        # RuntimeError / HTTPError after finish(): logged, no wire effect
                break
            if k in ("set", "add") and (not header_value_ok(op[2]) or op_index in eager_at):
                ended = True
                break
            continue
        if k == "status":
            st, reason = op[1], (op[2] if len(op) > 2 else None)
            if committed is not None:
                exp.notes.add("status-after-flush")
        elif k in ("set", "add", "clear"):
            name = op[1].lower()
            if committed is not None:
                exp.notes.add("header-after-flush")
            if k != "clear" and not header_value_ok(op[2]):
                # documented rejection at call time (ValueError): the handler dies here
                exp.notes.add("bad-header-value")
                if committed is None:
                    rejected_before_commit(500)
                else:
                    end_after_commit()
                ended = True
                break
            if k != "clear" and not header_name_ok(op[1]):
                exp.notes.add("bad-header-name")
                if k == "add" or op_index in eager_at:
                    # rejected at call time (HTTPHeaders.add validates names; set_header may)
                    if committed is None:
                        rejected_before_commit(500)
                    else:
                        end_after_commit()
                    ended = True
                    break
                if committed is None:
                    poison = True
                continue
            if k == "set":
                hd[name] = [op[2]]
            elif k == "add":
                hd.setdefault(name, []).append(op[2])
            else:
                if len(hd.get(name, ())) > 1:
                    unpinned.add(name)     # clear_header: "does not apply to multi-valued headers"
                    exp.notes.add("clear-multivalued-unpinned")
                hd.pop(name, None)
        elif k == "write":
            c = mk_chunk(op[1])
            buf += c
            exp.written += c
            nparts += 1
        elif k in ("flush", "finish"):
            fin = k == "finish"
            if fin and len(op) > 1 and op[1] is not None:
                c = mk_chunk(op[1])
                buf += c
                exp.written += c
                nparts += 1
            empty_parts = False
            if committed is None:
                if poison:
                    rejected_before_commit(500)
                    exp.abort_ok = True
                    ended = True
                    break
                if fin:
                    if st == 200 and method in ("GET", "HEAD") and "etag" not in hd:
                        exp.etag_body = buf
                        if case.get("inm") not in (None, "other"):
                            st, reason, buf, nparts = 304, None, b"", 0
                            exp.notes.add("etag-304")
                    if bodiless(st) and buf:
                        # finish() with a buffered body on 1xx/204/304: rejected (assertion) -> 500 page
                        exp.notes.add("buffered-body-on-bodiless-status")
                        exp.body_on_bodiless = True
                        if 100 <= st < 200:
                            exp.unspec = "1xx-final-status"
                        rejected_before_commit(500)
                        ended = True
                        break
                    empty_parts = bodiless(st) and nparts > 0
                else:
                    exp.flushed_before_finish = True
                commit()
            nparts = 0
            if empty_parts:
                # finish() on 1xx/204/304 after write(b""): the body is empty, but the statement does not say whether
                # rejecting it is legitimate -> both the bodiless response and the error page are accepted
                exp.notes.add("unspecified-empty-chunk-on-bodiless-status")
                exp.alts = [normal(b""), err(500)]
                finished = True
                ended = True
                break
            if buf and bodiless(committed["status"]) and method != "HEAD":
                # body bytes handed to a committed bodiless response: must never reach the wire
                exp.body_on_bodiless = True
                exp.notes.add("flushed-body-on-bodiless-status")
                exp.alts = [normal(b"")]
                if sent == b"" :
                    exp.alts.append(err(500))
                exp.abort_ok = True
                ended = True
                break
            lim = cl_limit()
            if lim is not None and len(sent) + len(buf) > lim:
                # more than the declared Content-Length: rejected, connection must not stay usable
                exp.notes.add("explicit-cl-overflow")
                exp.abort_ok = True
                exp.alts = [normal(sent)] if len(sent) == lim else []
                if sent == b"" and not exp.flushed_before_finish:
                    exp.alts.append(err(500))
                ended = True
                break
            sent += buf
            buf = b""
            if fin:
                finished = True
                if lim is not None and len(sent) != lim:
                    exp.notes.add("explicit-cl-underflow")
                    exp.abort_ok = True
                    exp.alts = []
                    ended = True
                    break
        elif k == "raise":
            exp.notes.add("raise")
            if committed is None:
                rejected_before_commit(op[1])
            else:
                end_after_commit()
            ended = True
            break
        else:
            raise AssertionError(op)

    if not ended and not finished:
        # auto-finish (same rules as finish(None))
        sub = dict(case)
        sub["prog"] = list(case["prog"]) + [("finish",)]
        return reference(sub, eager_at)
    if not exp.alts and not exp.abort_ok:
        exp.alts = [normal(sent)]
    exp.committed = committed
    return exp


# ---------------------------------------------------------------------------
# oracle

FRAMEWORK_HEADERS = {"server", "date", "content-length", "transfer-encoding", "connection", "vary"}


def why_key(why):
    why = why or ""
    for p in ("EOF inside", "EOF before", "bare LF", "bare CR", "malformed status line", "malformed header line",
              "NUL in header line", "non-numeric Content-Length", "conflicting Content-Length",
              "malformed chunk size", "chunk data not followed by CRLF", "both Transfer-Encoding and Content-Length",
              "transfer coding other than chunked", "Transfer-Encoding on a 1xx/204", "obs-fold", "chunk extension",
              "trailer fields", "chunked in an HTTP/1.0 response", "status line without SP", "empty gzip",
              "corrupt gzip", "truncated gzip"):
        if why.startswith(p):
            return p.lower().replace(" ", "-").replace("/", "-")
    return "other"


def match_alt(r, alt, case):
    """None if response r equals alternative alt, else (mechanism-suffix, detail)."""
    if r.status != alt["status"]:
        return ("status", {"got": r.status, "want": alt["status"]})
    if alt["kind"] == "error":
        return None
    if alt.get("reason") is not None and r.reason != alt["reason"].encode("latin-1"):
        return ("reason", {"got": r.reason, "want": alt["reason"]})
    if r.body != alt["body"]:
        return ("body", {"got_len": len(r.body), "want_len": len(alt["body"]), "got": r.body[:120],
                         "want": alt["body"][:120], "framing": r.framing})
    got = X.header_map(r)
    want = alt["headers"]
    for name in sorted(set(got) | set(want)):
        if name in FRAMEWORK_HEADERS or name in alt["unpinned"]:
            continue
        if name == "content-type":
            if bodiless(r.status):
                continue
            w = [v.encode("latin-1") for v in want.get(name, ["text/html; charset=UTF-8"])]
        elif name == "etag":
            if name not in want:
                continue
            w = [v.encode("latin-1") for v in want[name]]
        elif name in ("content-encoding", "content-language") and (name not in want or bodiless(r.status)):
            continue        # added by the gzip transform (C29 judges it) / representation metadata dropped on 304
        else:
            w = [v.encode("latin-1") for v in want.get(name, [])]
        if got.get(name, []) != w:
            kind = "missing" if name not in got else ("unexpected" if name not in want else "value")
            return ("header-" + kind, {"name": name, "got": got.get(name), "want": w})
    return None


def judge(case, exp, obs, ctx, prop_checks=True):
    """C02 verdict for one executed case. Returns the Exchange (for reuse by C29)."""
    wit = {"rx_head": obs.rx[:700], "rx_len": len(obs.rx), "eof": obs.eof, "expect": exp.as_dict(),
           "raised": obs.box["raised"], "logs": obs.logs[:4]}
    ex = X.read_exchange(obs.rx, obs.eof, [case["method"], "GET"])
    wit["exchange"] = ex.as_dict()
    if case.get("xform") and ex.responses:
        # output transform configured (compress_response): the client decodes the delimited body according to the
        # response's Content-Encoding; everything below judges the decoded body, the framing was decided on the wire bytes
        r = ex.responses[0]
        ce = [v.strip(b" \t").lower() for v in r.get_all("content-encoding")]
        r.wire_body_len = len(r.body)
        if ce == [b"gzip"] and r.body:
            ctx.count("xform_gzip_decoded")
            try:
                r.body = H.gunzip_strict(r.body)
            except H.Reject as e:
                ctx.count("oracle_evals")
                ctx.violation("xform/gzip-body-undecodable/" + why_key(str(e)),
                              "the body is labelled Content-Encoding: gzip but a full-stream decoder fails: %s" % e, wit)
                return ex
        elif ce == [b"gzip"]:
            ctx.count("xform_gzip_label_on_empty_body_" + ("head_or_bodiless" if case["method"] == "HEAD" or bodiless(r.status) else "other"))
        elif ce:
            ctx.count("unspecified_xform_content_encoding_other")
        else:
            ctx.count("xform_identity")

    for le in obs.loop_errors:
        # not pinned by the statement (which is about the bytes on the wire): counted, reported, never gated
        ctx.count("unspecified_loop_exception_logged")
        ctx.seen("loop_exception_kinds", (le.get("message") or "")[:60])
    if not obs.quiesced:
        ctx.count("not_quiesced")
        return ex
    if exp.unspec:
        ctx.count("unspecified_" + exp.unspec)
        return ex
    V = "HTTP/%s%s" % (case["version"], "+" + case["conn"] if case.get("conn") else "")
    r1 = ex.responses[0] if ex.responses else None

    if r1 is None:
        ctx.count("oracle_evals")
        if ex.state in ("empty", "truncated"):
            if obs.eof and exp.abort_ok:
                ctx.count("abort_observed")
                return ex
            if obs.eof:
                ctx.violation("response-%s-then-close" % ex.state,
                              "the connection was closed with no / an incomplete response although no operation was rejected", wit)
            else:
                ctx.violation("no-response/connection-open", "no response bytes and the connection stays open", wit)
            return ex
        if ex.state == "incomplete":
            undel = ex.why == "close-delimited body"
            ctx.violation(("undelimited-body/connection-kept-open/" + V) if undel else "incomplete-message/connection-open",
                          "the response body has neither Content-Length nor chunked coding and the connection was not closed "
                          "after it" if undel else "the connection stays open although the last message is incomplete", wit)
            return ex
        if ex.state == "malformed" and obs.rx.startswith(b"0\r\n\r\n"):
            ctx.violation("response-missing/chunk-terminator-without-head",
                          "the response head was never written but the chunked terminator was: the peer receives '0 CRLF CRLF' "
                          "where a status line must be", wit)
            return ex
        if ex.state == "malformed":
            ctx.violation("malformed-response/" + why_key(ex.why), "strict reader rejects the response bytes: %s" % ex.why, wit)
            return ex
        ctx.count("unspecified_reader_" + why_key(ex.why))
        return ex

    # --- first response is complete ---------------------------------------
    ctx.count("resp1_checked")
    ctx.count("oracle_evals")
    if r1.framing == "close":
        ctx.count("close_delimited_checked")
    if case["method"] == "HEAD" or bodiless(r1.status):
        ctx.count("bodiless_checked")
    if r1.status == 304 and "etag-304" in exp.notes:
        ctx.count("etag_304_checked")
    if getattr(r1, "cl_on_bodiless", False):
        ctx.count("unspecified_content_length_on_1xx_204")

    if case["version"] == "1.0" and r1.get_all("transfer-encoding"):
        ctx.violation("transfer-encoding-sent-to-http10-client", "Transfer-Encoding in a response to an HTTP/1.0 request "
                      "(RFC 9112 6.1 MUST NOT; a 1.0 client cannot delimit it)", wit)
        return ex

    problems = [match_alt(r1, a, case) for a in exp.alts]
    ok = any(p is None for p in problems)
    if not ok and exp.abort_ok and obs.eof and len(ex.responses) == 1 and exp.committed is not None \
            and r1.status == exp.committed["status"] and exp.written.startswith(r1.body):
        ok = True
        ctx.count("abort_with_prefix_body")
    if not ok:
        second_in_place = (r1.status == 200 and len(ex.responses) == 1 and obs.second_sent and (
            (r1.body == SECOND_BODY and ex.state == "clean") if case["method"] != "HEAD"
            else (ex.tail == SECOND_BODY and r1.get_all("content-length") == [b"%d" % len(SECOND_BODY)])))
        if second_in_place:
            ctx.violation("response-missing/second-response-in-its-place",
                          "nothing was written for the first request and the connection was kept: the client receives the "
                          "answer to its second request as the answer to the first", wit)
            return ex
        if not exp.alts:
            ctx.violation("complete-response-where-abort-expected",
                          "an operation was rejected after the head was committed, yet the peer sees a complete response "
                          "whose body is not a prefix of what was written", wit)
            return ex
        # report the closest alternative (the one failing latest)
        order = {"status": 0, "reason": 1, "body": 2, "header-missing": 3, "header-unexpected": 3, "header-value": 3}
        p = max((p for p in problems if p), key=lambda p: order.get(p[0], 0))
        kind = p[0]
        if kind == "body":
            kind = "body/%s%s" % (r1.framing, "/after-flush" if exp.flushed_before_finish else "")
        ctx.violation("response-differs/" + kind, "the delimited response differs from what the handler program set", {"diff": p[1], **wit})
        return ex

    if prop_checks:
        # Content-Length on HEAD equals the GET body length
        alt = next((a for a, p in zip(exp.alts, problems) if p is None), None)
        if alt and alt["kind"] == "normal" and case["method"] == "HEAD" and not bodiless(r1.status):
            cl = r1.get_all("content-length")
            if cl:
                if alt["explicit_cl"] is not None and int(alt["explicit_cl"]) != len(alt["get_body"]):
                    ctx.count("unspecified_head_explicit_wrong_cl")
                elif case.get("xform"):
                    # with an output transform the body GET carries is the *encoded* one: ask the GET twin
                    g = get_twin_response(case, exp)
                    if g is None or g.status != r1.status:
                        ctx.count("head_twin_unavailable")
                    else:
                        ctx.count("head_cl_checked")
                        ctx.count("head_twin_checked")
                        gce = [v.strip(b" \t").lower() for v in g.get_all("content-encoding")]
                        hce = [v.strip(b" \t").lower() for v in r1.get_all("content-encoding")]
                        if gce:
                            ctx.count("head_twin_get_was_encoded")
                        if gce != hce:
                            ctx.count("unspecified_head_content_encoding_differs_from_get")
                        ctx.check(cl == [b"%d" % len(g.body)], "head-content-length-differs-from-get-body/under-output-transform",
                                  "Content-Length of the HEAD response is not the length of the (encoded) body the same GET carries",
                                  {"head_cl": cl, "get_wire_body_len": len(g.body), "head_content_encoding": hce,
                                   "get_content_encoding": gce, "get_content_length": g.get_all("content-length"), **wit})
                else:
                    ctx.count("head_cl_checked")
                    ctx.check(cl == [b"%d" % len(alt["get_body"])], "head-content-length-differs-from-get-body",
                              "Content-Length of the HEAD response is not the length of the body GET carries",
                              {"cl": cl, "get_len": len(alt["get_body"]), **wit})

    # --- what follows the first response ------------------------------------
    ctx.count("oracle_evals")
    if r1.framing == "close":
        return ex          # reader already required EOF
    if len(ex.responses) == 1:
        if ex.state == "clean":
            if not obs.eof and obs.second_sent:
                ctx.violation("second-request-unanswered/connection-open",
                              "the connection stays open after the response but the pipelined second request is never answered", wit)
            return ex
        # bytes after the first response that are not a response
        if (case["method"] == "HEAD" or bodiless(r1.status)) and ex.tail[:1] != b"H":
            mech = "body-bytes-after-bodiless-head/%s" % ("HEAD" if case["method"] == "HEAD" else r1.status)
        else:
            mech = "bytes-after-response-not-a-response/%s/%s" % (ex.state, why_key(ex.why))
        ctx.violation(mech, "bytes following the complete first response do not form the response to the second request "
                      "(client is desynchronised)", wit)
        return ex
    r2 = ex.responses[1]
    ctx.count("second_checked")
    if ex.state != "clean":
        ctx.violation("extra-bytes-after-second-response", "bytes remain after both responses", wit)
        return ex
    if not (r2.status == 200 and r2.body == SECOND_BODY):
        ctx.violation("second-response-corrupted", "the answer to the second request is not the canonical one", wit)
    return ex


# ---------------------------------------------------------------------------
# generators

STATUSES = [200, 200, 200, 201, 204, 204, 206, 301, 304, 304, 404, 500, 599, 100, 103]
VFORMS = [("1.0", None), ("1.0", "keep-alive"), ("1.1", None), ("1.1", "close")]
HDR_OPS = [("set", "X-A", "v1"), ("set", "x-a", "v2"), ("add", "X-A", "v3"), ("add", "X-B", "a b"), ("set", "X-B", ""),
           ("clear", "X-A"), ("clear", "X-B"), ("set", "Content-Type", "text/plain"),
           ("set", "Content-Type", "application/octet-stream"), ("set", "Etag", '"app-tag"'),
           ("set", "Cache-Control", "no-store"), ("add", "X-B", "caf\xe9"), ("set", "X-A", "x,y")]
BAD_HDR_OPS = [("set", "X-A", "a\nb"), ("set", "X-A", "a\r\nX-I: 1"), ("add", "X-A", "a\x00b"),
               ("set", "X-Bad\nName", "v"), ("set", "X-Bad\r\nX-I: 1\r\n\r\n", "v"), ("add", "X Bad", "v"),
               ("set", "X-Ā", "v")]


def rand_chunk(rng):
    r = rng.random()
    if r < 0.12:
        return ("e",)
    if r < 0.35:
        return ("lit", "one")
    if r < 0.50:
        return ("lit", "crlf")
    if r < 0.62:
        return ("lit", "fake")
    if r < 0.80:
        return ("b", rng.choice([2, 17, 255, 1024]), rng.randrange(256))
    if r < 0.96:
        return ("b", rng.choice([1023, 1025, 4096, 4097]), rng.randrange(256))
    return ("b", 70 * 1024 + rng.randrange(3), rng.randrange(256))


def rand_program(rng, maxops=7, bad=True):
    n = rng.randint(1, maxops)
    prog = []
    for _ in range(n):
        r = rng.random()
        if r < 0.34:
            prog.append(("write", rand_chunk(rng)))
        elif r < 0.54:
            prog.append(("flush", rng.random() < 0.3))
        elif r < 0.66:
            code = rng.choice(STATUSES)
            if rng.random() < 0.2:
                prog.append(("status", code, rng.choice(["Custom Reason", "OK then", "x"])))
            else:
                prog.append(("status", code))
        elif r < 0.80:
            prog.append(rng.choice(HDR_OPS))
        elif r < 0.90:
            prog.append(("finish", rand_chunk(rng)) if rng.random() < 0.5 else ("finish",))
        elif r < 0.93:
            prog.append(("raise", rng.choice([400, 403, 404, 500, 503])))
        elif r < 0.98:
            prog.append(("cl", rng.choice([0, 0, 0, -1, 1, 100])))
        elif bad:
            prog.append(rng.choice(BAD_HDR_OPS))
    # resolve explicit Content-Length ops against the bytes the whole program writes
    total = sum(chunk_len(o[1]) for o in prog if o[0] in ("write", "finish") and len(o) > 1)
    out = []
    for o in prog:
        if o[0] == "cl":
            out.append(("set", "Content-Length", str(max(0, total + o[1]))))
        else:
            out.append(o)
        if rng.random() < 0.25:
            out.append(("settle",))
    return out


WPLAN_THROTTLE = [7, 0, 30, 0, 0, 100, 0, 50, 0, 200, 0, 0, 1000, 0, 3, 0, 4000, 0]


def rand_case(rng, maxops=7):
    v, c = rng.choice(VFORMS)
    return {"wplan": rng.choice([None, None, "throttle"]), "method": rng.choice(["GET", "GET", "HEAD", "POST"]), "version": v, "conn": c,
            "inm": rng.choice([None, None, None, None, "match", "weak", "star", "other", "list"]),
            "send": rng.choice(["pipelined", "pipelined", "sequential"]),
            "prog": rand_program(rng, maxops)}


# ---- output transforms (compress_response=True): the HEAD / Content-Length / framing clauses under a transform that
# rewrites the framing headers from the body

XFORM_SETTINGS = {"gzip": {"compress_response": True}}
XF_CTYPES = [None, None, "text/plain", "text/html; charset=UTF-8", "application/json", "application/json; charset=UTF-8",
             "image/svg+xml", "application/xml", "application/octet-stream", "image/png"]
XF_AE = ["gzip", "gzip", "gzip", "gzip", "deflate, gzip", "br;q=1.0, gzip;q=0.8", None, "identity", "deflate"]
XF_SIZES = [0, 1, 500, 1023, 1024, 1024, 1025, 2048, 5000]
XF_HDR_OPS = [("set", "X-A", "v1"), ("add", "X-B", "a b"), ("set", "Cache-Control", "no-store"), ("set", "Etag", '"app-tag"'),
              ("set", "Vary", "Cookie"), ("status", 201), ("status", 404), ("status", 206), ("status", 200, "Fine")]


def rand_xform_case(rng):
    """Clean programs (no rejected operation, no bodiless status) under compress_response=True: HEAD and its GET twin must
    agree on Content-Length whatever the transform does to the body."""
    v, c = rng.choice(VFORMS)
    prog = []
    ct = rng.choice(XF_CTYPES)
    if ct is not None:
        prog.append(("set", "Content-Type", ct))
    for _ in range(rng.choice([0, 0, 1, 2])):
        prog.append(rng.choice(XF_HDR_OPS))
    nw = rng.choice([1, 1, 1, 2, 3])
    body, total = [], 0
    for i in range(nw):
        n = rng.choice(XF_SIZES) if rng.random() < 0.96 else 70 * 1024 + rng.randrange(3)
        spec = ("e",) if n == 0 else (rng.choice(["t", "t", "t", "b", "r"]), n, rng.randrange(256))
        total += n
        body.append(("finish", spec) if (i == nw - 1 and rng.random() < 0.4) else ("write", spec))
        if rng.random() < 0.2:
            body.append(("flush", rng.random() < 0.3))
        if rng.random() < 0.15:
            body.append(("settle",))
    if rng.random() < 0.1:
        prog.append(("set", "Content-Length", str(total)))
    if rng.random() < 0.05:
        prog.append(("flush", False))
    ae = rng.choice(XF_AE)
    return {"xform": "gzip", "wplan": rng.choice([None, None, None, "throttle"]),
            "method": rng.choice(["HEAD", "HEAD", "GET", "POST"]), "version": v, "conn": c,
            "inm": rng.choice([None] * 8 + ["match", "weak", "other"]),
            "send": rng.choice(["pipelined", "pipelined", "sequential"]),
            "req_headers": [] if ae is None else ["Accept-Encoding: " + ae], "prog": prog + body}


def xform_exchange(case, exp):
    inm = inm_header(case.get("inm"), exp.etag_body if exp.etag_body is not None else b"")
    return run_exchange(case, build_request(case, inm), app_settings=XFORM_SETTINGS[case["xform"]])


def get_twin_response(case, exp):
    """First response (as on the wire, not decoded) to the same request with method GET under the same settings."""
    twin = dict(case, method="GET", send="pipelined", wplan=None)
    tobs = xform_exchange(twin, exp) if case.get("xform") else None
    if tobs is None:
        return None
    tex = X.read_exchange(tobs.rx, tobs.eof, ["GET", "GET"])
    return tex.responses[0] if tex.responses else None


EXH_OPS = [("write", ("lit", "one")), ("write", ("e",)), ("flush", False), ("finish",), ("finish", ("lit", "y")),
           ("status", 204), ("status", 304), ("set", "X-A", "v1"), ("set", "Content-Length", "1"), ("raise", 500)]


def exh_depth(tier):
    return 2 if tier == "quick" else 4


def EXHAUSTIVE(tier):
    return ("all handler programs of <= %d ops over the %d-op reduced alphabet (write 1B / write b'' / flush / finish / "
            "finish(chunk) / set_status 204 / set_status 304 / set_header / Content-Length: 1 / raise 500) x {GET,HEAD,POST} x "
            "{HTTP/1.0, HTTP/1.0 keep-alive, HTTP/1.1, HTTP/1.1 close}" % (exh_depth(tier), len(EXH_OPS)))


def shards(tier, seed):
    out = []
    if tier == "quick":
        for j in range(16):
            out.append({"kind": "rand", "n": 250, "j": j})
        for j in range(4):
            out.append({"kind": "xform", "n": 150, "j": j})
        for vi in range(len(VFORMS)):
            out.append({"kind": "exh", "vform": vi, "depth": 2, "first": None})
    else:
        for j in range(32):
            out.append({"kind": "rand", "n": 3200, "j": j})
        for j in range(8):
            out.append({"kind": "xform", "n": 2500, "j": j})
        for vi in range(len(VFORMS)):
            for first in range(len(EXH_OPS)):
                out.append({"kind": "exh", "vform": vi, "depth": 4, "first": first})
    return out


def gen_cases(spec):
    if spec["kind"] == "rand":
        rng = core.rng_for(spec["seed"], PROP, spec["j"])
        for _ in range(spec["n"]):
            yield rand_case(rng)
    elif spec["kind"] == "xform":
        rng = core.rng_for(spec["seed"], PROP, "xform%d" % spec["j"])
        for _ in range(spec["n"]):
            yield rand_xform_case(rng)
    else:
        v, c = VFORMS[spec["vform"]]
        firsts = [EXH_OPS[spec["first"]]] if spec["first"] is not None else None
        for L in range(1, spec["depth"] + 1):
            if firsts is None:
                progs = itertools.product(EXH_OPS, repeat=L)
            else:
                progs = ((firsts[0],) + rest for rest in itertools.product(EXH_OPS, repeat=L - 1))
            for prog in progs:
                for m in ("GET", "HEAD", "POST"):
                    yield {"method": m, "version": v, "conn": c, "inm": None, "send": "pipelined", "prog": list(prog)}


def directed_cases():
    W = ("write", ("lit", "one"))
    # close-delimited / Connection: close responses whose last write is still pending when finish() is called
    yield {"method": "GET", "version": "1.0", "conn": None, "inm": None, "send": "pipelined", "wplan": "throttle",
           "prog": [("write", ("b", 1024, 3)), ("flush", False), ("write", ("b", 4096, 5))]}
    yield {"method": "GET", "version": "1.1", "conn": "close", "inm": None, "send": "pipelined", "wplan": "throttle",
           "prog": [("write", ("b", 1024, 3)), ("flush", False), ("settle",), ("write", ("b", 70 * 1024, 5))]}
    # DESIGN §5: HTTP/1.0 keep-alive + flush before finish
    yield {"method": "GET", "version": "1.0", "conn": "keep-alive", "inm": None, "send": "pipelined",
           "prog": [W, ("flush", False), ("settle",), ("write", ("lit", "y"))]}
    # DESIGN §5: 204 + write + flush
    yield {"method": "GET", "version": "1.1", "conn": None, "inm": None, "send": "pipelined",
           "prog": [("status", 204), W, ("flush", False)]}
    yield {"method": "POST", "version": "1.1", "conn": None, "inm": None, "send": "sequential",
           "prog": [("status", 204), ("flush", False), W, ("finish",)]}
    # header that can only be rejected when the head is serialised
    yield {"method": "GET", "version": "1.1", "conn": None, "inm": None, "send": "pipelined",
           "prog": [("set", "X-Bad\nName", "v"), W]}
    # ETag match -> 304 substitution
    yield {"method": "GET", "version": "1.1", "conn": None, "inm": "match", "send": "pipelined",
           "prog": [("set", "X-A", "v1"), ("write", ("b", 1024, 3))]}
    yield {"method": "HEAD", "version": "1.1", "conn": None, "inm": "weak", "send": "pipelined", "prog": [W]}
    # explicit Content-Length too small / too large
    yield {"method": "GET", "version": "1.1", "conn": None, "inm": None, "send": "pipelined",
           "prog": [("set", "Content-Length", "1"), ("write", ("lit", "y"))]}
    yield {"method": "GET", "version": "1.1", "conn": None, "inm": None, "send": "pipelined",
           "prog": [("set", "Content-Length", "5"), W, ("flush", False), ("finish",)]}
    # HEAD under an output transform that rewrites Content-Length from the body (compress_response)
    gz = {"xform": "gzip", "version": "1.1", "conn": None, "inm": None, "send": "pipelined", "req_headers": ["Accept-Encoding: gzip"]}
    yield dict(gz, method="HEAD", prog=[("set", "Content-Type", "text/plain"), ("write", ("t", 5000, 2))])
    yield dict(gz, method="HEAD", prog=[("write", ("t", 1024, 2))])
    yield dict(gz, method="HEAD", version="1.0", conn="keep-alive", prog=[("finish", ("t", 2048, 3))])
    yield dict(gz, method="GET", prog=[("write", ("t", 1024, 2)), ("flush", False), ("write", ("t", 3000, 4))])
    yield dict(gz, method="HEAD", prog=[("set", "Content-Type", "image/png"), ("write", ("b", 5000, 2))])


def is_nontrivial(case, exp):
    wrote = any(o[0] in ("write", "finish") and len(o) > 1 and chunk_len(o[1]) > 0 for o in case["prog"])
    if not wrote:
        return False
    stat = any(o[0] == "status" and bodiless(o[1]) for o in case["prog"])
    return exp.flushed_before_finish or stat or case["method"] == "HEAD" or case["version"] == "1.0"


def eager_index(case, obs):
    """Index of a set_header op with an invalid name at which the real handler raised (call-time rejection)."""
    r = obs.box["raised"]
    if r and 0 <= r[0] < len(case["prog"]):
        op = case["prog"][r[0]]
        if op[0] == "set" and not header_name_ok(op[1]):
            return (r[0],)
    return ()


def run_case(case, ctx):
    exp = reference(case)
    if case.get("xform"):
        ctx.count("xform_cases")
        if exp.unspec or exp.abort_ok or not exp.alts or exp.alts[0]["kind"] != "normal" or any(
                o[0] in ("set", "add") and o[1].lower() == "content-encoding" for o in case["prog"]):
            # rejected operations / explicit Content-Length conflicts interact with a transform that rewrites the
            # framing headers in ways the statement does not pin; those programs are judged without transform only
            ctx.count("unspecified_xform_program_outside_scope")
            ctx.mark(case, False)
            return
        obs = xform_exchange(case, exp)
        judge(case, exp, obs, ctx)
        nt = any(o[0] in ("write", "finish") and len(o) > 1 and chunk_len(o[1]) > 0 for o in case["prog"])
        ctx.mark(case, nt)
        if nt:
            ctx.sample(case)
        return
    inm = inm_header(case.get("inm"), exp.etag_body if exp.etag_body is not None else b"")
    obs = run_exchange(case, build_request(case, inm))
    ea = eager_index(case, obs)
    if ea:
        ctx.count("bad_name_rejected_at_call")
        exp = reference(case, ea)
    judge(case, exp, obs, ctx)
    for n in exp.notes:
        ctx.count("ref_" + n)
    ctx.seen("raised_kinds", obs.box["raised"][1] if obs.box["raised"] else None)
    nt = is_nontrivial(case, exp) and not exp.unspec
    ctx.mark(case, nt)
    if nt:
        ctx.sample(case)
    ctx._c02_n = getattr(ctx, "_c02_n", 0) + 1
    if ctx._c02_n % 200 == 0:
        import gc
        gc.collect()
