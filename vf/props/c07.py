"""C07 — application data cannot inject header lines or split a response.

Every header-producing API is driven with every byte value (and some non-Latin-1
code points) at the start / middle / end of otherwise benign strings, inside a
real RequestHandler (or a raw HTTPMessageDelegate calling
HTTPConnection.write_headers) behind the real HTTPServer.  What the peer receives
is split independently on CRLF and delimited by the strict response reader; a
second request on the same connection exposes any split / lost response.

Verdict per case: either the API call (or the flush that serialises the head)
raised and the peer got a well-formed error response / a closed connection, or
the head contains exactly the framework lines plus the intended line(s); CR, LF
or NUL never occur inside a head line.
"""
from __future__ import annotations

import datetime
import warnings

from vf import core, logmon, vloop, wire

core.use_repo()
from tornado import httputil, web  # noqa: E402

from vf.props import c02 as P  # noqa: E402
from vf.refs import http as H  # noqa: E402
from vf.refs import http_extra as X  # noqa: E402

PROP = "C07"
META = {
    "level": "exploration",
    "technique": "exhaustive single-character injection (all 256 byte values + non-Latin-1 code points x 3 positions) through "
                 "every header-producing API on the real server; head split independently on CRLF + strict response reader + "
                 "second request on the same connection",
    "level_text": "All byte values 0..255 and 30 non-Latin-1 code points (incl. every code point whose Unicode case mapping is "
                  "pure ASCII: long s, dotless i, Kelvin sign, sharp s, ff..st ligatures, and NFKC look-alikes) at start/middle/end "
                  "(names: also at the start of a dash-separated word) of benign strings, plus look-alike spellings of real header "
                  "names (Set-Cookie, Content-Length, Transfer-Encoding ...) through 33 API "
                  "paths (set_header/add_header name and value as str/bytes, int, datetime, set_status reason, HTTPError reason, send_error(reason=) called by the application directly / with exc_info / after buffered output, "
                  "redirect, set_cookie name/value/domain/path/samesite/extra attribute, clear_cookie, set_signed_cookie, "
                  "set_default_headers, raw write_headers with HTTPHeaders built by add vs []=, raw reason); thorough adds "
                  "pairs of special characters and random strings. Either rejected (exception + well-formed error response or "
                  "closed connection) or the head is exactly framework lines + intended lines, with no CR/LF/NUL inside any line.",
    "level_note": "Trusts the strict reader and the per-path table of intended lines. The exact serialisation of accepted "
                  "cookies is C25's subject: here only the number of Set-Cookie lines, the cookie name and the set of attribute "
                  "names are pinned. A reason phrase replaced by a safe substitute, NUL/CTL in a *raw* ResponseStartLine reason "
                  "and the encoding of non-ASCII reasons are UNSPECIFIED.",
    "design_ref": "DESIGN.md §4 C07",
    "engine": "wire",
}
RULE = ("a case is (API path, payload) with payload = benign base string with one character (every byte value, 30 non-Latin-1 "
        "code points incl. all whose case mapping is ASCII; thorough: pairs of specials and random strings) inserted at "
        "start/middle/end (names: also after a dash), or a look-alike spelling of a real header name; non-trivial when the payload "
        "contains a byte < 0x20, 0x7f, ':' , ';' or a non-ASCII character; distinct by (path, payload)")
FLOORS = {"quick": 8000, "thorough": 100000}
ASSUMPTIONS = ["strict response reader is correct", "table of intended lines per API path is correct",
               "AF_UNIX socketpair + virtual loop: quiescence means nothing is in flight"]
REQUIRED_COUNTERS = ["oracle_evals", "accepted_exact", "rejected_with_error_response", "head_lines_scanned", "second_checked"]

BODY = b"BODY-OK"
FRAMEWORK = {"server", "content-type", "date", "etag", "content-length", "connection", "vary"}
UNI = ["Ā", " ", "－", "\U0001f600", "čĊ", "嘊"]   # incl. chars whose low byte is CR/LF
# Non-ASCII code points that a Unicode *case mapping* (lower/upper/title/casefold/capitalize) turns into pure ASCII
# (the complete set: scanned over all of Unicode), and a sample of code points that a *compatibility normalisation*
# (NFKC/NFKD) turns into ASCII.  A name/value containing one of them is not the ASCII string it maps to: if it is
# accepted, the line on the wire must still be the intended one, never the ASCII look-alike.
CASEMAP_ASCII = ["\u00df", "\u0131", "\u017f", "\u1e9e", "\u212a", "\ufb00", "\ufb01", "\ufb02", "\ufb03", "\ufb04",
                 "\ufb05", "\ufb06"]
NFK_ASCII = ["\uff33", "\uff53", "\uff0d", "\uff1a", "\u00aa", "\u00b2", "\u2170", "\u2102", "\u24c8", "\U0001d412",
             "\u2024", "\ufe55", "\u037e"]
UNI = UNI + [c for c in CASEMAP_ASCII + NFK_ASCII if c not in UNI and ord(c) > 255]


def enc_str(p):
    return p.encode("latin-1", "replace")


def strip_ows(b):
    return b.strip(b" \t")


# --- API path table -----------------------------------------------------------
# ptype: 'str' | 'bytes' | 'fixed'; role: what the payload is; call(handler, payload)
# intend(payload) -> list of (lower-name bytes, value bytes) the head must contain when accepted
# cookie: (cookie-name or None=payload, allowed attribute names) for Set-Cookie structure checks


def _val(name):
    return lambda p: [(name, strip_ows(p if isinstance(p, bytes) else enc_str(p)))]


def _name(p):
    return [((p if isinstance(p, bytes) else enc_str(p)).lower(), b"v")]


def _http_error(h, p):
    raise web.HTTPError(500, reason=p)


def _http_error_assigned(h, p):
    # HTTPError.reason is a documented public attribute: set after construction, the constructor never saw it
    e = web.HTTPError(500)
    e.reason = p
    raise e


class _QuotaError(web.HTTPError):
    def __init__(self, detail):
        super().__init__(429)
        self.reason = detail


def _http_error_subclass(h, p):
    raise _QuotaError(p)


def _send_error_exc_info_assigned(h, p):
    e = web.HTTPError(503)
    e.reason = p
    h.send_error(503, exc_info=(type(e), e, None))


def _send_error_exc_info(h, p):
    # what RequestHandler._handle_request_exception does, done by the application itself
    e = web.HTTPError(503, reason=p)
    h.send_error(503, exc_info=(type(e), e, None))


def _send_error_after_write(h, p):
    h.set_header("X-Discarded", "1")
    h.write("partial output that send_error discards")
    h.send_error(499, reason=p)


PATHS = {
    "set_header.value.str": dict(pt="str", role="value", call=lambda h, p: h.set_header("X-T", p), intend=_val(b"x-t")),
    "set_header.value.bytes": dict(pt="bytes", role="value", call=lambda h, p: h.set_header("X-T", p), intend=_val(b"x-t")),
    "add_header.value.str": dict(pt="str", role="value", call=lambda h, p: h.add_header("X-T", p), intend=_val(b"x-t")),
    "add_header.value.bytes": dict(pt="bytes", role="value", call=lambda h, p: h.add_header("X-T", p), intend=_val(b"x-t")),
    "set_header.name.str": dict(pt="str", role="name", call=lambda h, p: h.set_header(p, "v"), intend=_name),
    "add_header.name.str": dict(pt="str", role="name", call=lambda h, p: h.add_header(p, "v"), intend=_name),
    "set_header.name.bytes": dict(pt="bytes", role="name", call=lambda h, p: h.set_header(p, "v"), intend=_name),
    "set_status.reason": dict(pt="str", role="reason", call=lambda h, p: h.set_status(200, p), intend=lambda p: []),
    "HTTPError.reason": dict(pt="str", role="reason", call=_http_error, intend=lambda p: [], ok_status=500, error_path=True),
    "HTTPError.reason.assigned": dict(pt="str", role="reason", call=_http_error_assigned, intend=lambda p: [], ok_status=500,
                                      error_path=True),
    "HTTPError.subclass.reason": dict(pt="str", role="reason", call=_http_error_subclass, intend=lambda p: [], ok_status=429,
                                      error_path=True),
    "send_error.exc_info.reason.assigned": dict(pt="str", role="reason", call=_send_error_exc_info_assigned, intend=lambda p: [],
                                                ok_status=503, error_path=True),
    # the application calls send_error itself (not via a raised HTTPError): no exception, the error response is the answer
    "send_error.reason": dict(pt="str", role="reason", call=lambda h, p: h.send_error(429, reason=p), intend=lambda p: [],
                              ok_status=429, error_path=True),
    "send_error.exc_info.reason": dict(pt="str", role="reason", call=_send_error_exc_info, intend=lambda p: [],
                                       ok_status=503, error_path=True),
    "send_error.after_write.reason": dict(pt="str", role="reason", call=_send_error_after_write, intend=lambda p: [],
                                          ok_status=499, error_path=True),
    "redirect.url": dict(pt="str", role="value", call=lambda h, p: h.redirect(p), ok_status=302, body=b"",
                         intend=lambda p: [(b"location", strip_ows(p.encode("utf-8")))]),
    "set_cookie.name": dict(pt="str", role="cookie", call=lambda h, p: h.set_cookie(p, "cv"), cookie=(None, {"path"})),
    "set_cookie.value.str": dict(pt="str", role="cookie", call=lambda h, p: h.set_cookie("ck", p), cookie=("ck", {"path"})),
    "set_cookie.value.bytes": dict(pt="bytes", role="cookie", call=lambda h, p: h.set_cookie("ck", p), cookie=("ck", {"path"})),
    "set_cookie.domain": dict(pt="str", role="cookie", call=lambda h, p: h.set_cookie("ck", "cv", domain=p),
                              cookie=("ck", {"path", "domain"})),
    "set_cookie.path": dict(pt="str", role="cookie", call=lambda h, p: h.set_cookie("ck", "cv", path=p), cookie=("ck", {"path"})),
    "set_cookie.samesite": dict(pt="str", role="cookie", call=lambda h, p: h.set_cookie("ck", "cv", samesite=p),
                                cookie=("ck", {"path", "samesite"})),
    "set_cookie.kwarg_comment": dict(pt="str", role="cookie", call=lambda h, p: h.set_cookie("ck", "cv", comment=p),
                                     cookie=("ck", {"path", "comment"})),
    "clear_cookie.name": dict(pt="str", role="cookie", call=lambda h, p: h.clear_cookie(p), cookie=(None, {"path", "expires"})),
    "clear_cookie.path": dict(pt="str", role="cookie", call=lambda h, p: h.clear_cookie("ck", path=p),
                              cookie=("ck", {"path", "expires"})),
    "clear_cookie.domain": dict(pt="str", role="cookie", call=lambda h, p: h.clear_cookie("ck", domain=p),
                                cookie=("ck", {"path", "expires", "domain"})),
    "set_signed_cookie.name": dict(pt="str", role="cookie", call=lambda h, p: h.set_signed_cookie(p, "cv"),
                                   cookie=(None, {"path", "expires"})),
    "set_signed_cookie.value.str": dict(pt="str", role="cookie", call=lambda h, p: h.set_signed_cookie("ck", p),
                                        cookie=("ck", {"path", "expires"})),
    "set_signed_cookie.value.bytes": dict(pt="bytes", role="cookie", call=lambda h, p: h.set_signed_cookie("ck", p),
                                          cookie=("ck", {"path", "expires"})),
    "set_default_headers.value": dict(pt="str", role="value", default_headers=lambda h, p: h.set_header("X-D", p), intend=_val(b"x-d")),
    "set_default_headers.name": dict(pt="str", role="name", default_headers=lambda h, p: h.set_header(p, "v"), intend=_name),
    "raw.add.value": dict(pt="str", role="value", raw=("add", "value"), intend=_val(b"x-t")),
    "raw.add.name": dict(pt="str", role="name", raw=("add", "name"), intend=_name),
    "raw.setitem.value": dict(pt="str", role="value", raw=("set", "value"), intend=_val(b"x-t")),
    "raw.setitem.name": dict(pt="str", role="name", raw=("set", "name"), intend=_name),
    "raw.reason": dict(pt="str", role="reason", raw=("add", "reason"), intend=lambda p: [(b"x-t", b"v")]),
}
FIXED = [
    ("set_header.value.int", 42, b"42"), ("set_header.value.int", -7, b"-7"), ("set_header.value.int", 2 ** 70, b"%d" % 2 ** 70),
    ("set_header.value.int", True, b"True"), ("add_header.value.int", 0, b"0"),
    ("set_header.value.datetime", datetime.datetime(2024, 2, 29, 23, 59, 59), b"Thu, 29 Feb 2024 23:59:59 GMT"),
    ("add_header.value.datetime", datetime.datetime(1999, 12, 31, 0, 0, 0), b"Fri, 31 Dec 1999 00:00:00 GMT"),
]
for _pid, _v, _w in FIXED:
    _api = "set_header" if _pid.startswith("set") else "add_header"
    PATHS.setdefault(_pid, dict(pt="fixed", role="value",
                                call=(lambda h, p, _api=_api: getattr(h, _api)("X-T", p)), intend=None))

PATH_IDS = sorted(k for k, v in PATHS.items() if v["pt"] != "fixed")


def payloads_for(pt, role):
    """(label, payload) for single-character insertion at 3 positions."""
    if role == "name":
        # start of the name, inside a word, end, and start of a dash-separated word (Http-Header-Case title-cases there)
        bases = [("", "X-Nm"), ("X-N", "m"), ("X-Nm", ""), ("X-", "nm")]
    elif role == "cookie":
        bases = [("", "ab"), ("a", "b"), ("ab", "")]
    else:
        bases = [("", "v: w"), ("v", "X-Inj: 1"), ("v w", "")]
    chars = [chr(i) for i in range(256)]
    if pt == "str":
        chars = chars + UNI
    for pos, (pre, post) in enumerate(bases):
        for c in chars:
            s = pre + c + post
            if pt == "bytes":
                if len(c) > 1 or ord(c) > 255:
                    continue
                yield s.encode("latin-1")
            else:
                yield s
        if pt == "bytes":
            for c in CASEMAP_ASCII:         # multi-byte UTF-8 forms of the look-alikes
                yield (pre + c + post).encode("utf-8")


SPECIALS = ["\r", "\n", "\x00", "\r\n", "\t", " ", ":", ";", ",", "=", '"', "\\", "\x0b", "\x0c", "\x1f", "\x7f", "\x80", "\x85",
            "\xa0", "\xff", "Ā", " ", " ", "Ċ", "č"]
SPECIALS = SPECIALS + ["\u017f", "\u212a", "\ufb01", "\u0131", "\uff33"]     # case-map / NFKC to ASCII letters


def rand_payload(rng, pt, role):
    base = {"name": "X-Nm", "cookie": "ab"}.get(role, "v w")
    n = rng.randint(1, 4)
    s = base
    for _ in range(n):
        ins = rng.choice(SPECIALS) if rng.random() < 0.8 else chr(rng.randrange(256))
        if rng.random() < 0.3:
            ins += rng.choice(["X-Inj: 1", "Set-Cookie: a=b", "HTTP/1.1 200 OK", "Content-Length: 0"])
        k = rng.randint(0, len(s))
        s = s[:k] + ins + s[k:]
    if pt == "bytes":
        return s.encode("utf-8") if rng.random() < 0.5 else s.encode("latin-1", "replace")
    return s


LOOKALIKE_TARGETS = ["Set-Cookie", "Content-Length", "Transfer-Encoding", "Location", "Connection", "Content-Type",
                     "X-Secret", "X-Token", "File-Name", "Id", "Status", "Www-Authenticate", "Office", "X-Fflags", "Kiss"]
NAME_PATHS = ["set_header.name.str", "add_header.name.str", "set_header.name.bytes", "set_default_headers.name",
              "raw.add.name", "raw.setitem.name"]


def _ascii_images(c):
    """Lower-cased pure-ASCII images of code point c under the Unicode case mappings and NFKC/NFKD."""
    import unicodedata
    out = set()
    for f in ("lower", "upper", "title", "casefold", "capitalize", "swapcase"):
        out.add(getattr(c, f)())
    for f in ("NFKC", "NFKD"):
        out.add(unicodedata.normalize(f, c))
    return sorted({x.lower() for x in out if x and x.isascii()})


def lookalike_names():
    """Every spelling of a target header name in which one (or every) occurrence of an ASCII substring is replaced by a
    non-ASCII code point that case-maps / normalises to it, in the target's own, lower and upper case."""
    subs = []
    for c in CASEMAP_ASCII + NFK_ASCII:
        for img in _ascii_images(c):
            subs.append((img, c))
    seen = set()
    for t in LOOKALIKE_TARGETS:
        for form in (t, t.lower(), t.upper()):
            low = form.lower()
            for img, c in subs:
                start = 0
                hits = []
                while True:
                    k = low.find(img, start)
                    if k < 0:
                        break
                    hits.append(k)
                    start = k + 1
                for k in hits:
                    v = form[:k] + c + form[k + len(img):]
                    if v not in seen:
                        seen.add(v)
                        yield v
                if len(hits) > 1 and len(img) == 1:
                    v = "".join(c if ch.lower() == img else ch for ch in form)
                    if v not in seen:
                        seen.add(v)
                        yield v


def EXHAUSTIVE(tier):
    return ("every byte value 0..255 (str and bytes) and %d non-Latin-1 code points (all code points whose case mapping is "
            "pure ASCII among them), each at start/middle/end of the benign base string (names: also after a dash), through "
            "each of %d API paths" % (len(UNI), len(PATH_IDS)))


def shards(tier, seed):
    out = [{"kind": "exh", "path": pid} for pid in PATH_IDS]
    out.append({"kind": "lookalike"})
    if tier == "thorough":
        for pid in PATH_IDS:
            out.append({"kind": "pairs", "path": pid})
            out.append({"kind": "rand", "path": pid, "n": 3600})
    else:
        out.append({"kind": "rand_all", "n": 600})
    return out


def gen_cases(spec):
    if spec["kind"] == "exh":
        p = PATHS[spec["path"]]
        for pl in payloads_for(p["pt"], p["role"]):
            yield {"path": spec["path"], "payload": pl}
        if spec["path"] == PATH_IDS[0]:
            for pid, v, want in FIXED:
                yield {"path": pid, "payload": v, "want": want}
    elif spec["kind"] == "lookalike":
        for name in lookalike_names():
            for pid in NAME_PATHS:
                if PATHS[pid]["pt"] == "bytes":
                    yield {"path": pid, "payload": name.encode("utf-8")}
                    if all(ord(ch) < 256 for ch in name):
                        yield {"path": pid, "payload": name.encode("latin-1")}
                else:
                    yield {"path": pid, "payload": name}
    elif spec["kind"] == "pairs":
        p = PATHS[spec["path"]]
        pre, post = {"name": ("X-N", "m"), "cookie": ("a", "b")}.get(p["role"], ("v", "X-Inj: 1"))
        for a in SPECIALS:
            for b in SPECIALS:
                s = pre + a + b + post
                if p["pt"] == "bytes":
                    try:
                        yield {"path": spec["path"], "payload": s.encode("latin-1")}
                    except UnicodeEncodeError:
                        yield {"path": spec["path"], "payload": s.encode("utf-8")}
                else:
                    yield {"path": spec["path"], "payload": s}
    else:
        rng = core.rng_for(spec["seed"], PROP, spec.get("path", "all"))
        for _ in range(spec["n"]):
            pid = spec.get("path") or rng.choice(PATH_IDS)
            p = PATHS[pid]
            yield {"path": pid, "payload": rand_payload(rng, p["pt"], p["role"])}


def directed_cases():
    yield {"path": "set_header.name.str", "payload": "X-A\x00B"}          # DESIGN §5
    yield {"path": "set_header.name.str", "payload": "X-A: b"}
    yield {"path": "set_header.name.str", "payload": "X-A\nB"}
    yield {"path": "set_cookie.value.str", "payload": "bĀ"}
    yield {"path": "set_cookie.kwarg_comment", "payload": "1\r\nX-Inj: 1"}
    yield {"path": "raw.setitem.value", "payload": "a\x00b"}
    yield {"path": "set_header.value.str", "payload": "v\r\nX-Inj: 1"}
    yield {"path": "redirect.url", "payload": "/a\r\nX-Inj: 1"}
    # non-ASCII letters whose case mapping is ASCII: never the ASCII look-alike name on the wire
    yield {"path": "set_header.name.str", "payload": "\u017fet-Cookie"}
    yield {"path": "add_header.name.str", "payload": "x-\u017fecret"}
    yield {"path": "set_header.name.str", "payload": "\ufb01le-Name"}
    yield {"path": "add_header.name.str", "payload": "\u0131d"}
    yield {"path": "set_header.name.str", "payload": "x-to\u212aen"}
    yield {"path": "raw.setitem.name", "payload": "\u00dfet-Cookie"}
    yield {"path": "raw.add.name", "payload": "Tran\u017ffer-Encoding"}


# ---------------------------------------------------------------------------
# real side


class ApiHandler(web.RequestHandler):
    def get(self):
        box = self.application.settings["vf_box"]
        box["started"] += 1
        try:
            spec = PATHS[box["path"]]
            if "call" in spec:
                try:
                    with warnings.catch_warnings():
                        warnings.simplefilter("ignore")
                        spec["call"](self, box["payload"])
                except BaseException as e:
                    box["call_raised"] = type(e).__name__
                    raise
            if not self._finished:
                self.write(BODY)
                try:
                    self.finish()
                except BaseException as e:
                    box["finish_raised"] = type(e).__name__
                    raise
        finally:
            box["done"] += 1


class DefaultsHandler(ApiHandler):
    def set_default_headers(self):
        box = self.application.settings["vf_box"]
        try:
            PATHS[box["path"]]["default_headers"](self, box["payload"])
        except BaseException as e:
            box["call_raised"] = type(e).__name__
            raise


class RawDelegate(httputil.HTTPServerConnectionDelegate):
    def __init__(self, box):
        self.box = box

    def start_request(self, server_conn, request_conn):
        return RawMsg(self.box, request_conn)


class RawMsg(httputil.HTTPMessageDelegate):
    def __init__(self, box, conn):
        self.box, self.conn, self.path = box, conn, None

    def headers_received(self, start_line, headers):
        self.path = start_line.path

    def data_received(self, chunk):
        pass

    def finish(self):
        conn, box = self.conn, self.box
        if self.path == "/second":
            h = httputil.HTTPHeaders()
            h.add("Content-Length", str(len(P.SECOND_BODY)))
            conn.write_headers(httputil.ResponseStartLine("HTTP/1.1", 200, "OK"), h, P.SECOND_BODY)
            conn.finish()
            return
        box["started"] += 1
        try:
            how, what = PATHS[box["path"]]["raw"]
            p = box["payload"]
            try:
                h = httputil.HTTPHeaders()
                h.add("Content-Length", str(len(BODY)))
                name, value, reason = "X-T", "v", "OK"
                if what == "name":
                    name = p
                elif what == "value":
                    value = p
                else:
                    reason = p
                if how == "add":
                    h.add(name, value)
                else:
                    h[name] = value
                conn.write_headers(httputil.ResponseStartLine("HTTP/1.1", 200, reason), h, BODY)
                conn.finish()
            except Exception as e:
                box["call_raised"] = type(e).__name__
                # what a careful delegate does after a rejection: answer 500 with safe headers
                h2 = httputil.HTTPHeaders()
                h2.add("Content-Length", "0")
                conn.write_headers(httputil.ResponseStartLine("HTTP/1.1", 500, "Internal Server Error"), h2)
                conn.finish()
        finally:
            box["done"] += 1


REQ = b"GET /p HTTP/1.1\r\nHost: t\r\n\r\n"


def execute(case):
    obs = P.Obs()
    box = {"path": case["path"], "payload": case["payload"], "started": 0, "done": 0, "call_raised": None, "finish_raised": None}
    obs.box = box
    spec = PATHS[case["path"]]

    async def main():
        lm.attach_loop(__import__("asyncio").get_running_loop())
        if "raw" in spec:
            rig = wire.ServerRig(RawDelegate(box), record=False)
        else:
            hcls = DefaultsHandler if "default_headers" in spec else ApiHandler
            app = web.Application([("/p", hcls), ("/second", P.SecondHandler)], log_function=P._quiet,
                                  vf_box=box, cookie_secret="0123456789abcdef")
            rig = wire.ServerRig(app, record=False)
        peer = rig.connect()
        st = rig.streams[0]
        try:
            await peer.send(REQ + P.SECOND_REQ)
            obs.second_sent = peer.send_error is None
            obs.quiesced = await P.quiesce(peer, st, box, cap=200)
            obs.rx, obs.eof = bytes(peer.rx), peer.eof
        finally:
            peer.close()
            await rig.close()

    with logmon.LogMon() as lm:
        vloop.run(main, collect=False)
        obs.loop_errors = list(lm.loop_exceptions)
        obs.logs = [(r["logger"], r["level"], r["msg"][:120], r["exc_text"]) for r in lm.records
                    if r["level"] in ("ERROR", "CRITICAL")]
    return obs


# ---------------------------------------------------------------------------
# oracle


def family(pid):
    """API family used inside mechanism keys (stable, not case data)."""
    return pid.replace(".str", "").replace(".bytes", "")


def nontrivial_payload(p):
    if isinstance(p, (bytes, bytearray)):
        return any(b < 0x20 or b >= 0x7f or b in b":;" for b in p)
    if isinstance(p, str):
        return any(ord(c) < 0x20 or ord(c) >= 0x7f or c in ":;" for c in p)
    return False


def check_cookie(r1, spec, payload, ctx, fam, wit):
    lines = r1.get_all("set-cookie")
    if len(lines) != 1:
        ctx.violation("set-cookie-line-count/" + fam, "accepted cookie call but the head has %d Set-Cookie lines" % len(lines), wit)
        return False
    want_name, allowed = spec["cookie"]
    parts = [x.strip(b" \t") for x in lines[0].split(b";")]
    nv = parts[0]
    name = nv.split(b"=", 1)[0]
    if want_name is None:
        want = payload.encode("latin-1", "replace") if isinstance(payload, str) else payload
    else:
        want = want_name.encode()
    if b"=" not in nv or name != want:
        ctx.violation("cookie-name-differs/" + fam, "the Set-Cookie line does not start with the intended cookie name", wit)
        return False
    attrs = [x.split(b"=", 1)[0].strip(b" \t").lower().decode("latin-1") for x in parts[1:]]
    extra = [a for a in attrs if a not in allowed]
    if extra:
        ctx.violation("cookie-attribute-injected/" + fam,
                      "the Set-Cookie line carries attribute(s) the application did not set (';' from the payload split it)",
                      {"extra_attributes": extra, **wit})
        return False
    return True


def lenient_lines(lines):
    """Colon-split view of CRLF-delimited head lines: (kind, lower-name, OWS-stripped value, raw line)."""
    out = []
    for ln in lines:
        if ln[:1] in (b" ", b"\t"):
            out.append(("fold", None, None, ln))
        elif b":" not in ln:
            out.append(("nocolon", None, None, ln))
        else:
            n, v = ln.split(b":", 1)
            out.append(("field", n.lower(), v.strip(b" \t"), ln))
    return out


def sanitized_for_framing(rx, rh):
    """Copy of rx whose first head has every line the strict grammar refuses replaced by a harmless placeholder, so the
    strict reader can still *delimit* the messages (the lines themselves are judged separately on the original bytes)."""
    status_line, lines, off = rh
    out, n = [], 0
    for ln in lines:
        if H.FIELD_RE.match(ln):
            out.append(ln)
        else:
            out.append(b"X-Vf-Opaque-%d: x" % n)
            n += 1
    return b"\r\n".join([status_line] + out) + b"\r\n\r\n" + rx[off:], n


def run_case(case, ctx):
    spec = PATHS[case["path"]]
    payload = case["payload"]
    fam = family(case["path"])
    obs = execute(case)
    box = obs.box
    rejected = bool(box["call_raised"] or box["finish_raised"])
    nt = nontrivial_payload(payload) or spec["pt"] == "fixed"
    ctx.mark((case["path"], payload), nt)
    if nt and ctx.evaluations % 97 == 0:
        ctx.sample({"path": case["path"], "payload": payload})
    wit = {"path": case["path"], "payload": payload, "rx": obs.rx[:700], "rx_len": len(obs.rx), "eof": obs.eof,
           "call_raised": box["call_raised"], "finish_raised": box["finish_raised"], "logs": obs.logs[:3]}
    if obs.loop_errors:
        ctx.count("unspecified_loop_exception_logged")
    if not obs.quiesced:
        ctx.count("not_quiesced")
        return
    ctx.count("rejected" if rejected else "accepted")
    if box["call_raised"]:
        ctx.count("rejected_at_call")
    elif box["finish_raised"]:
        ctx.count("rejected_at_flush")
    ctx.seen("raise_kinds", (fam, box["call_raised"], box["finish_raised"]))

    # --- 1. byte scan of the first head, split independently on CRLF -------------
    ctx.count("oracle_evals")
    rh = X.raw_head(obs.rx)
    raw_reason = case["path"] == "raw.reason"
    CTL = {b"\r": "CR", b"\n": "LF", b"\x00": "NUL"}
    if rh is not None:
        status_line, lines, _ = rh
        ctx.count("head_lines_scanned", len(lines) + 1)
        bad = X.ctl_bytes_in_lines(lines)
        if bad:
            which = CTL[bad[0][2]]
            ctx.violation("ctl-byte-in-header-block/%s/%s" % (fam, which),
                          "a %s byte supplied by the application is on the wire inside a header line" % which,
                          {"lines": bad[:3], **wit})
            return
        badsl = X.ctl_bytes_in_lines([status_line])
        if badsl:
            which = CTL[badsl[0][2]]
            if raw_reason and which == "NUL":
                ctx.count("unspecified_nul_in_raw_reason")   # status line is not the header block; raw API
                return
            ctx.violation("ctl-byte-in-status-line/%s/%s" % (fam, which),
                          "a %s byte from the application is inside the status line" % which, wit)
            return

    # --- 2. delimit what the peer received -----------------------------------------
    ex = X.read_exchange(obs.rx, obs.eof, ["GET", "GET"])
    opaque = 0
    if ex.state == "malformed" and not ex.responses and P.why_key(ex.why) == "malformed-header-line" and rh is not None:
        # a line outside the strict field grammar but without CR/LF/NUL: framing is still decided strictly,
        # the line itself is compared with the intended one below
        rx2, opaque = sanitized_for_framing(obs.rx, rh)
        ex = X.read_exchange(rx2, obs.eof, ["GET", "GET"])
    wit["exchange"] = ex.as_dict()
    r1 = ex.responses[0] if ex.responses else None
    if r1 is None:
        if ex.state in ("empty", "truncated") and obs.eof:
            if rejected:
                ctx.count("rejected_with_closed_connection")
            else:
                ctx.violation("accepted-but-connection-closed-without-response/" + fam, "no exception was raised yet the "
                              "connection was closed without a complete response", wit)
            return
        if ex.state == "malformed" and obs.rx.startswith(b"0\r\n\r\n"):
            ctx.violation("rejected-at-flush/chunk-terminator-without-head",
                          "the head could not be serialised; the peer receives '0 CRLF CRLF' where a status line must be", wit)
            return
        if ex.state == "malformed":
            if raw_reason and P.why_key(ex.why) == "malformed-status-line":
                ctx.count("unspecified_ctl_in_raw_reason")
                return
            ctx.violation("%s-but-head-malformed/%s/%s" % ("rejected" if rejected else "accepted", fam, P.why_key(ex.why)),
                          "the strict reader rejects the head: %s" % ex.why, wit)
            return
        if ex.state == "unspec" and P.why_key(ex.why) == "obs-fold" and not rejected:
            ctx.violation("line-folds-into-previous-header/" + fam,
                          "the line produced for the application's header starts with whitespace: it is a continuation of the "
                          "previous (framework) header line, not the intended header (RFC 9112 5.2: MUST NOT generate)", wit)
            return
        if ex.state == "unspec":
            ctx.count("unspecified_reader_" + P.why_key(ex.why))
            return
        ctx.violation("no-complete-response/%s/%s" % (ex.state, "rejected" if rejected else "accepted"),
                      "the peer has no complete response and the connection is still open", wit)
        return

    second_in_place = (r1.status == 200 and r1.body == P.SECOND_BODY and len(ex.responses) == 1 and ex.state == "clean")
    if second_in_place:
        ctx.violation("rejected-at-flush/no-response-connection-kept" if rejected else "accepted-but-response-missing/" + fam,
                      "nothing was written for the request whose head could not be serialised and the connection was kept: "
                      "the peer receives the answer to its second request as the answer to the first", wit)
        return

    # --- 3. what follows the first response ----------------------------------------------
    ctx.count("oracle_evals")
    if ex.state != "clean" or (len(ex.responses) == 1 and not obs.eof):
        ctx.violation("bytes-after-response-not-a-response/%s/%s" % (fam, ex.state),
                      "what follows the first response is not exactly the answer to the second request (split / extra body)", wit)
        return
    if len(ex.responses) == 2:
        ctx.count("second_checked")
        r2 = ex.responses[1]
        if not (r2.status == 200 and r2.body == P.SECOND_BODY):
            ctx.violation("second-response-corrupted/" + fam, "the answer to the second request is not the canonical one", wit)
            return

    # --- 4. the head itself --------------------------------------------------------------
    ctx.count("oracle_evals")
    ll = lenient_lines(rh[1])
    if rejected:
        if r1.status < 400:
            ctx.violation("exception-raised-but-success-response/" + fam,
                          "the call raised but the peer received a non-error response", wit)
            return
        names = [n for k, n, v, ln in ll if k == "field"]
        extra = [ln for k, n, v, ln in ll if k != "field" or (n.decode("latin-1") not in FRAMEWORK and n != b"set-cookie")]
        if extra or opaque or any(names.count(n) > 1 for n in names if n.decode("latin-1") in FRAMEWORK):
            ctx.violation("error-response-carries-unintended-lines/" + fam,
                          "the error response after a rejected call contains non-framework header lines", {"extra": extra, **wit})
            return
        ctx.count("rejected_with_error_response")
        return
    ok_status = spec.get("ok_status", 200)
    if r1.status != ok_status:
        ctx.violation("accepted-but-status-differs/" + fam, "no exception was raised but the status is not the one set", wit)
        return
    stray = [ln for k, n, v, ln in ll if k != "field"]
    if stray:
        ctx.violation("non-header-line-in-head/" + fam, "the head contains a line that is not a header line", {"stray": stray, **wit})
        return
    fields = [(n, v) for k, n, v, ln in ll]
    fw = [n for n, v in fields if n.decode("latin-1") in FRAMEWORK]
    if len(fw) != len(set(fw)):
        ctx.violation("duplicate-framework-header/" + fam, "a framework header appears twice in the head", wit)
        return
    got = sorted((n, v) for n, v in fields if n.decode("latin-1") not in FRAMEWORK and n != b"set-cookie")
    if spec["role"] == "cookie":
        want = []
    elif spec["pt"] == "fixed":
        want = [(b"x-t", case["want"])]
    else:
        want = sorted(spec["intend"](payload))
    if got != want and spec["role"] == "name":
        # Tornado presents names in Http-Header-Case; for non-ASCII letters str.capitalize() changes the byte
        # (field names are case-insensitive only for ASCII; such names are outside the token grammar anyway)
        def cf(pairs):
            return sorted((n.decode("latin-1").casefold(), v) for n, v in pairs)

        def differs_only_in_non_ascii_bytes(g, w):
            # field names are case-insensitive for ASCII letters only: a wire name that has an ASCII byte where the
            # intended name has a non-ASCII one (or another length) IS a different header name
            return len(g) == len(w) and all(
                gv == wv and len(gn) == len(wn) and all(a == b or (a >= 0x80 and b >= 0x80) for a, b in zip(gn, wn))
                for (gn, gv), (wn, wv) in zip(g, w))
        if cf(got) == cf(want) and differs_only_in_non_ascii_bytes(got, want):
            ctx.count("unspecified_non_ascii_name_case_mapping")
            return
    if got != want:
        ctx.violation("header-lines-differ-from-intended/" + fam,
                      "no exception was raised but a client splitting the head on CRLF and ':' does not obtain exactly the "
                      "intended header line(s)", {"got": got, "want": want, **wit})
        return
    if opaque:
        # exactly the intended line, but outside the strict field grammar (non-token name character other than ':' or a
        # control character other than CR/LF/NUL in a value): not pinned by the statement
        ctx.count("unspecified_exact_line_outside_field_grammar")
        ctx.seen("unspecified_grammar_families", fam)
        return
    if spec["role"] == "cookie":
        if not check_cookie(r1, spec, payload, ctx, fam, wit):
            return
    elif any(n == b"set-cookie" for n, v in fields):
        ctx.violation("unexpected-set-cookie/" + fam, "a Set-Cookie line appeared that the application did not set", wit)
        return
    if spec["role"] == "reason":
        alts = {b"Unknown"}
        for e in ("utf-8", "latin-1"):
            try:
                alts.add(payload.encode(e))
            except UnicodeEncodeError:
                pass
        if r1.reason not in alts and not spec.get("error_path"):
            ctx.count("unspecified_reason_altered")
        elif r1.reason == b"Unknown" and payload != "Unknown":
            ctx.count("unspecified_reason_replaced_by_unknown")
    if "body" in spec or not spec.get("error_path"):
        if r1.body != spec.get("body", BODY):
            ctx.violation("accepted-but-body-differs/" + fam, "the body is not what the handler wrote", wit)
            return
    ctx.count("accepted_exact")
    if ctx.evaluations % 300 == 0:
        import gc
        gc.collect()
