"""C29 — gzip output encoding is transparent to the client.

C02's handler programs run inside an Application with compress_response=True.
The peer delimits the response with the strict reader, decodes the body
according to the response's Content-Encoding with a full-stream gzip decoder
(every member complete, no trailing bytes) and must obtain exactly the
concatenation of the chunks written.
"""
from __future__ import annotations

import copy

from vf import core

core.use_repo()

from vf.props import c02 as P  # noqa: E402
from vf.refs import http as H  # noqa: E402
from vf.refs import http_extra as X  # noqa: E402

PROP = "C29"
META = {
    "level": "exploration",
    "technique": "write/flush handler programs on the real server with compress_response=True; strict response reader + "
                 "full-stream gunzip (must reach end-of-stream, no trailing bytes) compared with the bytes written",
    "level_text": "Seeded random write/flush/finish programs with chunk sizes around the 1024-byte threshold, content types "
                  "in/out of the whitelist (with parameters, upper-case; near-misses of whitelisted types and composed top-level/stem/"
                  "structured-syntax-suffix types such as application/rss+xml, model/gltf+json), 10 Accept-Encoding forms, pre-set Vary / Content-Encoding / "
                  "Content-Length, GET/HEAD/POST, HTTP/1.0 and 1.1, ETag-304; decoded body == concatenation written; gzip only for "
                  "compressible types when Accept-Encoding mentions gzip; Vary includes Accept-Encoding (and keeps the app's tokens); "
                  "Content-Length == encoded length (HEAD compared with its GET twin).",
    "level_note": "Trusts the strict reader, zlib and C02's reference interpreter. Whether a compressible response *is* compressed "
                  "is not pinned ('only' is one-directional); 'gzip;q=0' and 'x-gzip' mention gzip. Programs that hit C02's "
                  "known framing defects (HTTP/1.0 keep-alive + flush, body on 204) are not generated here.",
    "design_ref": "DESIGN.md §4 C29",
    "engine": "wire",
}
RULE = ("a case is (method, version form, Accept-Encoding form, If-None-Match form, handler program: optional Content-Type "
        "(whitelisted / text / near-miss / composed with +xml, +json ... suffixes) / Vary / "
        "Content-Encoding / exact Content-Length, 1-4 writes of sizes {0,1,1023,1024,1025,2048,5000,70000} text or binary with "
        "flush placements, finish with or without chunk); non-trivial when a non-empty chunk is written and the request carries an "
        "Accept-Encoding header; distinct by the whole case")
FLOORS = {"quick": 1500, "thorough": 50000}
ASSUMPTIONS = ["strict response reader and zlib are correct", "C02 reference interpreter is correct",
               "AF_UNIX socketpair + virtual loop: quiescence means nothing is in flight"]
REQUIRED_COUNTERS = ["oracle_evals", "gzip_decoded", "identity_checked", "vary_checked", "head_twin_checked",
                     "not_compressed_because_type", "not_compressed_because_accept_encoding"]

WHITELIST = {"application/javascript", "application/x-javascript", "application/xml", "application/atom+xml",
             "application/json", "application/xhtml+xml", "image/svg+xml"}
CTYPES = [None, None, "text/plain", "text/html; charset=UTF-8", "text/css;charset=utf-8", "application/json",
          "application/json; charset=UTF-8", "image/svg+xml", "application/xml", "application/javascript",
          "TEXT/HTML", "Application/JSON", "application/octet-stream", "image/png", "application/jsonx", "text", "",
          "application/x-javascript ; q=1", "video/mp4"]
# Content types OUTSIDE the whitelist that resemble whitelisted ones: structured-syntax suffixes (RFC 6839), a whitelisted
# type used as prefix / suffix / parameter, other top-level types, near-miss spellings.  None of them may be compressed.
NEAR_CTYPES = [
    "application/rss+xml", "application/soap+xml; charset=utf-8", "application/ld+json", "model/gltf+json",
    "application/vnd.api+json", "application/vnd.google-earth.kml+xml", "application/problem+json", "application/mathml+xml",
    "image/svg+xml-compressed", "application/json-seq", "application/jsonlines", "application/x-json", "application/xml-dtd",
    "application/xml-external-parsed-entity", "application/javascript+module", "application/atom+xml+zip", "application/atom",
    "application/xhtml", "image/svg", "application/x-javascript-config", "application/geo+json-seq", "application/epub+zip",
    "application/cbor", "application/x-protobuf", "application/pdf", "application/wasm", "application/zip", "application/gzip",
    "font/woff2", "audio/mpeg", "model/vrml", "message/rfc822", "multipart/mixed; boundary=text/plain", "image/png; note=text/html",
    "application/octet-stream; type=application/json", "xtext/plain", "application/text/plain", "texts/plain", "text", "text-plain",
    "/json", "json", "application/", "+xml", "+json", "application/+json", "x/y+xml", "image/jpeg", "image/svg+xml+gzip",
]
TOPS = ["application", "image", "model", "audio", "video", "message", "multipart", "font", "x-app", "texts", "tex", "text"]
STEMS = ["rss", "soap", "ld", "vnd.api", "vnd.acme.v2", "gltf", "svg", "atom", "xhtml", "json", "xml", "javascript", "x", "plain",
         "html", "csv", "octet-stream"]
SUFFIXES = ["", "", "+xml", "+json", "+XML", "+Json", "+yaml", "+zip", "+gzip", "+cbor", "+json-seq", "+xml+x", "+text"]
PARAMS = ["", "", "", "; charset=utf-8", ";charset=UTF-8", "; profile=\"text/html\"", " ; q=1"]


def rand_ctype(rng):
    """Content-Type for one case: absent, a whitelisted / text type (with parameters, upper-case), a fixed near-miss, or a
    type composed from top-level x stem x structured-syntax suffix x parameter (mostly outside the whitelist)."""
    r = rng.random()
    if r < 0.55:
        return rng.choice(CTYPES)
    if r < 0.75:
        return rng.choice(NEAR_CTYPES)
    if r < 0.80:
        return rng.choice(sorted(WHITELIST)) + rng.choice(PARAMS)
    return "%s/%s%s%s" % (rng.choice(TOPS), rng.choice(STEMS), rng.choice(SUFFIXES), rng.choice(PARAMS))


AE = [None, "gzip", "gzip", "gzip", "GZIP", "deflate", "gzip;q=0", "x-gzip", "identity", "deflate, gzip",
      "br;q=1.0, gzip;q=0.8, *;q=0.1", "", "gzi p"]
SIZES = [0, 1, 1023, 1024, 1024, 1025, 2048, 5000]
VFORMS = [("1.1", None), ("1.1", None), ("1.1", "close"), ("1.0", None), ("1.0", "keep-alive")]


def rand_case(rng):
    v, c = rng.choice(VFORMS)
    prog = []
    ct = rand_ctype(rng)
    if ct is not None:
        prog.append(("set", "Content-Type", ct))
    r = rng.random()
    if r < 0.15:
        prog.append(("set", "Vary", "Cookie"))
    elif r < 0.22:
        prog.append(("add", "Vary", "Origin"))
        prog.append(("add", "Vary", "Cookie"))
    if rng.random() < 0.08:
        prog.append(("set", "Content-Encoding", rng.choice(["identity", "br", "gzip"])))
    nw = rng.randint(1, 4)
    body_ops = []
    total = 0
    allow_flush = not (v == "1.0" and c == "keep-alive")      # C02's known defect lives there
    for i in range(nw):
        n = rng.choice(SIZES) if rng.random() < 0.97 else 70000
        kind = rng.choice(["t", "t", "t", "b", "r", "r"])
        spec = ("e",) if n == 0 else (kind, n, rng.randrange(256))
        total += n
        if i == nw - 1 and rng.random() < 0.4:
            body_ops.append(("finish", spec))
        else:
            body_ops.append(("write", spec))
        if allow_flush and rng.random() < 0.4:
            body_ops.append(("flush", rng.random() < 0.3))
        if rng.random() < 0.2:
            body_ops.append(("settle",))
    if rng.random() < 0.12:
        prog.append(("set", "Content-Length", str(total)))
    if allow_flush and rng.random() < 0.1:
        prog.append(("flush", False))
    prog += body_ops
    ae = rng.choice(AE)
    return {"method": rng.choice(["GET", "GET", "GET", "HEAD", "POST"]), "version": v, "conn": c,
            "inm": rng.choice([None] * 8 + ["match", "weak", "other"]),
            "send": rng.choice(["pipelined", "pipelined", "sequential"]),
            "req_headers": [] if ae is None else ["Accept-Encoding: " + ae], "prog": prog}


def shards(tier, seed):
    if tier == "quick":
        return [{"n": 270, "j": j} for j in range(16)]
    return [{"n": 4500, "j": j} for j in range(48)]


def gen_cases(spec):
    rng = core.rng_for(spec["seed"], PROP, spec["j"])
    for _ in range(spec["n"]):
        yield rand_case(rng)


def directed_cases():
    T = ("t", 1024, 1)
    base = {"version": "1.1", "conn": None, "inm": None, "send": "pipelined", "req_headers": ["Accept-Encoding: gzip"]}
    yield dict(base, method="GET", prog=[("write", T)])
    yield dict(base, method="GET", prog=[("write", ("t", 1023, 1))])
    # incompressible content: the encoded body is larger than the plaintext, it must still be a gzip stream
    yield dict(base, method="GET", prog=[("write", ("r", 2000, 7))])
    yield dict(base, method="GET", prog=[("write", ("r", 1024, 8)), ("flush", False), ("write", ("r", 1500, 9))])
    yield dict(base, method="GET", prog=[("write", T), ("flush", False), ("settle",), ("write", T), ("flush", True), ("finish", T)])
    yield dict(base, method="HEAD", prog=[("write", ("t", 5000, 2))])
    yield dict(base, method="GET", prog=[("set", "Vary", "Cookie"), ("set", "Content-Length", "2048"), ("write", ("t", 2048, 3))])
    yield dict(base, method="GET", prog=[("set", "Content-Length", "2048"), ("write", T), ("flush", False), ("write", T)])
    yield dict(base, method="GET", prog=[("set", "Content-Type", "image/png"), ("write", ("b", 5000, 4))])
    yield dict(base, method="GET", version="1.0", prog=[("write", T), ("flush", False), ("write", T)])
    yield dict(base, method="GET", inm="match", prog=[("write", ("t", 2048, 5))])
    yield dict(base, method="GET", req_headers=[], prog=[("write", ("t", 2048, 5))])
    # outside the whitelist although they carry a structured-syntax suffix / resemble a whitelisted type
    for ct in ("application/rss+xml", "application/soap+xml; charset=utf-8", "application/ld+json", "model/gltf+json",
               "image/svg+xml-compressed", "application/json-seq"):
        yield dict(base, method="GET", prog=[("set", "Content-Type", ct), ("write", ("t", 2048, 6))])
    yield dict(base, method="GET", prog=[("set", "Content-Type", "application/vnd.api+json"), ("write", ("t", 500, 6)),
                                         ("flush", False), ("write", ("t", 600, 7))])


def ae_mentions_gzip(case):
    for h in case.get("req_headers", ()):
        k, _, v = h.partition(":")
        if k.strip().lower() == "accept-encoding" and "gzip" in v.lower():
            return True
    return False


def compressible(ctype_value):
    ct = ctype_value.split(b";")[0].strip(b" \t").lower().decode("latin-1")
    return ct.startswith("text/") or ct in WHITELIST


def exchange(case, exp):
    inm = P.inm_header(case.get("inm"), exp.etag_body if exp.etag_body is not None else b"")
    return P.run_exchange(case, P.build_request(case, inm), app_settings={"compress_response": True})


def run_case(case, ctx):
    exp = P.reference(case)
    obs = exchange(case, exp)
    ex = X.read_exchange(obs.rx, obs.eof, [case["method"], "GET"])
    wit = {"rx_head": obs.rx[:600], "rx_len": len(obs.rx), "eof": obs.eof, "expect": exp.as_dict(),
           "exchange": ex.as_dict(), "raised": obs.box["raised"], "logs": obs.logs[:3]}
    wrote = any(o[0] in ("write", "finish") and len(o) > 1 and P.chunk_len(o[1]) > 0 for o in case["prog"])
    nt = wrote and bool(case.get("req_headers"))
    ctx.mark(case, nt)
    if nt:
        ctx.sample(case)
    if not obs.quiesced:
        ctx.count("not_quiesced")
        return
    if exp.unspec or exp.abort_ok or not exp.alts or exp.alts[0]["kind"] != "normal":
        ctx.count("unspecified_program_outside_c29_scope")
        return
    alt = exp.alts[0]
    ctx.count("oracle_evals")
    r1 = ex.responses[0] if ex.responses else None
    if r1 is None:
        ctx.violation("no-delimitable-response/%s/%s" % (ex.state, P.why_key(ex.why)),
                      "the strict reader cannot delimit the (possibly gzip-encoded) response: %s" % ex.why, wit)
        return
    # what follows must be exactly the second response (Content-Length == encoded length is decided here for non-HEAD)
    if r1.framing != "close":
        if ex.state != "clean" or (len(ex.responses) == 1 and not obs.eof and obs.second_sent):
            ctx.violation("bytes-after-response-not-a-response/%s" % ex.state,
                          "bytes after the response do not form the answer to the second request (Content-Length / "
                          "chunk framing does not match the encoded body)", wit)
            return
        if len(ex.responses) == 2 and not (ex.responses[1].status == 200 and ex.responses[1].body == P.SECOND_BODY):
            ctx.violation("second-response-corrupted", "the answer to the second request is not the canonical one", wit)
            return
    if r1.status != alt["status"]:
        ctx.violation("status-differs", "status differs from what the program set", {"got": r1.status, **wit})
        return

    ce = [v.strip(b" \t").lower() for v in r1.get_all("content-encoding")]
    app_ce = alt["headers"].get("content-encoding")
    bodyless = case["method"] == "HEAD" or P.bodiless(r1.status)
    gz_by_framework = ce == [b"gzip"] and not app_ce

    # --- Vary ------------------------------------------------------------------------------
    ctx.count("vary_checked")
    vt = X.vary_tokens(r1)
    if "accept-encoding" not in vt:
        ctx.violation("vary-lacks-accept-encoding", "Vary does not include Accept-Encoding", {"vary": r1.get_all("vary"), **wit})
        return
    app_vary = [t.strip().lower() for v in alt["headers"].get("vary", []) for t in v.split(",") if t.strip()]
    lost = [t for t in app_vary if t not in vt]
    if lost:
        ctx.violation("app-vary-token-lost", "a Vary token set by the handler is missing from the response",
                      {"lost": lost, "vary": r1.get_all("vary"), **wit})
        return

    # --- only compressible types, only when Accept-Encoding mentions gzip ----------------------
    ctx.count("oracle_evals")
    ctype = (r1.get_all("content-type") or [b""])[0]
    if gz_by_framework:
        ctx.count("gzip_applied")
        if not ae_mentions_gzip(case):
            ctx.violation("gzip-without-accept-encoding-gzip", "Content-Encoding: gzip although the request's Accept-Encoding "
                          "does not mention gzip", wit)
            return
        if not bodyless and not compressible(ctype):
            ctx.violation("gzip-for-non-compressible-type", "Content-Encoding: gzip for a content type that is neither text/* "
                          "nor in the whitelist", {"content_type": ctype, **wit})
            return
    elif not app_ce:
        if ce:
            ctx.violation("unexpected-content-encoding", "a Content-Encoding other than gzip appeared", {"ce": ce, **wit})
            return
        if not ae_mentions_gzip(case):
            ctx.count("not_compressed_because_accept_encoding")
        elif not compressible(ctype):
            ctx.count("not_compressed_because_type")
        else:
            ctx.count("not_compressed_other")

    # --- transparency -----------------------------------------------------------------------------
    ctx.count("oracle_evals")
    if bodyless:
        ctx.count("bodyless_checked")
        plain = b""
    elif gz_by_framework:
        try:
            plain = H.gunzip_strict(r1.body)
        except H.Reject as e:
            if r1.body == b"" and alt["body"] == b"":
                plain = b""
                ctx.count("unspecified_empty_gzip_body")
            else:
                ctx.violation("gzip-stream-undecodable/" + P.why_key(str(e)),
                              "the body is labelled gzip but a full-stream decoder fails: %s" % e,
                              {"body_head": r1.body[:60], "body_len": len(r1.body), **wit})
                return
        ctx.count("gzip_decoded")
        if exp.flushed_before_finish:
            ctx.count("gzip_decoded_multi_flush")
    else:
        plain = r1.body
        ctx.count("identity_checked")
    rd = copy.copy(r1)
    rd.body = plain
    p = P.match_alt(rd, alt, case)
    if p is not None:
        kind = p[0]
        if kind == "body":
            kind = "decoded-body-differs/%s%s" % ("gzip" if gz_by_framework else "identity",
                                                  "/after-flush" if exp.flushed_before_finish else "")
        ctx.violation(kind, "what the client obtains after decoding differs from what the handler wrote / set", {"diff": p[1], **wit})
        return

    # --- Content-Length on HEAD == encoded length of the GET twin ---------------------------------------
    if case["method"] == "HEAD" and r1.status == 200:
        cl = r1.get_all("content-length")
        if cl and (alt["explicit_cl"] is None or int(alt["explicit_cl"]) == len(alt["get_body"])):
            twin = dict(case)
            twin["method"] = "GET"
            tobs = exchange(twin, exp)
            tex = X.read_exchange(tobs.rx, tobs.eof, ["GET", "GET"])
            if tex.responses and tex.responses[0].status == 200:
                g = tex.responses[0]
                gce = [v.strip(b" \t").lower() for v in g.get_all("content-encoding")]
                ctx.count("head_twin_checked")
                ctx.check(cl == [b"%d" % len(g.body)] and gce == ce, "head-content-length-differs-from-get-encoded-length",
                          "HEAD Content-Length / Content-Encoding differ from the encoded body GET carries",
                          {"head_cl": cl, "get_len": len(g.body), "head_ce": ce, "get_ce": gce, **wit})
            else:
                ctx.count("head_twin_unavailable")
    ctx._n = getattr(ctx, "_n", 0) + 1
    if ctx._n % 200 == 0:
        import gc
        gc.collect()
