"""C37 — @gen.coroutine bodies behave like the equivalent async def coroutine run as a task.

Differential execution on the virtual-time loop.  A program (small AST) is printed
twice — as a decorated generator (`yield X`, `raise gen.Return(v)`/`return v`) and
as a native coroutine (`await X`, `return v`) — exec'd, and both forms are run on
fresh futures under the same resolution script (which futures are already done,
completion order of the rest).  Compared: final outcome (result | exception type +
args | pending) and each coroutine's own side-effect log.  Absolute check: a context
variable set by the caller is visible inside both forms.
"""
from __future__ import annotations

import asyncio
import contextvars
import gc
import itertools

from vf import core, vloop
from vf.logmon import LogMon

core.use_repo()
from tornado import gen  # noqa: E402
from tornado.concurrent import Future  # noqa: E402

PROP = "C37"
META = {
    "level": "exploration",
    "technique": "differential execution of generated coroutine programs (decorated generator vs native coroutine task) "
                 "under every completion order of their futures on a virtual-time loop",
    "level_text": "Programs from a bounded grammar (log, yield of future/list/dict/None/moment/nested coroutine of either "
                  "flavour, try/except/finally around yields, loops, return, raise, context-variable read/write) are printed "
                  "as @gen.coroutine and as async def, and both are executed on fresh futures (failing, or succeeding with an "
                  "int or with an odd value: exception instance/class, falsy value, container, generator, awaitable-looking "
                  "object) under the same resolution script for every completion order and already-done prefix; outcome and per-coroutine side-effect logs "
                  "must be equal, and the caller's context variable must be visible.",
    "level_note": "The native form under asyncio is the reference. Trusts the two-way printer (translation table in DESIGN "
                  "§4 C37; `raise gen.Return` is only printed outside try blocks because it is an Exception in the decorated "
                  "form). Cancellation of awaited futures and context-variable writes inside nested coroutines are outside "
                  "the statement and not generated.",
    "design_ref": "DESIGN.md §4 C37",
    "engine": "vloop",
}
RULE = ("cases are (program AST, nested-coroutine flavour, future outcomes [exception | int result | result value drawn from "
        "exception instances/classes, falsy values, containers, generator and awaitable-looking objects], completion order, "
        "number already done); programs "
        "are drawn from the grammar with <= 9 statements, nesting <= 3, <= 4 futures and <= 2 nested coroutines (plus an "
        "exhaustive enumeration of all 1..3-statement bodies over a 10-statement alphabet); every program is run under all "
        "completion orders x already-done prefixes (sampled above 3 futures); non-trivial = the program reaches >= 2 yield "
        "points and at least one awaited future completes after the coroutine started; distinct by the case tuple")
FLOORS = {"quick": 8000, "thorough": 200000}
ASSUMPTIONS = ["printer emits equivalent programs for the two forms", "single-threaded use on one loop",
               "awaited futures finish with a result or an exception (no cancellation)",
               "cross-coroutine interleaving is not compared"]
REQUIRED_COUNTERS = ["oracle_evals", "programs", "runs_with_pending_future_at_yield", "exceptions_thrown_into_coroutine",
                     "cv_checks", "nested_coroutine_runs", "list_or_dict_yields", "exception_instance_received_as_value",
                     "odd_result_value_runs"]

CV = contextvars.ContextVar("vf_c37", default="unset")


class E1(Exception):
    pass


class E2(Exception):
    pass


EXC = {"E1": E1, "E2": E2, "KeyError": KeyError, "ValueError": ValueError}


class Inert:
    """A result value that looks like a generator / awaitable.  It is only ever a *value*: nobody may drive it."""

    def __init__(self):
        self.touched = []

    def _t(self, what, *a):
        self.touched.append(what)
        raise AssertionError("a future's result value was driven as a coroutine: " + what)

    def send(self, v):
        self._t("send")

    def throw(self, *a):
        self._t("throw")

    def close(self):
        self.touched.append("close")

    def __iter__(self):
        return self

    def __next__(self):
        self._t("__next__")

    def __await__(self):
        self._t("__await__")


def _a_generator():
    yield 1


# Result values a future may *succeed* with (outcome kind "v").  An awaited future that succeeded hands its value to
# the coroutine whatever the value is: exception instances and classes, falsy values, containers, generator-like and
# awaitable-looking objects are all just values of `x = yield fut` / `x = await fut`.
VALUES = {
    "exc-E1": lambda a: E1(a), "exc-E2": lambda a: E2(a), "exc-KeyError": lambda a: KeyError(a),
    "exc-Exception": lambda a: Exception(a), "exc-StopIteration": lambda a: StopIteration(a),
    "exc-Return": lambda a: gen.Return(a), "exc-CancelledError": lambda a: asyncio.CancelledError(),
    "exc-TimeoutError": lambda a: gen.TimeoutError(), "exc-BaseException": lambda a: BaseException(a),
    "class-E1": lambda a: E1, "class-StopIteration": lambda a: StopIteration,
    "none": lambda a: None, "false": lambda a: False, "zero": lambda a: 0, "emptystr": lambda a: "",
    "emptytuple": lambda a: (), "tuple": lambda a: (a, "t"), "tuple-exc": lambda a: (E1(a), None),
    "list": lambda a: [a, [a]], "emptylist": lambda a: [], "dict": lambda a: {"k": a}, "emptydict": lambda a: {},
    "generator": lambda a: _a_generator(), "inert-coroutine-like": lambda a: Inert(),
    "done-future": lambda a: _done_future(a), "moment": lambda a: gen.moment,
}
EXC_VALUES = [k for k in VALUES if k.startswith("exc-")]
OTHER_VALUES = [k for k in VALUES if not k.startswith("exc-")]


def _done_future(a):
    f = Future()
    f.set_result(a)
    return f


def EXHAUSTIVE(tier):
    return ("all bodies of 1..%d statements over {log, yield F0, yield F1, yield [F0,F1], yield None, try{yield F0}except E1, "
            "try{yield F1}finally{log}, return v, raise E2, yield nested()} x future outcomes {result, E1 raised, E1 instance "
            "as the result value}^2 x all orders x "
            "already-done prefixes (random programs are sampled, not exhaustive)" % (3 if tier == "quick" else 4))


# --------------------------------------------------------------------------
# program generation.  AST: tuples
#   ("log", k) ("y", expr) ("try", body, handlers, finalbody|None) ("ret", vexpr) ("raise", exc, arg)
#   ("loop", body) ("cvget",) ("cvset", v)
#   expr: ("fut", i) ("list", elems, explicit) ("dict", ((key, elem), ...), explicit) ("none", bare) ("moment",) ("call", s)
#   elem: ("fut", i) | ("call", s)

def gen_program(rng, nf, nsubs):
    subs = []
    for s in range(nsubs):
        subs.append(gen_block(rng, {"n": rng.randint(1, 4)}, 0, nf, [], False, False))
    main = gen_block(rng, {"n": rng.randint(2, 9)}, 0, nf, list(range(nsubs)), True, False)
    return (tuple(subs), main)


def gen_elem(rng, nf, subs):
    if subs and rng.random() < 0.3:
        return ("call", rng.choice(subs))
    return ("fut", rng.randrange(nf))


def gen_expr(rng, nf, subs):
    r = rng.random()
    if r < 0.52:
        return ("fut", rng.randrange(nf))
    if r < 0.66:
        return ("list", tuple(gen_elem(rng, nf, subs) for _ in range(rng.randint(0, 3))), rng.random() < 0.3)
    if r < 0.76:
        n = rng.randint(0, 3)
        return ("dict", tuple((f"k{j}", gen_elem(rng, nf, subs)) for j in range(n)), rng.random() < 0.3)
    if r < 0.83:
        return ("none", rng.random() < 0.5)
    if r < 0.88:
        return ("moment",)
    if subs:
        return ("call", rng.choice(subs))
    return ("fut", rng.randrange(nf))


def gen_block(rng, budget, depth, nf, subs, is_main, in_try):
    out = []
    n = rng.randint(1, 4) if depth else 99
    while budget["n"] > 0 and n > 0:
        budget["n"] -= 1
        n -= 1
        r = rng.random()
        if r < 0.14:
            out.append(("log", rng.randrange(100)))
        elif r < 0.56:
            out.append(("y", gen_expr(rng, nf, subs)))
        elif r < 0.70 and depth < 3:
            body = gen_block(rng, budget, depth + 1, nf, subs, is_main, True)
            handlers = []
            for _ in range(rng.choice([0, 1, 1, 2])):
                handlers.append((rng.choice(["E1", "E2", "KeyError", "Exception", "E1,E2"]),
                                 gen_block(rng, budget, depth + 1, nf, subs, is_main, True)))
            fin = gen_block(rng, budget, depth + 1, nf, subs, is_main, True) if (not handlers or rng.random() < 0.4) else None
            out.append(("try", body, tuple(handlers), fin))
        elif r < 0.76 and depth < 2:
            out.append(("loop", gen_block(rng, budget, depth + 1, nf, subs, is_main, in_try)))
        elif r < 0.90 and depth == 0 and len(out) < 3:
            out.append(("y", gen_expr(rng, nf, subs)))      # keep top-level bodies from ending too early
        elif r < 0.82:
            out.append(("ret", rng.choice([("const", rng.randrange(50)), ("v",), ("none",)]), rng.random() < 0.5 and not in_try))
            break
        elif r < 0.90:
            out.append(("raise", rng.choice(["E1", "E2", "KeyError", "ValueError"]), rng.randrange(10)))
            break
        elif r < 0.95:
            out.append(("cvget",))
        elif is_main:
            out.append(("cvset", rng.randrange(5)))
        else:
            out.append(("cvget",))
    if not out:
        out.append(("log", 0))
    return tuple(out)


SMALL = [("log", 1), ("y", ("fut", 0)), ("y", ("fut", 1)), ("y", ("list", (("fut", 0), ("fut", 1)), False)),
         ("y", ("none", False)),
         ("try", (("y", ("fut", 0)),), (("E1", (("log", 2),)),), None),
         ("try", (("y", ("fut", 1)),), (), (("log", 3),)),
         ("ret", ("v",), True), ("raise", "E2", 4), ("y", ("call", 0))]
SMALL_SUB = (("y", ("fut", 1)), ("log", 5), ("ret", ("v",), False))


def small_programs(maxlen):
    for L in range(1, maxlen + 1):
        for body in itertools.product(SMALL, repeat=L):
            if any(s[0] in ("ret", "raise") for s in body[:-1]):
                continue
            yield ((SMALL_SUB,), tuple(body))


# --------------------------------------------------------------------------
# printer

def p_elem(e, form):
    if e[0] == "fut":
        return f"F[{e[1]}]"
    return f"env.sub({e[1]}, {form!r})(F, env.newlog('s{e[1]}'), env)"


def p_expr(e, form):
    """Returns the awaitable expression for the form ('gen' | 'nat')."""
    k = e[0]
    if k in ("fut", "call"):
        return p_elem(e, form)
    if k == "list":
        inner = "[" + ", ".join(p_elem(x, form) for x in e[1]) + "]"
        return f"gen.multi({inner})" if (form == "nat" or e[2]) else inner
    if k == "dict":
        inner = "{" + ", ".join(f"{key!r}: {p_elem(x, form)}" for key, x in e[1]) + "}"
        return f"gen.multi({inner})" if (form == "nat" or e[2]) else inner
    if k == "none":
        return "asyncio.sleep(0)" if form == "nat" else ("" if e[1] else "None")
    if k == "moment":
        return "asyncio.sleep(0)" if form == "nat" else "gen.moment"
    raise ValueError(e)


def p_block(block, form, ind, lines, depth=0):
    pad = "    " * ind
    for s in block:
        k = s[0]
        if k == "log":
            lines.append(f"{pad}log.append(('log', {s[1]}))")
        elif k == "y":
            kw = "yield" if form == "gen" else "await"
            lines.append(f"{pad}log.append(('at-yield', env.pending({s[1]!r}, F)))")
            lines.append(f"{pad}v = {kw} {p_expr(s[1], form)}".rstrip())
            lines.append(f"{pad}log.append(('got', v))")
        elif k == "try":
            lines.append(f"{pad}try:")
            p_block(s[1], form, ind + 1, lines, depth + 1)
            for exc, hb in s[2]:
                lines.append(f"{pad}except {'(' + exc + ')' if ',' in exc else exc} as e:")
                lines.append(f"{pad}    log.append(('caught', type(e).__name__, e.args))")
                p_block(hb, form, ind + 1, lines, depth + 1)
            if s[3] is not None:
                lines.append(f"{pad}finally:")
                lines.append(f"{pad}    log.append(('finally',))")
                p_block(s[3], form, ind + 1, lines, depth + 1)
        elif k == "loop":
            lines.append(f"{pad}for i{depth} in range(2):")
            lines.append(f"{pad}    log.append(('iter', i{depth}))")
            p_block(s[1], form, ind + 1, lines, depth + 1)
        elif k == "ret":
            val = {"const": lambda: repr(s[1][1]), "v": lambda: "v", "none": lambda: "None"}[s[1][0]]()
            if form == "gen" and s[2]:
                lines.append(f"{pad}raise gen.Return({val})")
            else:
                lines.append(f"{pad}return {val}")
        elif k == "raise":
            lines.append(f"{pad}raise {s[1]}({s[2]})")
        elif k == "cvget":
            lines.append(f"{pad}log.append(('cv', CV.get()))")
        elif k == "cvset":
            lines.append(f"{pad}CV.set({s[1]!r})")
            lines.append(f"{pad}env.cvset = True")


def p_func(name, block, form):
    lines = []
    if form == "gen":
        lines += ["@gen.coroutine", f"def {name}(F, log, env):"]
    else:
        lines += [f"async def {name}(F, log, env):"]
    lines.append("    v = None")
    lines.append("    log.append(('cv-entry', CV.get()))")
    p_block(block, form, 1, lines)
    return "\n".join(lines)


def print_program(prog):
    subs, main = prog
    parts = []
    for form in ("gen", "nat"):
        for i, b in enumerate(subs):
            parts.append(p_func(f"sub{i}_{form}", b, form))
        parts.append(p_func(f"main_{form}", main, form))
    return "\n\n".join(parts) + "\n"


_compiled = {}


def compile_program(prog):
    key = prog
    ns = _compiled.get(key)
    if ns is None:
        if len(_compiled) > 64:
            _compiled.clear()
        src = print_program(prog)
        ns = {"gen": gen, "asyncio": asyncio, "CV": CV, "__src__": src}
        ns.update(EXC)
        exec(compile(src, "<c37-program>", "exec"), ns)
        _compiled[key] = ns
    return ns


# --------------------------------------------------------------------------
# cases

def futures_used(prog):
    used = set()

    def walk(x):
        if isinstance(x, tuple):
            if len(x) == 2 and x[0] == "fut" and isinstance(x[1], int):
                used.add(x[1])
            for y in x:
                walk(y)
    walk(prog)
    return sorted(used)


def schedules(rng, used, limit):
    k = len(used)
    alls = [(o, npre) for o in itertools.permutations(used) for npre in range(k + 1)]
    if len(alls) > limit:
        alls = rng.sample(alls, limit)
    return alls


def shards(tier, seed):
    out = []
    for b in range(4 if tier == "quick" else 8):
        out.append({"kind": "small", "bucket": b, "nb": 4 if tier == "quick" else 8, "maxlen": 3 if tier == "quick" else 4})
    k = 12 if tier == "quick" else 24
    n = 6000 if tier == "quick" else 240000
    for j in range(k):
        out.append({"kind": "rand", "n": n // k, "j": j})
    return out


def gen_cases(spec):
    rng = core.rng_for(spec["seed"], PROP, spec.get("j", spec.get("bucket")))
    if spec["kind"] == "small":
        for idx, prog in enumerate(small_programs(spec["maxlen"])):
            if idx % spec["nb"] != spec["bucket"]:
                continue
            used = futures_used(prog)
            lim = 99 if spec["maxlen"] <= 3 else 4
            for outs in (("r", "r"), ("e", "r"), ("r", "e"), ("e", "e")):
                if spec["maxlen"] > 3 and outs == ("e", "e"):
                    continue
                for order, npre in schedules(rng, used, lim):
                    yield (prog, "same", ((outs[0], "E1", 1), (outs[1], "E1", 2)), order, npre)
            # a future that succeeds with an exception instance (of the type the bodies' handler names) as its value
            for outs in (("v", "r"), ("r", "v"), ("v", "v"), ("v", "e"), ("e", "v")):
                if spec["maxlen"] > 3 and outs != ("v", "v"):
                    continue
                for order, npre in schedules(rng, used, lim):
                    yield (prog, "same", tuple((o, "exc-E1" if o == "v" else "E1", j + 1) for j, o in enumerate(outs)),
                           order, npre)
    else:
        for _ in range(spec["n"]):
            nf = rng.randint(1, 4)
            prog = gen_program(rng, nf, rng.choice([0, 0, 1, 1, 2]))
            used = futures_used(prog)
            outs = tuple(gen_outcome(rng) for _ in range(nf))
            flav = rng.choice(["same", "same", "gen", "nat"])
            for order, npre in schedules(rng, used, 8 if spec["tier"] == "quick" else 12):
                yield (prog, flav, outs, order, npre)


def gen_outcome(rng):
    r = rng.random()
    if r < 0.55:
        return ("r", "E1", rng.randrange(10))
    if r < 0.75:
        return ("e", rng.choice(["E1", "E2", "KeyError"]), rng.randrange(10))
    if r < 0.9:
        return ("v", rng.choice(EXC_VALUES), rng.randrange(10))
    return ("v", rng.choice(OTHER_VALUES), rng.randrange(10))


def directed_cases():
    # yield of an already-done future followed by a pending one, exception thrown into try/finally, Return value
    prog = ((), (("y", ("fut", 0)), ("try", (("y", ("fut", 1)),), (("E1", (("log", 1),)),), (("y", ("fut", 0)),)),
                 ("cvget",), ("ret", ("v",), True)))
    yield (prog, "same", (("r", "E1", 0), ("e", "E1", 7)), (0, 1), 1)
    yield (prog, "same", (("r", "E1", 0), ("e", "E1", 7)), (1, 0), 0)
    prog2 = (((("y", ("fut", 0)), ("cvget",), ("ret", ("const", 5), False)),),
             (("cvset", 3), ("y", ("list", (("call", 0), ("fut", 1)), False)), ("y", ("none", True)), ("cvget",)))
    yield (prog2, "nat", (("r", "E1", 0), ("r", "E1", 0)), (1, 0), 0)
    yield (prog2, "gen", (("r", "E1", 0), ("r", "E1", 0)), (0, 1), 2)
    # futures that succeed with an exception instance / other odd objects as their value, inside and outside try
    prog3 = ((), (("try", (("y", ("fut", 0)), ("y", ("fut", 1))), (("KeyError", (("ret", ("const", 1), False),)),),
                   (("log", 2),)), ("y", ("list", (("fut", 0), ("fut", 1)), False)), ("ret", ("v",), True)))
    for vk in ("exc-KeyError", "exc-StopIteration", "exc-Return", "exc-CancelledError", "class-E1", "none", "generator",
               "inert-coroutine-like", "done-future", "tuple-exc"):
        yield (prog3, "same", (("r", "E1", 0), ("v", vk, 7)), (0, 1), 0)
        yield (prog3, "same", (("v", vk, 7), ("r", "E1", 0)), (1, 0), 1)


# --------------------------------------------------------------------------
# execution

class Env:
    def __init__(self, ns, flav, form):
        self.ns, self.flav, self.form = ns, flav, form
        self.logs = []
        self.cvset = False
        self.pending_at_yield = 0
        self.nested = 0

    def newlog(self, name):
        L = []
        self.logs.append((name, L))
        return L

    def sub(self, i, form):
        self.nested += 1
        f = form if self.flav == "same" else self.flav
        return self.ns[f"sub{i}_{f}"]

    def pending(self, expr, F):
        """Harness bookkeeping only (not compared): is some future of this yield still pending?"""
        idx = []

        def walk(x):
            if isinstance(x, tuple):
                if len(x) == 2 and x[0] == "fut" and isinstance(x[1], int):
                    idx.append(x[1])
                for y in x:
                    walk(y)
        walk(expr)
        if any(not F[i].done() for i in idx):
            self.pending_at_yield += 1
        return None


def outcome_of(f):
    if not f.done():
        return ("pending",)
    if f.cancelled():
        return ("cancelled",)
    e = f.exception()
    if e is not None:
        return ("exc", type(e).__name__, _plain(e.args))
    return ("res", _plain(f.result()))


def _plain(v):
    if isinstance(v, (list, tuple)):
        return [_plain(x) for x in v]
    if isinstance(v, dict):
        return {str(k): _plain(x) for k, x in v.items()}
    if v is None or isinstance(v, (int, str, bool)):
        return v
    if isinstance(v, BaseException):
        return ["<exception instance as value>", type(v).__name__, _plain(v.args)]
    if isinstance(v, type):
        return "<class %s>" % v.__name__
    if isinstance(v, Inert):
        return ["<inert>", list(v.touched)]
    return type(v).__name__


async def run_form(case, form, lm):
    prog, flav, outs, order, npre = case
    lm.attach_loop(asyncio.get_event_loop())
    ns = compile_program(prog)
    nf = max([len(outs)] + [i + 1 for i in order])
    F = [Future() for _ in range(nf)]

    def resolve(i):
        o = outs[i] if i < len(outs) else ("r", "E1", 0)
        if o[0] == "r":
            F[i].set_result(i * 11)
        elif o[0] == "v":
            F[i].set_result(VALUES[o[1]](o[2]))
        else:
            F[i].set_exception(EXC[o[1]](o[2]))

    used = set(order)
    for i in range(nf):
        if i not in used:
            resolve(i)          # futures the program never touches
    for i in order[:npre]:
        resolve(i)
    env = Env(ns, flav, form)
    CV.set("caller")
    log = env.newlog("main")
    if form == "gen":
        out = ns["main_gen"](F, log, env)
    else:
        out = asyncio.ensure_future(ns["main_nat"](F, log, env))
    await vloop.settle()
    for i in order[npre:]:
        resolve(i)
        await vloop.settle()
    await vloop.settle(2)
    res = outcome_of(out)
    for f in F:
        if f.done() and not f.cancelled():
            f.exception()
    logs = [(n, [_plain(list(x)) for x in L if x[0] != "at-yield"]) for n, L in env.logs]
    return res, logs, env


_ncases = 0
_progs = set()


def run_case(case, ctx):
    global _ncases
    _ncases += 1
    prog = case[0]
    hp = core.h64(prog)
    if hp not in _progs:
        _progs.add(hp)
        ctx.count("programs")
        ctx.seen("programs_set", prog)
    results = {}
    with LogMon() as lm:
        for form in ("nat", "gen"):
            try:
                results[form] = vloop.run(run_form, case, form, lm, collect=False)
            except vloop.Quiescent:
                ctx.violation("harness/quiescent", "virtual loop went idle inside the driver", None)
                return
            except SyntaxError as e:       # printer bug, never a finding
                raise RuntimeError("printer produced invalid source: %r\n%s" % (e, print_program(prog)))
        loop_errs = list(lm.loop_exceptions)
    if _ncases % 300 == 0:
        gc.collect()
    (rn, ln, en), (rg, lg, eg) = results["nat"], results["gen"]
    src = compile_program(prog)["__src__"]
    wit = {"native": {"outcome": rn, "logs": ln}, "decorated": {"outcome": rg, "logs": lg}, "source": src,
           "flavour_of_nested": case[1], "future_outcomes": case[2], "order": case[3], "already_done": case[4]}
    ctx.count("oracle_evals")
    if rn != rg:
        if rg == ("pending",):
            mech = "outcome/decorated-left-pending"
        elif rn == ("pending",):
            mech = "outcome/native-pending-decorated-done"
        elif rn[0] != rg[0]:
            mech = f"outcome/{rn[0]}-vs-{rg[0]}"
        elif rn[0] == "exc":
            mech = "outcome/different-exception"
        else:
            mech = "outcome/different-result"
        ctx.violation(mech, "the @gen.coroutine form and the async def form finish differently", wit)
        return
    if ln != lg:
        names_n, names_g = [n for n, _ in ln], [n for n, _ in lg]
        if names_n != names_g:
            mech = "log/different-nested-calls"
        else:
            which = next(n for (n, a), (_, b) in zip(ln, lg) if a != b)
            a = next(a for (n, a) in ln if n == which)
            b = next(b for (n, b) in lg if n == which)
            j = next((k for k in range(min(len(a), len(b))) if a[k] != b[k]), min(len(a), len(b)))
            ev = (a[j] if j < len(a) else b[j])[0]
            short = "decorated-log-shorter" if len(b) < len(a) and j == len(b) else (
                "decorated-log-longer" if len(a) < len(b) and j == len(a) else f"differs-at-{ev}")
            mech = f"log/{'main' if which == 'main' else 'nested'}/{short}"
        ctx.violation(mech, "a coroutine's own side-effect log differs between the two forms", wit)
        return
    # absolute: caller's context variable visible at entry of every coroutine of both forms
    ctx.count("cv_checks")
    for label, logs, env in (("native", ln, en), ("decorated", lg, eg)):
        for n, L in logs:
            entry = L[0] if L else None
            if n == "main" and entry != ["cv-entry", "caller"]:
                ctx.violation(f"contextvar/caller-value-not-visible-in-{label}",
                              "a context variable set by the caller is not visible inside the coroutine", wit)
                return
            if n != "main" and not env.cvset and entry != ["cv-entry", "caller"]:
                ctx.violation(f"contextvar/caller-value-not-visible-in-nested-{label}",
                              "a context variable set by the caller is not visible inside a nested coroutine", wit)
                return
    if loop_errs:
        e = loop_errs[0]
        ctx.violation("loop/" + ("exception-in-callback-" if "callback" in str(e["message"]) else "error-") +
                      e["exception"].split("(")[0],
                      "the event loop reported an uncaught exception while the coroutines ran",
                      {"loop_exceptions": loop_errs[:3], "source": src})
        return
    nyields = sum(1 for x in lg[0][1] if x[0] == "got")
    if eg.pending_at_yield:
        ctx.count("runs_with_pending_future_at_yield")
    if any(x[0] == "caught" for _, L in lg for x in L) or rg[0] == "exc":
        ctx.count("exceptions_thrown_into_coroutine")
    if eg.nested:
        ctx.count("nested_coroutine_runs")
    if "gen.multi" in src or "yield [" in src or "yield {" in src:
        ctx.count("list_or_dict_yields")
    got_vals = [x[1] for _, L in lg for x in L if x[0] == "got"]
    if any(isinstance(x, list) and x[:1] == ["<exception instance as value>"] for x in got_vals):
        ctx.count("exception_instance_received_as_value")
    if any(o[0] == "v" and not o[1].startswith("exc-") for o in case[2]):
        ctx.count("odd_result_value_runs")
    nontriv = nyields >= 2 and eg.pending_at_yield >= 1
    ctx.mark(case, nontriv)
    if nontriv:
        ctx.sample({"source_decorated_main": src.split("\n\n")[len(prog[0])], "future_outcomes": case[2], "order": case[3],
                    "already_done": case[4], "outcome": rg}, limit=3)
