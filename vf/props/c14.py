"""C14 — WebSocket messages arrive intact and in order under every configuration.

Three rigs on the virtual loop (vf/refs/ws_rig.py):
  server : raw reference peer (client)  <->  real WebSocketHandler behind HTTPServer/Application
  client : raw reference peer (server)  <->  real websocket_connect()
  t2t    : real websocket_connect()     <->  real WebSocketHandler
The raw peer fragments arbitrarily, inserts ping/pong at the gaps, compresses per
message with the *negotiated* permessage-deflate parameters (taken from the actual
handshake response) and decodes Tornado's frames with the independent codec.
Oracle: list equality of delivered messages (type + content), connection not aborted.
"""
from __future__ import annotations

import random

from vf import core, vloop
from vf.logmon import LogMon
from vf.refs import ws, ws_rig
from vf.vloop import settle
from vf.wire import ScriptedIOStream, cuts_for, read_plan_for

core.use_repo()

PROP = "C14"
META = {
    "level": "exploration",
    "technique": "differential monitor: independent RFC 6455/7692 codec on one end, real endpoint on the other; "
                 "delivered-message lists compared at quiescence",
    "level_text": "Generated sessions (length boundaries 0/1/125/126/127/65535/65536/200000, text with multi-byte "
                  "UTF-8 cut inside code points, binary, compressible/random) are sent to the real server and the real "
                  "client by a raw peer that fragments arbitrarily, inserts ping/pong at the gaps, and compresses with every "
                  "negotiated deflate parameter set; Tornado's own frames are decoded by the reference codec; "
                  "tornado<->tornado sessions cover both masking directions. Byte-level segmentation and scripted "
                  "short reads vary the TCP schedule.",
    "level_note": "Trusts vf/refs/ws.py (zlib for DEFLATE) and synchronous AF_UNIX delivery on the virtual loop. "
                  "Encoder variants outside the statement (BFINAL=1 blocks, non-minimal length encodings, unmasked "
                  "client frames) are not generated here.",
    "design_ref": "DESIGN.md §4 C14",
    "engine": "wire",
}
RULE = ("a case is a session: role (server/client/t2t) x deflate parameter set x <=6 messages per direction with "
        "length class, content kind, per-message compression, fragmentation cuts and control frames at gaps x byte "
        "segmentation x read plan; non-trivial = some message is fragmented or compressed or has a boundary length "
        "(0,125,126,127,65535,65536,200000); distinct by the full case description")
FLOORS = {"quick": 600, "thorough": 20000}
ASSUMPTIONS = ["reference codec vf/refs/ws.py is correct (self-checked by round trip in every shard)",
               "virtual loop: all peers in one thread over AF_UNIX",
               "window bits 9..15 (zlib cannot produce a raw 256-byte window)"]
REQUIRED_COUNTERS = ["oracle_evals", "up_messages", "down_messages", "fragmented_messages",
                     "compressed_messages", "ctl_in_gap"]
SHARD_TIMEOUT = {"quick": 240, "thorough": 3600}

BOUNDARY = (0, 125, 126, 127, 65535, 65536, 200000)


# ---------------------------------------------------------------------------
# generation

def content(t, n, kind, seed):
    r = random.Random(seed)
    if kind == "far":
        # a random block repeated at a distance larger than small LZ77 windows (512..4096 bytes)
        blk = r.randint(600, 4500)
        if t == "bin":
            unit = r.randbytes(blk)
        else:
            unit = "".join(r.choice("0123456789abcdefghijklmnopqrstuvwxyz") for _ in range(blk))
        return (unit * (n // blk + 1))[:n]
    if t == "bin":
        if kind == "comp":
            unit = r.randbytes(r.randint(1, 7))
            return (unit * (n // len(unit) + 1))[:n]
        return r.randbytes(n)
    # text: exactly n bytes of valid UTF-8
    if kind == "utf8":
        out, size = [], 0
        pool = ["é", "ß", "я", "€", "水", "한", "😀", "𝄞", "a", " "]
        while size < n:
            ch = r.choice(pool)
            b = len(ch.encode())
            if size + b > n:
                ch, b = "x", 1
            out.append(ch)
            size += b
        return "".join(out)
    if kind == "comp":
        unit = "".join(r.choice("abcdefgh ,") for _ in range(r.randint(1, 9)))
        return (unit * (n // len(unit) + 1))[:n]
    return "".join(r.choice("0123456789abcdefghijklmnopqrstuvwxyzABCDEF-_ ") for _ in range(n))


def gen_len(rng, big):
    x = rng.random()
    if x < 0.30:
        return rng.choice([0, 1, 125, 126, 127])
    if x < 0.30 + big:
        return rng.choice([65535, 65536, 65535, 65536, 200000])
    if x < 0.80:
        return rng.randint(2, 300)
    return rng.randint(300, 12000)


def gen_msg(rng, deflate, big, up):
    n = gen_len(rng, big)
    t = rng.choice(["text", "bin"])
    kind = rng.choice(["ascii", "utf8", "comp"] if t == "text" else ["rand", "comp"])
    if n >= 1200 and rng.random() < 0.5:
        kind = "far"
    m = {"t": t, "n": n, "kind": kind, "seed": rng.randrange(1 << 30)}
    if not up:
        return m
    m["z"] = bool(deflate) and rng.random() < 0.75
    nfrag = rng.choice([0, 0, 1, 1, 2, 3])
    cuts = []
    for _ in range(nfrag):
        c = rng.random()
        if c < 0.5:
            cuts.append(("f", round(rng.random(), 3)))
        elif c < 0.75:
            cuts.append(("a", rng.choice([0, 1, 2, 3, 125, 126])))
        else:
            cuts.append(("e", rng.choice([0, 1, 2, 3, 4, 5])))
    m["cuts"] = cuts
    mode = rng.choice(["none", "all", "all", "rand"])
    ctl = {}
    for g in range(len(cuts)):
        if mode == "all" or (mode == "rand" and rng.random() < 0.5):
            ctl[g] = [(rng.choice(["ping", "ping", "pong"]), rng.choice([0, 1, 5, 125]))
                      for _ in range(rng.choice([1, 1, 2]))]
    m["ctl"] = ctl
    m["after"] = [(rng.choice(["ping", "pong"]), rng.choice([0, 3, 125]))] if rng.random() < 0.2 else []
    m["blocks"] = rng.choice([1, 1, 1, 2, 5]) if m["z"] else 1
    return m


def gen_deflate(rng, role):
    if rng.random() < 0.25:
        return None
    params = {}
    if rng.random() < 0.4:
        params["server_no_context_takeover"] = None
    if rng.random() < 0.4:
        params["client_no_context_takeover"] = None
    if rng.random() < 0.5:
        params["server_max_window_bits"] = str(rng.randint(9, 15))
    if role == "server":
        x = rng.random()
        if x < 0.45:
            params["client_max_window_bits"] = str(rng.randint(9, 15))
        elif x < 0.6:
            params["client_max_window_bits"] = None
    else:
        if rng.random() < 0.5:
            params["client_max_window_bits"] = str(rng.randint(9, 15))
    opts = {}
    if rng.random() < 0.6:
        opts["compression_level"] = rng.choice([1, 6, 9])
    if rng.random() < 0.5:
        opts["mem_level"] = rng.choice([1, 4, 8, 9])
    return {"params": params, "opts": opts,
            "peer_level": rng.choice([1, 6, 9]), "peer_mem": rng.choice([1, 8, 9]),
            "peer_reset_anyway": rng.random() < 0.15}


def gen_case(rng, role, tier):
    big = {"quick": 0.03, "thorough": 0.06}[tier]
    deflate = gen_deflate(rng, role)
    if role == "t2t":
        if deflate is not None:
            deflate["params"] = {}
    nu, nd = rng.randint(1, 6), rng.randint(0, 4)
    case = {"role": role, "deflate": deflate,
            "up": [gen_msg(rng, deflate, big, role != "t2t") for _ in range(nu)],
            "down": [gen_msg(rng, deflate, big, False) for _ in range(nd)],
            "seg": rng.choice(["whole", "whole", "random", "random", "bytes"]),
            "plan": rng.choice(["none", "none", "mix", "spurious", "one"]) if role != "client" else "none",
            "reader": rng.choice(["callback", "queue"]) if role != "server" else "callback",
            "order": rng.choice(["up-down", "down-up", "interleave"]),
            "seed": rng.randrange(1 << 30)}
    return case


def shards(tier, seed):
    n = {"quick": 16, "thorough": 64}[tier]
    per = {"quick": 100, "thorough": 1000}[tier]
    roles = ["server", "client", "server", "t2t"]
    return [{"role": roles[i % len(roles)], "n": per, "j": i} for i in range(n)]


def gen_cases(spec):
    rng = core.rng_for(spec["seed"], PROP, spec["j"])
    for _ in range(spec["n"]):
        yield gen_case(rng, spec["role"], spec["tier"])


def _m(t, n, kind="comp", z=True, cuts=(), ctl=None, seed=7):
    return {"t": t, "n": n, "kind": kind, "seed": seed, "z": z, "cuts": list(cuts), "ctl": ctl or {},
            "after": [], "blocks": 1}


def directed_cases():
    d = {"params": {}, "opts": {}, "peer_level": 6, "peer_mem": 8, "peer_reset_anyway": False}
    base = {"seg": "whole", "plan": "none", "reader": "callback", "order": "up-down", "seed": 1, "down": []}
    # probe-confirmed witness (DESIGN §5): ping between the fragments of a compressed message
    yield dict(base, role="server", deflate=d,
               up=[_m("bin", 90, cuts=[("a", 5)], ctl={0: [("ping", 2)]})])
    yield dict(base, role="server", deflate=d,
               up=[_m("text", 90, cuts=[("f", 0.5)], ctl={0: [("ping", 0)]}), _m("text", 10, z=False)])
    yield dict(base, role="client", deflate=d,
               up=[_m("bin", 300, cuts=[("f", 0.3), ("f", 0.6)], ctl={1: [("pong", 1)]})])
    # tornado client told not to use context takeover (found by this check): second message must inflate standalone
    yield dict(base, role="client", up=[_m("text", 5, z=False)],
               deflate=dict(d, params={"client_no_context_takeover": None}),
               down=[{"t": "text", "n": 60, "kind": "comp", "seed": 7}, {"t": "text", "n": 60, "kind": "comp", "seed": 7}])
    yield dict(base, role="server", up=[_m("text", 5, z=False)],
               deflate=dict(d, params={"server_no_context_takeover": None, "client_no_context_takeover": None}),
               down=[{"t": "bin", "n": 60, "kind": "comp", "seed": 7}, {"t": "bin", "n": 60, "kind": "comp", "seed": 7}])
    # same shape without compression / without control frame (must hold)
    yield dict(base, role="server", deflate=None,
               up=[_m("text", 90, kind="utf8", z=False, cuts=[("a", 1)], ctl={0: [("ping", 2)]})])
    yield dict(base, role="server", deflate=d, up=[_m("bin", 126, cuts=[("e", 1)])])


# ---------------------------------------------------------------------------
# execution

def realise_cuts(cuts, n):
    pts = []
    for kind, v in cuts:
        if kind == "f":
            p = int(v * n)
        elif kind == "a":
            p = v
        else:
            p = n - v
        pts.append(max(0, min(n, p)))
    return sorted(pts)


def agreed_from(ext_value):
    """Parameters of the permessage-deflate element of a Sec-WebSocket-Extensions value."""
    if not ext_value:
        return None
    for name, params in ws.parse_extensions(ext_value):
        if name == "permessage-deflate":
            return params
    return None


def codecs_for(agreed, peer_side, d):
    """(Deflater for the raw peer's outgoing messages, Inflater for tornado's) from the agreed parameters."""
    other = "server" if peer_side == "client" else "client"

    def bits(side):
        v = agreed.get(side + "_max_window_bits")
        return int(v) if v else 15
    defl = ws.Deflater(wbits=bits(peer_side),
                       no_context_takeover=(peer_side + "_no_context_takeover") in agreed or d["peer_reset_anyway"],
                       level=d["peer_level"], mem=d["peer_mem"])
    infl = ws.Inflater(wbits=bits(other), no_context_takeover=(other + "_no_context_takeover") in agreed)
    return defl, infl


def peer_stream(msgs, defl, masked, rng):
    """Frames for the peer->tornado direction. Returns (bytes, expected_messages, per-message features)."""
    out = bytearray()
    expected, feats = [], []

    def key():
        return rng.randbytes(4) if masked else None

    def ctl_frame(c):
        op = ws.OP_PING if c[0] == "ping" else ws.OP_PONG
        return ws.build_frame(op, rng.randbytes(c[1]), mask=key())

    for m in msgs:
        value = content(m["t"], m["n"], m["kind"], m["seed"])
        raw = value.encode("utf-8") if isinstance(value, str) else value
        z = bool(m.get("z")) and defl is not None
        payload = defl.compress(raw, blocks=m.get("blocks", 1)) if z else raw
        pts = realise_cuts(m.get("cuts", []), len(payload))
        bounds = [0] + pts + [len(payload)]
        nfr = len(bounds) - 1
        ctl_used = False
        for i in range(nfr):
            op = (ws.OP_TEXT if m["t"] == "text" else ws.OP_BIN) if i == 0 else ws.OP_CONT
            out += ws.build_frame(op, payload[bounds[i]:bounds[i + 1]], fin=(i == nfr - 1),
                                  rsv=ws.RSV1 if (z and i == 0) else 0, mask=key())
            if i < nfr - 1:
                for c in m.get("ctl", {}).get(i, m.get("ctl", {}).get(str(i), [])):
                    out += ctl_frame(c)
                    ctl_used = True
        for c in m.get("after", []):
            out += ctl_frame(c)
        expected.append(value)
        feats.append({"z": z, "frag": nfr > 1, "ctl": ctl_used, "n": m["n"], "t": m["t"],
                      "wire": len(payload)})
    return bytes(out), expected, feats


def feat_key(f):
    parts = []
    if f.get("z"):
        parts.append("deflate")
    if f.get("frag"):
        parts.append("frag")
    if f.get("ctl"):
        parts.append("ctl-in-gap")
    n = f.get("wire", f.get("n", 0))
    parts.append("len7" if n < 126 else ("len16" if n <= 0xFFFF else "len64"))
    return "+".join(parts)


def judge_recv(ctx, case, got, expected, feats, aborted, tag):
    """Compare the messages tornado delivered with the ones the peer sent."""
    ctx.count("oracle_evals")
    i = 0
    while i < len(got) and i < len(expected) and got[i] == expected[i] and type(got[i]) is type(expected[i]):
        i += 1
    if i == len(expected) and len(got) == len(expected) and not aborted:
        return True
    if i < len(expected):
        f = feats[i]
        if i >= len(got):
            shape = "aborted" if aborted else "missing"
        elif type(got[i]) is not type(expected[i]):
            shape = "wrong-type"
        else:
            shape = "altered"
        if f["z"] and f["frag"] and f["ctl"]:
            mech = "recv/compressed-fragmented-message-with-control-frame-in-gap"
        else:
            mech = "recv/%s/%s" % (shape, feat_key(f))
        what = ("%s: message #%d (%s) was %s by the receiving tornado endpoint" % (tag, i, feat_key(f), shape))
        wit = {"role": case["role"], "index": i, "features": f, "aborted": aborted,
               "expected": _short(expected[i]), "got": _short(got[i]) if i < len(got) else None,
               "delivered": len(got), "sent": len(expected), "deflate": case["deflate"]}
    elif len(got) > len(expected):
        mech, what = "recv/extra-message", tag + ": more messages delivered than sent"
        wit = {"extra": _short(got[len(expected)]), "sent": len(expected)}
    else:
        mech, what = "recv/aborted-after-all-legal-frames", tag + ": connection aborted although every frame was legal"
        wit = {"role": case["role"], "delivered": len(got)}
    ctx.violation(mech, what, wit)
    return False


def _short(v):
    if v is None:
        return None
    return {"type": type(v).__name__, "len": len(v), "head": v[:40], "h": core.h64(v)}


def judge_sent(ctx, case, events, expected, masked, tag):
    """Compare what the reference codec decoded from tornado's frames with what the application wrote."""
    ctx.count("oracle_evals")
    errs = [e for e in events if e[0] == "error"]
    if errs:
        key = errs[0][1]
        if key == "inflate-failed":
            side = "client" if masked else "server"
            nct = (side + "_no_context_takeover") in ((case["deflate"] or {}).get("agreed") or {})
            ctx.violation("send/inflate-failed/" + ("no-context-takeover-agreed" if nct else "context-takeover"),
                          tag + ": a receiver using the negotiated parameters cannot inflate tornado's message"
                          + (" (tornado kept its LZ77 context although %s_no_context_takeover was agreed)" % side
                             if nct else ""),
                          {"role": case["role"], "errors": errs[:3], "agreed": case["deflate"].get("agreed")})
            return False
        ctx.violation("send/frame-anomaly/" + key, tag + ": tornado emitted a frame the RFC forbids",
                      {"role": case["role"], "errors": errs[:3]})
        return False
    got = [e for e in events if e[0] == "msg"]
    for i, value in enumerate(expected):
        raw = value.encode("utf-8") if isinstance(value, str) else value
        op = ws.OP_TEXT if isinstance(value, str) else ws.OP_BIN
        if i >= len(got):
            ctx.violation("send/missing/" + _lenclass(len(raw)), tag + ": a written message never reached the peer",
                          {"role": case["role"], "index": i, "n": len(raw), "decoded": len(got)})
            return False
        if got[i][1] != op or got[i][2] != raw:
            shape = "wrong-opcode" if got[i][1] != op else "altered"
            ctx.violation("send/%s/%s%s" % (shape, "deflate+" if got[i][3]["compressed"] else "", _lenclass(len(raw))),
                          tag + ": the peer decoded a different message than the application wrote",
                          {"role": case["role"], "index": i, "expected": _short(raw), "got": _short(got[i][2]),
                           "info": got[i][3], "deflate": case["deflate"]})
            return False
    if len(got) > len(expected):
        ctx.violation("send/extra-message", tag + ": peer decoded more messages than written", {"n": len(got)})
        return False
    return True


def _lenclass(n):
    return "len7" if n < 126 else ("len16" if n <= 0xFFFF else "len64")


def values_of(msgs):
    return [content(m["t"], m["n"], m["kind"], m["seed"]) for m in msgs]


async def _send_down(write, values, peer):
    """Returns None, or the exception a write raised (only legitimate after an abort reported elsewhere)."""
    err = None
    for v in values:
        try:
            write(v, binary=isinstance(v, bytes))
        except Exception as e:
            err = e
            break
    await ws_rig.pump_until_idle(peer)
    return err


async def session_server(case, ctx):
    rng = random.Random(case["seed"])
    d = case["deflate"]
    rec = ws_rig.Rec()
    H = ws_rig.make_handler(rec, compression=(d["opts"] if d else None))
    plan = read_plan_for(rng, case["plan"]) if case["plan"] != "one" else [1] * 3000
    s = ws_rig.ServerSession(H, read_plan=plan)
    try:
        hd = ws.std_client_headers(ws_rig.HOST, ws_rig.KEY,
                                   extensions=ws_rig.deflate_offer(d["params"]) if d else None)
        head = await s.handshake(hd)
        if head is None or head.status != 101 or rec.handler is None:
            ctx.violation("handshake/server-refused-valid-upgrade", "valid upgrade request not completed",
                          {"first": head and head.first, "deflate": d})
            return
        agreed = agreed_from(head.get("Sec-WebSocket-Extensions"))
        if d and agreed is None:
            ctx.violation("handshake/deflate-offered-enabled-not-negotiated", "deflate offered and enabled, no response",
                          {"deflate": d})
            return
        defl = infl = None
        if agreed is not None:
            d = dict(d, agreed=agreed)
            case = dict(case, deflate=d)
            defl, infl = codecs_for(agreed, "client", d)
        data, expected, feats = peer_stream(case["up"], defl, True, rng)
        down = values_of(case["down"])
        asm = ws.MessageAssembler(infl, expect_masked=False)

        async def do_up():
            await s.peer.send(data, cuts_for(rng, len(data), _seg(case, len(data))))
            await ws_rig.pump_until_idle(s.peer)

        werr = []

        async def do_down():
            werr.append(await _send_down(rec.handler.write_message, down, s.peer))

        if case["order"] == "down-up":
            await do_down()
            await do_up()
        else:
            await do_up()
            await do_down()
        frames = s.frames()
        asm.feed_frames(frames)
        closed = any(e[0] == "close" for e in asm.events)
        ok = judge_recv(ctx, case, rec.messages(), expected, feats, s.peer.eof or closed or rec.count("close") > 0,
                        "raw client -> tornado server")
        if ok and werr and werr[0] is not None:
            ctx.violation("send/write-raised-on-open-connection", "write_message raised on a healthy connection",
                          {"err": repr(werr[0]), "role": "server"})
        elif ok or not (s.peer.eof or closed):
            judge_sent(ctx, case, asm.events, down, False, "tornado server -> raw client")
        _account(ctx, feats, down)
    finally:
        await s.close()


def _seg(case, total):
    if case["seg"] == "bytes" and total > 400:
        return "random"
    return case["seg"]


async def session_client(case, ctx):
    rng = random.Random(case["seed"])
    d = case["deflate"]
    rec = ws_rig.Rec()
    kw = {}
    if d:
        kw["compression_options"] = d["opts"]
    c = ws_rig.ClientSession(rec, callback_style=(case["reader"] == "callback"), **kw)
    reader = None
    try:
        c.start()
        req = await c.accept()
        if req is None:
            raise RuntimeError("client did not connect")
        ext = None
        if d:
            ext = ws_rig.deflate_offer(d["params"])
        conn = await c.respond(ws.server_response(key=req.get("Sec-WebSocket-Key"), extensions=ext))
        if conn is None:
            ctx.violation("handshake/client-refused-valid-response", "valid handshake response rejected by the client",
                          {"error": repr(c.error), "extensions": ext})
            return
        if case["reader"] == "queue":
            reader = _queue_reader(conn, rec)
        defl = infl = None
        if d:
            d = dict(d, agreed=d["params"])
            case = dict(case, deflate=d)
            defl, infl = codecs_for(d["params"], "server", d)
        data, expected, feats = peer_stream(case["up"], defl, False, rng)
        down = values_of(case["down"])
        asm = ws.MessageAssembler(infl, expect_masked=True)

        async def do_up():
            await c.peer.send(data, cuts_for(rng, len(data), _seg(case, len(data))))
            await ws_rig.pump_until_idle(c.peer)

        werr = []

        async def do_down():
            werr.append(await _send_down(conn.write_message, down, c.peer))

        if case["order"] == "down-up":
            await do_down()
            await do_up()
        else:
            await do_up()
            await do_down()
        asm.feed_frames(c.frames())
        closed = any(e[0] == "close" for e in asm.events)
        ok = judge_recv(ctx, case, rec.messages(), expected, feats, c.peer.eof or closed or rec.count("close_msg") > 0,
                        "raw server -> tornado client")
        if ok and werr and werr[0] is not None:
            ctx.violation("send/write-raised-on-open-connection", "write_message raised on a healthy connection",
                          {"err": repr(werr[0]), "role": "client"})
        elif ok or not (c.peer.eof or closed):
            judge_sent(ctx, case, asm.events, down, True, "tornado client -> raw server")
        _account(ctx, feats, down)
    finally:
        if reader is not None:
            reader.cancel()
        await c.close()


def _queue_reader(conn, rec):
    import asyncio

    async def loop():
        while True:
            m = await conn.read_message()
            if m is None:
                rec.add("close_msg")
                return
            rec.add("msg", m)
    return asyncio.ensure_future(loop())


async def session_t2t(case, ctx):
    """tornado client <-> tornado server; 'up' = client->server, 'down' = server->client."""
    rng = random.Random(case["seed"])
    d = case["deflate"]
    rec_s, rec_c = ws_rig.Rec(), ws_rig.Rec()
    H = ws_rig.make_handler(rec_s, compression=(d["opts"] if d else None))
    import tornado.web
    from vf.wire import ServerRig
    rig = ServerRig(tornado.web.Application([("/ws", H)]), record=False)
    kw = {"compression_options": d["opts"]} if d else {}
    c = ws_rig.ClientSession(rec_c, callback_style=(case["reader"] == "callback"), **kw)
    reader = None
    try:
        c.start()
        await settle()
        sock = ws_rig.listener().accept()
        plan = read_plan_for(rng, case["plan"]) if case["plan"] != "one" else [1] * 3000
        st = ScriptedIOStream(sock, read_plan=plan)
        rig.streams.append(st)
        rig.server.handle_stream(st, ("127.0.0.1", 9999))
        try:
            conn = await c.future
        except Exception as e:
            ctx.violation("handshake/t2t-failed", "tornado client could not connect to tornado server", {"err": repr(e)})
            return
        c.conn = conn
        await settle()
        if rec_s.handler is None:
            ctx.violation("handshake/t2t-no-open", "server handler never opened", {})
            return
        if case["reader"] == "queue":
            reader = _queue_reader(conn, rec_c)
        up, down = values_of(case["up"]), values_of(case["down"])
        seq = [("u", v) for v in up] + [("d", v) for v in down]
        if case["order"] == "down-up":
            seq = [("d", v) for v in down] + [("u", v) for v in up]
        elif case["order"] == "interleave":
            tags = ["u"] * len(up) + ["d"] * len(down)
            rng.shuffle(tags)
            ui, di = iter(up), iter(down)
            seq = [(k, next(ui) if k == "u" else next(di)) for k in tags]
        for k, v in seq:
            if k == "u":
                conn.write_message(v, binary=isinstance(v, bytes))
            else:
                rec_s.handler.write_message(v, binary=isinstance(v, bytes))
            if rng.random() < 0.5:
                await settle()
        await settle(3)
        fu = [{"z": bool(d), "frag": False, "ctl": False, "n": m["n"], "t": m["t"], "wire": m["n"]} for m in case["up"]]
        fd = [{"z": bool(d), "frag": False, "ctl": False, "n": m["n"], "t": m["t"], "wire": m["n"]} for m in case["down"]]
        judge_recv(ctx, case, rec_s.messages(), up, fu, rec_s.count("close") > 0, "tornado client -> tornado server")
        judge_recv(ctx, case, rec_c.messages(), down, fd, rec_c.count("close_msg") > 0, "tornado server -> tornado client")
        ctx.count("t2t_sessions")
        ctx.count("up_messages", len(up))
        ctx.count("down_messages", len(down))
        if d:
            ctx.count("compressed_messages", len(up) + len(down))
    finally:
        if reader is not None:
            reader.cancel()
        await c.close()
        await rig.close()


def _account(ctx, feats, down):
    ctx.count("up_messages", len(feats))
    ctx.count("down_messages", len(down))
    ctx.count("fragmented_messages", sum(1 for f in feats if f["frag"]))
    ctx.count("compressed_messages", sum(1 for f in feats if f["z"]))
    ctx.count("ctl_in_gap", sum(1 for f in feats if f["ctl"]))
    ctx.count("boundary_messages", sum(1 for f in feats if f["n"] in BOUNDARY))


def codec_selfcheck(ctx):
    """Round trip of the reference codec against itself (printer self-check)."""
    r = random.Random(5)
    for wb in (9, 12, 15):
        for nct in (False, True):
            d, i = ws.Deflater(wb, nct, 6, 8), ws.Inflater(wb, nct)
            p = ws.FrameParser()
            asm = ws.MessageAssembler(i)
            sent = []
            for n in (0, 1, 125, 126, 70000):
                raw = r.randbytes(n // 2) + b"ab" * (n - n // 2)
                raw = raw[:n]
                z = d.compress(raw, blocks=2)
                k = r.randbytes(4)
                cut = len(z) // 2
                asm.feed_frames(p.feed(ws.build_frame(2, z[:cut], fin=False, rsv=4, mask=k)
                                       + ws.build_frame(9, b"x", mask=k) + ws.build_frame(0, z[cut:], mask=k)))
                sent.append(raw)
            got = [e[2] for e in asm.events if e[0] == "msg"]
            if got != sent or any(e[0] == "error" for e in asm.events):
                raise RuntimeError("reference codec self-check failed")
    ctx.count("codec_selfchecks")


_checked = False


def run_case(case, ctx):
    global _checked
    if not _checked:
        codec_selfcheck(ctx)
        _checked = True
    fn = {"server": session_server, "client": session_client, "t2t": session_t2t}[case["role"]]
    before = ctx.counters.get("violations_raw", 0)
    with LogMon() as lm:
        vloop.run(fn, case, ctx)
    bad = lm.uncaught()
    ctx.count("oracle_evals")
    # a mismatch already reported for this session explains follow-up tracebacks (desynchronised inflater)
    if bad and ctx.counters.get("violations_raw", 0) == before:
        ctx.violation("log/uncaught-exception-in-legal-session", "legal session produced an uncaught-exception log record",
                      {"records": bad[:3], "role": case["role"]})
    msgs = case["up"] + case["down"]
    nontriv = any(m.get("cuts") or m.get("z") or m["n"] in BOUNDARY for m in msgs) or bool(case["deflate"])
    new = ctx.mark(case, nontriv)
    ctx.seen("deflate_param_sets", repr(sorted((case["deflate"] or {}).get("params", {"off": 1}).items())))
    if new and nontriv:
        ctx.sample({"role": case["role"], "deflate": case["deflate"] and case["deflate"]["params"],
                    "up": [(m["t"], m["n"], m.get("z"), m.get("cuts"), m.get("ctl")) for m in case["up"]][:3]})
