"""C47 — the WSGI container presents requests and responses faithfully.

Generated HTTP/1.x requests are sent to a real HTTPServer(WSGIContainer(app)).  The WSGI app
captures a copy of the environ it is handed (and the bytes of wsgi.input) and answers with a
generated status / header list / body; the environ is compared with an independent PEP 3333 /
RFC 3875 construction (vf/refs/wsgienv.py) and the response, delimited by the strict response
reader, with what the app produced.  Engine: virtual loop + ServerRig (no executor) and a small
real-loop slice with a ThreadPoolExecutor.
"""
from __future__ import annotations

import asyncio
import socket

from vf import core, vloop
from vf.logmon import LogMon
from vf.refs import http as rh
from vf.refs import wsgienv as we
from vf.wire import ServerRig

core.use_repo()
from tornado.httpserver import HTTPServer  # noqa: E402
from tornado.netutil import bind_sockets  # noqa: E402
from tornado.wsgi import WSGIContainer  # noqa: E402

PROP = "C47"
META = {
    "level": "exploration",
    "technique": "independent PEP 3333 environ construction + strict response reader around a recording WSGI app on a "
                 "real HTTPServer(WSGIContainer(app))",
    "level_text": "Generated requests (methods, paths with percent-escapes, query strings, Host forms incl. IPv6 literals, "
                  "ports and empty ports, repeated and content headers, bodies) are served through the real HTTP server "
                  "and WSGIContainer; the environ captured by the app is compared key by key with a PEP 3333/RFC 3875 "
                  "reference and the response bytes (status, reason, header multimap, body) with what the app produced.",
    "level_note": "SERVER_NAME is accepted with or without IPv6 brackets and case-insensitively, ports numerically; "
                  "absent CONTENT_TYPE/CONTENT_LENGTH may be absent or empty; header order across different names and "
                  "header-name case are not compared; Content-Length/Content-Type/Server/Connection/Keep-Alive/Date may "
                  "be added when the app did not set them. Apps obey PEP 3333 (bytes bodies, latin-1 header strings, no "
                  "hop-by-hop headers, no body with 204/304).",
    "design_ref": "DESIGN.md §4 C47",
    "engine": "wire",
}
RULE = ("requests: method x path atoms {a, %20, %2F, %C3%A9, %00, %zz, +, ., ;p, ...} x optional query x Host forms x 0-4 "
        "extra headers (repeats, latin-1 values) x optional body; apps: status with odd reasons, 0-5 headers (duplicate "
        "Set-Cookie, explicit or absent Content-Length/Type/Server, latin-1 values, empty values), body as list / "
        "generator / iterable with close() / write() callable. Non-trivial if the path has an escape or the Host has a "
        "port or IPv6 literal or the response has a repeated header; distinct by request bytes + app description.")
FLOORS = {"quick": 2500, "thorough": 250000}
ASSUMPTIONS = [
    "the WSGI app obeys PEP 3333 (bytes chunks, native-string headers, no hop-by-hop headers, empty body for 204/304)",
    "request targets are origin-form ASCII; Host values outside RFC 3986 host[:port] only get the never-raises half",
    "SERVER_NAME/SERVER_PORT are derived from the Host header (the statement says so); without Host they are not compared",
    "wsgi.url_scheme must be http without scheme headers; with X-Scheme (xheaders) it must be http or https and the "
    "default SERVER_PORT must agree with it",
]
REQUIRED_COUNTERS = ["oracle_evals", "environ_evals", "response_evals", "host_with_port", "host_ipv6", "host_empty_port",
                     "executor_cases", "vloop_cases", "path_with_escape"]

PATH_ATOMS = ["a", "b", "index.html", "%20", "%2F", "%2f", "%C3%A9", "%00", "%zz", "%", "+", ".", "..", ";p=1", "~u",
              "%E6%BC%A2", "%41", "%7e", "$", "(x)", "*", "a=b", "&", ":", "@", "%25", "%3F"]
HOSTS = ["example.com", "example.com:8080", "EXAMPLE.Com", "127.0.0.1", "127.0.0.1:8080", "[::1]", "[::1]:8080",
         "example.com:", "[2001:db8::1]:443", "[::1]:", "localhost:80", "a.b-c.d:65535", "example.com:080",
         "example.com:80", "example.com:443", "[::ffff:1.2.3.4]:1", "xn--nxasmq6b.example", "example.com:12345678901"]
ODD_HOSTS = ["a:b:c", "::1", "[::1", "::1]:80", ":80", ":", "[]", "[]:1", "a:1:2", "example.com:8080:", "[::1]x:1"]
METHODS = ["GET", "GET", "POST", "PUT", "DELETE", "HEAD", "OPTIONS", "PATCH", "FOO"]
REQ_HDRS = [("Accept", "text/html, */*;q=0.1"), ("Cookie", "a=1; b=2"), ("X-Custom", "v1"), ("X-Custom", "v2"),
            ("x-custom", "v3"), ("User-Agent", "ua/1.0 (x; y)"), ("X-Latin", "caf\xe9"), ("X-Empty", ""),
            ("Accept-Encoding", "gzip"), ("If-None-Match", '"abc"'), ("Content-Type", "text/plain; charset=utf-8"),
            ("Content-Type", "application/x-www-form-urlencoded"), ("Referer", "http://x/?a=b,c"),
            ("X-Forwarded-For", "1.2.3.4"), ("Authorization", "Basic Zm9vOmJhcg=="), ("CONTENT-TYPE", "a/b")]
STATUSES = ["200 OK", "200 OK", "201 Created", "404 Not Found", "500 Internal Server Error", "200 ", "299 Tr\xe8s bien",
            "200 OK OK  OK", "418 I'm a teapot", "304 Not Modified", "204 No Content", "302 Found", "200 okay; really?"]
RESP_HDRS = [("Content-Type", "text/plain"), ("Content-Type", "application/json; charset=utf-8"),
             ("Set-Cookie", "a=1; Path=/"), ("Set-Cookie", "b=2"), ("set-cookie", "c=3; HttpOnly"), ("X-A", "1"),
             ("X-A", "2"), ("x-a", "3"), ("X-Latin", "caf\xe9"), ("X-Empty", ""), ("Server", "my/1.0"),
             ("Location", "/x?y=1,2"), ("Cache-Control", "no-cache, no-store"), ("ETag", '"x"'), ("Vary", "Accept"),
             ("X-Long", "v" * 300), ("Content-Language", "en")]
CHUNKS = [b"", b"x", b"hello", b"\r\n", b"\x00\xff", b"0\r\n\r\n", b"HTTP/1.1 200 OK\r\n\r\n", b"a" * 1000, b"\xc3\xa9"]


def gen_case(rng, engine):
    method = rng.choice(METHODS)
    path = "/" + "/".join("".join(rng.choice(PATH_ATOMS) for _ in range(rng.randint(0, 2)))
                          for _ in range(rng.randint(0, 3)))
    if rng.random() < 0.1:
        path = rng.choice(["/", "//", "/a//b", "/a/./b", "/a/../b"])
    target = path
    if rng.random() < 0.4:
        target += "?" + rng.choice(["", "a=1", "a=1&b=%20", "x?y", "q=%C3%A9+z", "a=b=c&&", "%zz", "a;b"])
    version = "HTTP/1.1" if rng.random() < 0.85 else "HTTP/1.0"
    r = rng.random()
    hostclass = "std"
    if r < 0.85:
        host = rng.choice(HOSTS)
    elif r < 0.95:
        host = rng.choice(ODD_HOSTS)
        hostclass = "odd"
    else:
        host = None
        hostclass = "none"
        version = "HTTP/1.0"
    headers = []
    if host is not None:
        headers.append((rng.choice(["Host", "host", "HOST"]), host))
    for _ in range(rng.randint(0, 4)):
        headers.append(rng.choice(REQ_HDRS))
    xheaders = rng.random() < 0.25
    if xheaders and rng.random() < 0.7:
        headers.append(("X-Scheme", rng.choice(["https", "http", "https", "ftp"])))
    body = b""
    if method in ("POST", "PUT", "PATCH") or rng.random() < 0.05:
        body = rng.choice([b"", b"a=1&b=2", b"\x00\xff" * 10, b"x" * 3000, b"{}"])
        headers.append(("Content-Length", str(len(body))))
    if version == "HTTP/1.0" and rng.random() < 0.5:
        headers.append(("Connection", "keep-alive"))
    rng.shuffle(headers)
    status = rng.choice(STATUSES)
    code = int(status[:3])
    rh_ = [rng.choice(RESP_HDRS) for _ in range(rng.randint(0, 5))]
    chunks = [] if code in (204, 304) else [rng.choice(CHUNKS) for _ in range(rng.randint(0, 4))]
    total = sum(len(c) for c in chunks)
    if rng.random() < 0.3 and code not in (204, 304):
        rh_.append(("Content-Length", str(total)))
    via = rng.choice(["list", "gen", "iter_close", "write", "tuple", "mixed"])
    return {"engine": engine, "method": method, "target": target, "version": version, "headers": headers,
            "body": body, "hostclass": hostclass, "xheaders": xheaders,
            "app": {"status": status, "headers": rh_, "chunks": chunks, "via": via}}


def shards(tier, seed):
    q = tier == "quick"
    out = []
    for j in range(10):
        out.append({"engine": "vloop", "n": 450 if q else 40000, "j": j})
    for j in range(3):
        out.append({"engine": "real", "n": 200 if q else 12000, "j": j})
    return out


def gen_cases(spec):
    rng = core.rng_for(spec["seed"], PROP, f"{spec['engine']}:{spec['j']}")
    for _ in range(spec["n"]):
        yield gen_case(rng, spec["engine"])


def directed_cases():
    base = {"engine": "vloop", "method": "GET", "target": "/", "version": "HTTP/1.1", "body": b"", "hostclass": "std",
            "xheaders": False, "app": {"status": "200 OK", "headers": [], "chunks": [b"ok"], "via": "list"}}
    for h in ("example.com:", "[::1]:8080", "[::1]:", "[2001:db8::1]:443", "example.com:8080", "[::1]"):
        yield dict(base, headers=[("Host", h)])
    yield dict(base, headers=[("Host", "a:b:c")], hostclass="odd")


# ---------------------------------------------------------------------------
# recording app

class Closable:
    def __init__(self, chunks, log):
        self.it = iter(chunks)
        self.log = log

    def __iter__(self):
        return self

    def __next__(self):
        return next(self.it)

    def close(self):
        self.log.append("close")


def make_wsgi_app(box):
    """box: dict filled per request with 'app' (behaviour) before the request and 'environ' after."""
    def app(environ, start_response):
        beh = box["app"]
        env = dict(environ)
        try:
            env["wsgi.input.read"] = environ["wsgi.input"].read()
        except Exception as e:  # noqa: BLE001
            env["wsgi.input.read"] = e
        box["environ"] = env
        box["calls"] = box.get("calls", 0) + 1
        write = start_response(beh["status"], list(beh["headers"]))
        chunks = list(beh["chunks"])
        via = beh["via"]
        if via == "write":
            for c in chunks:
                write(c)
            return []
        if via == "mixed" and chunks:
            write(chunks[0])
            return chunks[1:]
        if via == "gen":
            def g():
                yield from chunks
            return g()
        if via == "iter_close":
            return Closable(chunks, box.setdefault("closelog", []))
        if via == "tuple":
            return tuple(chunks)
        return chunks
    return app


def request_bytes(case):
    lines = [f"{case['method']} {case['target']} {case['version']}"]
    for n, v in case["headers"]:
        lines.append(f"{n}: {v}")
    return ("\r\n".join(lines) + "\r\n\r\n").encode("latin-1") + case["body"]


async def run_vloop(case, box):
    rig = ServerRig(WSGIContainer(make_wsgi_app(box)), record=False, xheaders=case["xheaders"])
    peer = rig.connect()
    resp = None
    try:
        await peer.send(request_bytes(case))
        for _ in range(80):
            try:
                resp = rh.read_response(bytes(peer.rx), case["method"], eof=peer.eof)
                break
            except rh.Incomplete:
                if peer.eof:
                    break
                await peer.drain(1)
            except (rh.Reject, rh.Unspec) as e:
                resp = e
                break
    finally:
        raw = bytes(peer.rx)
        peer.close()
        await rig.close()
    return resp, raw


class HookedLogMon(LogMon):
    """LogMon that also tells the real-loop client that the server logged an error (so the client
    stops waiting for a response that will never come - a structural signal, not a timeout)."""

    def __init__(self, hook=None):
        super().__init__()
        self.hook = hook

    def emit(self, record):
        super().emit(record)
        if self.hook is not None and record.levelname in ("ERROR", "CRITICAL"):
            self.hook()


class RealRig:
    def __init__(self):
        from concurrent.futures import ThreadPoolExecutor
        self.loop = asyncio.new_event_loop()
        self.err = None
        self.box = {}
        self.pool = ThreadPoolExecutor(2)
        self.servers = {}

    def server_for(self, xheaders):
        if xheaders not in self.servers:
            socks = bind_sockets(0, "127.0.0.1", family=socket.AF_INET)
            srv = HTTPServer(WSGIContainer(make_wsgi_app(self.box), executor=self.pool), xheaders=xheaders)
            srv.add_sockets(socks)
            self.servers[xheaders] = (srv, socks[0].getsockname()[1])
        return self.servers[xheaders]

    async def run(self, case):
        srv, port = self.server_for(case["xheaders"])
        loop = asyncio.get_running_loop()
        s = socket.socket(socket.AF_INET, socket.SOCK_STREAM)
        s.setblocking(False)
        buf = bytearray()
        resp = None
        eof = False
        if self.err is None:
            self.err = asyncio.Event()
        self.err.clear()
        try:
            await loop.sock_connect(s, ("127.0.0.1", port))
            await loop.sock_sendall(s, request_bytes(case))
            while True:
                try:
                    resp = rh.read_response(bytes(buf), case["method"], eof=eof)
                    break
                except rh.Incomplete:
                    if eof:
                        break
                    rt = asyncio.ensure_future(loop.sock_recv(s, 65536))
                    et = asyncio.ensure_future(self.err.wait())
                    await asyncio.wait({rt, et}, return_when=asyncio.FIRST_COMPLETED)
                    et.cancel()
                    if not rt.done():
                        rt.cancel()
                        break
                    d = rt.result()
                    if not d:
                        eof = True
                    buf += d
                except (rh.Reject, rh.Unspec) as e:
                    resp = e
                    break
        finally:
            s.close()
        return resp, bytes(buf)

    def close(self):
        async def shut():
            for srv, _p in self.servers.values():
                srv.stop()
                await srv.close_all_connections()
        try:
            self.loop.run_until_complete(shut())
        finally:
            self.pool.shutdown(wait=True)
            self.loop.close()


_REAL = None


def finish_shard(spec, ctx):
    global _REAL
    if _REAL is not None:
        _REAL.close()
        _REAL = None
        asyncio.set_event_loop(None)


# ---------------------------------------------------------------------------
# judgement

ADDABLE = {"content-length", "content-type", "server", "connection", "keep-alive", "date"}


def host_tag(case):
    h = next((v for n, v in case["headers"] if n.lower() == "host"), None)
    if h is None:
        return "no-host"
    sp = we.split_authority(h)
    if sp is None:
        return "malformed-host"
    name, port = sp
    t = "ipv6-literal" if name.startswith("[") else "name"
    if port is None:
        return t
    return t + ("-empty-port" if port == "" else "-with-port")


def check_environ(case, env, ctx):
    exp = we.expected_environ(case["method"], case["target"], case["version"],
                              case["headers"], case["body"])
    ctx.count("environ_evals")
    wit = {"request": request_bytes(case)[:600], "environ": {k: repr(v)[:200] for k, v in env.items()
                                                               if k.isupper() or k.startswith("wsgi.url")}}

    def bad(mech, what, **kw):
        ctx.violation(mech, what, dict(wit, **kw))

    for k, v in env.items():
        if (k.isupper() or k.startswith("HTTP_")) and not isinstance(v, str):
            bad("environ/cgi-variable-not-str", "a CGI variable is not a native string", key=k)
    for k in ("REQUEST_METHOD", "QUERY_STRING", "SERVER_PROTOCOL", "wsgi.version"):
        if env.get(k) != exp[k][1]:
            bad(f"environ/{k}-differs", f"{k} differs from the request", key=k, got=repr(env.get(k)), want=repr(exp[k][1]))
    for k in ("SERVER_NAME", "SERVER_PORT", "PATH_INFO"):
        if k not in env:
            bad(f"environ/{k}-missing", f"required variable {k} missing")
    got_path = (env.get("SCRIPT_NAME") or "") + (env.get("PATH_INFO") or "")
    if got_path != exp["_path"]:
        bad("environ/PATH_INFO-not-percent-decoded-path", "SCRIPT_NAME + PATH_INFO is not the percent-decoded request path",
            got=repr(got_path), want=repr(exp["_path"]))
    for k, spec in exp.items():
        if k.startswith("_") or k in ("REQUEST_METHOD", "QUERY_STRING", "SERVER_PROTOCOL", "wsgi.version"):
            continue
        kind = spec[0]
        if kind == "absent_or":
            if k in env and env[k] != spec[1]:
                bad(f"environ/{k}-present-without-header", f"{k} set although the request has no such header", got=repr(env[k]))
        elif kind == "list":
            if k not in env:
                label = k if k in ("CONTENT_TYPE", "CONTENT_LENGTH") else "HTTP_*"
                bad(f"environ/{label}-missing", "a request header is missing from the environ", key=k)
            elif isinstance(env[k], str) and we.norm_list(env[k]) != spec[1]:
                label = k if k in ("CONTENT_TYPE", "CONTENT_LENGTH") else "HTTP_*"
                bad(f"environ/{label}-value-differs", "a request header value differs in the environ", key=k,
                    got=repr(env[k]), want=spec[1])
    extra = [k for k in env if k.startswith("HTTP_") and k not in exp and k not in ("HTTP_CONTENT_TYPE", "HTTP_CONTENT_LENGTH")]
    if extra:
        bad("environ/HTTP_*-not-in-request", "environ has HTTP_ variables for headers the request does not carry", keys=extra)
    if any(k in env for k in ("HTTP_CONTENT_TYPE", "HTTP_CONTENT_LENGTH")):
        ctx.count("unspecified_http_content_vars_present")
    scheme = env.get("wsgi.url_scheme")
    has_scheme_hdr = any(n.lower() in ("x-scheme", "x-forwarded-proto") for n, _v in case["headers"])
    if scheme not in ("http", "https") or (scheme != "http" and not (has_scheme_hdr and case["xheaders"])):
        bad("environ/url_scheme-wrong", "wsgi.url_scheme is not the scheme of the connection", got=repr(scheme))
    if case["hostclass"] == "std" and "_server_name" in exp:
        tag = host_tag(case)
        ctx.count({"name": "host_plain", "ipv6-literal": "host_ipv6"}.get(tag, "host_with_port"
                  if tag.endswith("with-port") else "host_empty_port"))
        if tag.startswith("ipv6"):
            ctx.count("host_ipv6")
        sn = env.get("SERVER_NAME")
        if not isinstance(sn, str) or sn.lower() not in exp["_server_name"]:
            bad(f"environ/SERVER_NAME-not-host-name/{tag}", "SERVER_NAME is not the host name of the Host header",
                got=repr(sn), want=sorted(exp["_server_name"]))
        sp = env.get("SERVER_PORT")
        want_port = exp["_server_port"] or ("443" if scheme == "https" else "80")
        ok = isinstance(sp, str) and sp.isdigit() and sp.isascii() and int(sp) == int(want_port)
        if not ok:
            bad(f"environ/SERVER_PORT-not-host-port/{tag}", "SERVER_PORT is not the port of the Host header "
                "(or the scheme's default)", got=repr(sp), want=want_port)
    else:
        ctx.count("unspecified_server_name_" + case["hostclass"])
    if env.get("wsgi.input.read") != case["body"]:
        bad("environ/wsgi.input-differs", "wsgi.input does not yield the request body",
            got=repr(env.get("wsgi.input.read"))[:200])
    for k in ("wsgi.errors", "wsgi.multithread", "wsgi.multiprocess", "wsgi.run_once", "wsgi.input"):
        if k not in env:
            bad("environ/wsgi-key-missing", "a required wsgi.* key is missing", key=k)
    ctx.count("oracle_evals")


def check_response(case, resp, raw, ctx):
    beh = case["app"]
    ctx.count("response_evals")
    wit = {"app": {"status": beh["status"], "headers": beh["headers"], "via": beh["via"],
                   "body": b"".join(beh["chunks"])[:300]}, "raw_response": raw[:800], "request": request_bytes(case)[:300]}
    if not isinstance(resp, rh.Response):
        ctx.violation("response/not-a-well-formed-response", "the client did not receive a complete well-formed response",
                      dict(wit, reader=repr(resp)))
        return
    code_s, _, reason = beh["status"].partition(" ")
    if resp.status != int(code_s):
        ctx.violation("response/status-code-differs", "status code differs from the app's", dict(wit, got=resp.status))
    if resp.reason not in (reason.encode("latin-1"), reason.encode("utf-8")):  # encoding of obs-text is not pinned
        ctx.violation("response/reason-differs", "reason phrase differs from the app's", dict(wit, got=resp.reason))
    want = {}
    for n, v in beh["headers"]:
        want.setdefault(n.lower(), []).append(v.encode("latin-1"))
    got = {}
    for n, v in resp.headers:
        got.setdefault(n.lower().decode("latin-1"), []).append(v)
    for n, vals in want.items():
        if got.get(n) != vals:
            ctx.violation("response/header-values-differ" if n in got else "response/header-missing",
                          "a header produced by the app does not reach the client unchanged",
                          dict(wit, name=n, got=got.get(n), want=vals))
    for n in got:
        if n not in want and n not in ADDABLE:
            ctx.violation("response/unexpected-header", "the response carries a header the app did not produce",
                          dict(wit, name=n, value=got[n]))
    if case["method"] != "HEAD":
        body = b"".join(beh["chunks"])
        if resp.body != body:
            ctx.violation("response/body-differs", "the body differs from what the app produced",
                          dict(wit, got=resp.body[:300], got_len=len(resp.body), want_len=len(body)))
    ctx.count("oracle_evals")


def nontrivial(case):
    h = next((v for n, v in case["headers"] if n.lower() == "host"), "")
    names = [n.lower() for n, _v in case["app"]["headers"]]
    return "%" in case["target"] or ":" in h or len(names) != len(set(names))


def run_case(case, ctx):
    global _REAL
    box = {"app": case["app"]}
    hook = None
    if case["engine"] == "real":
        if _REAL is None:
            _REAL = RealRig()
            asyncio.set_event_loop(_REAL.loop)
        _rig = _REAL
        hook = lambda: _rig.loop.call_soon_threadsafe(lambda: _rig.err is not None and _rig.err.set())  # noqa: E731
    with HookedLogMon(hook) as lm:
        if case["engine"] == "vloop":
            resp, raw = vloop.run(run_vloop, case, box, collect=False)
            ctx.count("vloop_cases")
        else:
            if _REAL is None:
                _REAL = RealRig()
                asyncio.set_event_loop(_REAL.loop)
            rig = _REAL
            rig.box.clear()
            rig.box["app"] = case["app"]

            async def go():
                return await asyncio.wait_for(rig.run(case), 60)  # watchdog only
            resp, raw = rig.loop.run_until_complete(go())
            box = dict(rig.box)
            ctx.count("executor_cases")
    nt = nontrivial(case)
    ctx.mark((request_bytes(case), repr(case["app"]), case["xheaders"], case["engine"]), nt)
    if "%" in case["target"].partition("?")[0]:
        ctx.count("path_with_escape")
    if nt:
        ctx.sample({"request": request_bytes(case)[:200], "app_status": case["app"]["status"]})
    env = box.get("environ")
    unc = lm.uncaught()
    if env is None:
        # the app was never called: either the server refused the request (not 'accepted') or environ() raised
        refused = isinstance(resp, rh.Response) and resp.status in (400, 431, 413, 505)
        if refused and not unc:
            ctx.count("request_refused_by_server")
            return
        exc = next((u.get("exc") for u in unc if u.get("exc")), None)
        ctx.violation(f"environ/building-raised-{exc or 'unknown'}/{host_tag(case)}",
                      "the server accepted the request but the WSGI application was never called "
                      "(building the environ raised)",
                      {"request": request_bytes(case)[:600], "log": unc[:2], "response": raw[:200]})
        return
    ctx.check(box.get("calls") == 1, "app/called-more-than-once", "the WSGI app was called more than once", {})
    check_environ(case, env, ctx)
    if case["method"] == "HEAD" and any(case["app"]["chunks"]):
        # whether an app may hand a body to the server for HEAD is not pinned (PEP 3333 is silent)
        ctx.count("unspecified_head_with_body")
        return
    check_response(case, resp, raw, ctx)
    if case["app"]["via"] == "iter_close":
        ctx.count("close_called_once" if box.get("closelog") == ["close"] else "unspecified_close_not_called_once")
    ctx.check(not unc, "log/uncaught-exception", "an uncaught exception was logged while serving a WSGI request",
              {"records": unc[:3], "request": request_bytes(case)[:300]})
