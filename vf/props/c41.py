"""C41 — fork_processes restarts exactly the abnormally exited workers, with the same id, up to the budget.

Fault enumeration over exit histories.  `tornado.process.os` is replaced (harness side) by a proxy that
scripts fork() and wait(); everything else (WIFSIGNALED & co, urandom, getpid) is the real os module,
sys.exit is the real one and is observed as SystemExit.  The real fork_processes runs once in the
"parent branch" for every history and once more for every fork call k with that call returning 0
("child branch"), so the task id each worker sees is observed where the statement puts it: inside
the worker.  The trace of fork()/wait() calls and the way the call ends are replayed against the
reference supervisor vf/refs/supervisor.py.

A small layer of REAL runs (a child interpreter calls the real fork_processes with real fork/wait;
workers os._exit(code) or kill themselves according to a per-(id, attempt) plan and log their
(returned id, task_id(), attempt) to an O_APPEND file) validates the simulated os against the real
one; its verdict is order-independent and taken only after every child has been reaped.
"""
from __future__ import annotations

import json
import logging
import os
import shutil
import sys
import tempfile

from vf import core
from vf.refs.supervisor import Supervisor, abnormal, decode

core.use_repo()
import tornado.process as tp  # noqa: E402

PROP = "C41"
META = {
    "level": "fault_enumeration",
    "technique": "exhaustive exit histories (scripted fork/wait proxy) replayed against a reference supervisor, parent branch + every child branch; real-fork runs as model validation",
    "level_text": "Every worker-exit history (complete, any length, without unknown-pid reports; bounded length with them - see exhaustive_scope) over 1..3 workers, restart budgets 0..3 and the tier's status alphabet is executed on the real fork_processes with fork()/wait() scripted; for each history the parent branch and each child branch (fork call k returns 0) are run and compared step by step with the reference supervisor. Longer random histories (up to 4 workers, budgets up to 5, all exit codes/signals, pid reuse) and real fork runs complement it.",
    "level_note": "Trusts the 60-line reference supervisor and the scripted os proxy (cross-checked by the real-fork layer). Stopped-looking wait statuses are not issued (os.wait() never returns them). num_processes <= 0 / None (cpu_count) is not part of the statement.",
    "design_ref": "DESIGN.md §4 C41",
    "engine": "refmodel",
}
RULE = ("cases are (workers n, restart budget, exit history = sequence of (i-th live worker exits with status | unknown pid "
        "reported)); exhaustive over maximal histories up to the tier's length, plus seeded random longer ones and real-fork "
        "plans; non-trivial if the history contains at least one abnormal exit; distinct by (n, budget, history)")
FLOORS = {"quick": 25000, "thorough": 1000000}
ASSUMPTIONS = ["reference supervisor vf/refs/supervisor.py states the property",
               "Linux wait-status encoding", "os.wait() only reports terminated children (no WUNTRACED)"]
REQUIRED_COUNTERS = ["oracle_evals", "parent_runs", "child_runs", "restarts_observed", "budget_exceeded_observed",
                     "clean_exit_observed", "unknown_pid_events", "real_fork_runs"]
SHARD_TIMEOUT = {"quick": 300, "thorough": 3600}

ST_EXH = [0, 0x100, 0xFF00, 9, 0x8F]
UNKNOWN_ST = [0, 9]
ST_RED = [0, 0x100, 9]
# families of exhaustively enumerated histories: name -> (statuses, unknown-pid statuses, max length)
# Without unknown-pid reports every history ends after at most n + budget + 1 <= 7 events, so length 8 is complete.
FAMILIES = {
    "quick": {"complete3": (ST_RED, [], 8, 6), "bounded5u": (ST_EXH, UNKNOWN_ST, 3, 3)},
    "thorough": {"complete5": (ST_EXH, [], 8, 12), "bounded5u": (ST_EXH, UNKNOWN_ST, 5, 24)},
}


def EXHAUSTIVE(tier):
    if tier == "quick":
        return ("ALL exit histories (any length; they end after <= n+budget+1 events) over 1..3 workers x budgets 0..3 x "
                "statuses {exit0, exit1, SIGKILL}; plus all histories of length <= 3 over {exit0, exit1, exit255, SIGKILL, "
                "SIGTERM+core} + unknown-pid reports; parent branch and every child branch")
    return ("ALL exit histories (any length) over 1..3 workers x budgets 0..3 x statuses {exit0, exit1, exit255, SIGKILL, "
            "SIGTERM+core}; plus all histories of length <= 5 over the same statuses + unknown-pid reports; parent branch "
            "and every child branch")


logging.getLogger("tornado.general").addHandler(logging.NullHandler())
logging.getLogger("tornado.general").propagate = False
logging.getLogger("tornado.general").setLevel(logging.CRITICAL + 1)   # no record construction: 3x faster, same control flow

REAL_OS = os


class HistoryEnd(BaseException):
    pass


class OsProxy:
    """Stands in for the `os` module inside tornado.process for one run."""

    def __init__(self, script, child_at, reuse):
        self.script = script
        self.child_at = child_at
        self.reuse = reuse
        self.pos = 0
        self.forks = 0
        self.next_pid = 1000
        self.free = []
        self.live = []            # pids in creation order
        self.trace = []           # ("fork", pid) | ("child", k) | ("wait", pid, status) | ("wait-nochild",)
        self.pos_at_fork = []

    def __getattr__(self, name):
        return getattr(REAL_OS, name)

    def fork(self):
        k = self.forks
        self.forks += 1
        self.pos_at_fork.append(self.pos)
        if k == self.child_at:
            self.trace.append(("child", k))
            return 0
        if self.reuse and self.free:
            pid = self.free.pop()
        else:
            pid = self.next_pid
            self.next_pid += 1
        self.live.append(pid)
        self.trace.append(("fork", pid))
        return pid

    def wait(self):
        if not self.live:
            self.trace.append(("wait-nochild",))
            raise ChildProcessError(10, "No child processes")
        if self.pos >= len(self.script):
            raise HistoryEnd()
        ev = self.script[self.pos]
        self.pos += 1
        if ev[0] == "x":
            pid = self.live.pop(ev[1] % len(self.live))
            self.free.append(pid)
            self.trace.append(("wait", pid, ev[2]))
            return pid, ev[2]
        self.trace.append(("wait", 7, ev[1]))
        return 7, ev[1]


def run_real(n, budget, script, child_at, reuse):
    proxy = OsProxy(script, child_at, reuse)
    tp._task_id = None
    tp.os = proxy
    try:
        try:
            ret = tp.fork_processes(n, max_restarts=budget)
            outcome = ("return", ret, tp.task_id())
        except SystemExit as e:
            outcome = ("exit", e.code)
        except HistoryEnd:
            outcome = ("pending",)
        except Exception as e:  # noqa: BLE001
            outcome = ("raise", type(e).__name__, str(e)[:120])
    finally:
        tp.os = REAL_OS
        tp._task_id = None
    return outcome, proxy


# ---------------------------------------------------------------------------------------------
# case generation

def model_walk(n, budget, script):
    """Runs the reference alone over a script; returns (model, live pids list) like the proxy would allocate."""
    m = Supervisor(n, budget)
    live = []
    pid = 1000

    def drain():
        nonlocal pid
        while m.expected_next() == "fork":
            m.forked(pid)
            live.append(pid)
            pid += 1
    drain()
    for ev in script:
        if m.expected_next() != "wait":
            break
        if ev[0] == "x":
            p = live.pop(ev[1] % len(live))
            m.reaped(p, ev[2])
            drain()
        else:
            m.reaped(7, ev[1])
    return m, live


def enum_histories(n, budget, maxlen, statuses, unknown):
    """DFS over the reference: yields maximal histories (terminated, or of length maxlen)."""
    def rec(script):
        m, live = model_walk(n, budget, script)
        if m.expected_next() != "wait" or len(script) == maxlen:
            yield tuple(script)
            return
        choices = [("x", i, s) for i in range(len(live)) for s in statuses] + [("u", s) for s in unknown]
        for c in choices:
            yield from rec(script + [c])
    yield from rec([])


def shards(tier, seed):
    out = []
    for fam, (_st, _un, _len, k) in FAMILIES[tier].items():
        for j in range(k):
            out.append({"kind": "exh", "family": fam, "slice": [j, k]})
    nr = 8000 if tier == "quick" else 600000
    k = 2 if tier == "quick" else 16
    for j in range(k):
        out.append({"kind": "rand", "count": nr // k, "j": j})
    nreal = 16 if tier == "quick" else 480
    kr = 2 if tier == "quick" else 8
    for j in range(kr):
        out.append({"kind": "real", "count": nreal // kr, "j": j})
    return out


def all_statuses():
    return [c << 8 for c in range(256)] + [s | core for s in range(1, 32) if s not in (17, 18, 19, 20, 21, 22, 23, 28)
                                          for core in (0, 0x80)]


def gen_cases(spec):
    if spec["kind"] == "exh":
        st, un, maxlen, _k = FAMILIES[spec["tier"]][spec["family"]]
        j, k = spec["slice"]
        idx = 0
        # every shard enumerates the whole family (cheap) and executes its residue class (balanced)
        for n in (1, 2, 3):
            for b in (0, 1, 2, 3):
                for script in enum_histories(n, b, maxlen, st, un):
                    if idx % k == j:
                        yield ("sim", n, b, script, False)
                    idx += 1
    elif spec["kind"] == "rand":
        rng = core.rng_for(spec["seed"], PROP, f"rand:{spec['j']}")
        sts = all_statuses()
        for _ in range(spec["count"]):
            n = rng.choice([1, 2, 3, 4])
            b = rng.choice([0, 1, 2, 3, 4, 5])
            script = []
            p_normal = rng.choice([0.2, 0.5, 0.8])
            for _ in range(rng.randint(1, 14)):
                r = rng.random()
                if r < 0.15:
                    script.append(("u", rng.choice(sts)))
                else:
                    st = 0 if rng.random() < p_normal else rng.choice(sts)
                    script.append(("x", rng.randrange(4), st))
            yield ("sim", n, b, tuple(script), rng.random() < 0.5)
    else:
        rng = core.rng_for(spec["seed"], PROP, f"real:{spec['j']}")
        acts = ["exit1", "exit2", "exit255", "kill9", "kill15", "kill1", "kill11", "kill6", "exit127"]
        for _ in range(spec["count"]):
            n = rng.choice([1, 2, 3])
            b = rng.choice([0, 1, 2, 3])
            plans = {}
            for i in range(n):
                k = rng.choice([0, 0, 1, 1, 2, 3])
                plans[str(i)] = [rng.choice(acts) for _ in range(k)] + ["exit0"]
            yield ("real", n, b, plans)


def directed_cases():
    yield ("sim", 2, 1, (("x", 0, 9), ("x", 0, 0), ("x", 0, 0)), False)
    yield ("sim", 3, 0, (("x", 1, 0x100),), False)
    yield ("sim", 1, 3, (("u", 9), ("x", 0, 0x8F), ("x", 0, 0xFF00), ("x", 0, 0)), True)


# ---------------------------------------------------------------------------------------------
# oracle

def replay(ctx, n, budget, script, outcome, proxy, reuse):
    """Compare the parent-branch trace with the reference. Returns the model (or None after a violation)."""
    m = Supervisor(n, budget)
    def mkwit():
        return {"n": n, "budget": budget, "history": [list(e) for e in script], "pid_reuse": reuse,
                "trace": [list(t) for t in proxy.trace], "outcome": list(outcome)}
    last_status = None
    for t in proxy.trace:
        exp = m.expected_next()
        if t[0] == "fork":
            if exp != "fork":
                if last_status is not None and not abnormal(last_status):
                    mech = "parent/restart-after-normal-exit"
                elif exp == "fail":
                    mech = "parent/restart-beyond-budget"
                else:
                    mech = "parent/unexpected-fork"
                ctx.violation(mech, f"supervisor forked although the reference expects '{exp}'", mkwit())
                return None
            m.forked(t[1])
        elif t[0] == "wait":
            if exp != "wait":
                mech = {"fork": "parent/abnormal-exit-not-restarted", "fail": "parent/budget-not-enforced",
                        "exit0": "parent/waits-with-no-worker-left"}[exp]
                ctx.violation(mech, f"supervisor called wait() although the reference expects '{exp}'", mkwit())
                return None
            m.reaped(t[1], t[2])
            last_status = t[2] if t[1] != 7 else last_status
            if t[1] == 7:
                ctx.count("unknown_pid_events")
        elif t[0] == "wait-nochild":
            ctx.violation("parent/waits-with-no-worker-left", "supervisor called wait() with no live worker", mkwit())
            return None
    exp = m.expected_next()
    kind = outcome[0]
    if kind == "pending":
        ok = exp == "wait"
    elif kind == "exit":
        ok = exp == "exit0" and outcome[1] in (0, None)
        if exp == "exit0" and not ok:
            ctx.violation("parent/exit-status-not-zero", "supervisor exited with a non-zero status after a clean shutdown", mkwit())
            return None
    elif kind == "raise":
        ok = exp == "fail"
    else:
        ok = False
    if not ok:
        if kind == "exit":
            mech = "parent/exit0-while-workers-remain" if exp in ("wait", "fork") else "parent/exit0-instead-of-failing"
        elif kind == "raise" and outcome[1] == "RuntimeError" and "restarts" in outcome[2]:
            mech = "parent/gave-up-before-budget-exceeded"
        elif kind == "raise":
            mech = "parent/raised-unexpectedly-" + outcome[1]
        elif kind == "return":
            mech = "parent/returned-instead-of-exiting"
        else:
            mech = "parent/ended-in-wrong-state"
        ctx.violation(mech, f"supervisor ended with {outcome!r} although the reference expects '{exp}'", mkwit())
        return None
    if exp == "exit0":
        ctx.count("clean_exit_observed")
    if exp == "fail":
        ctx.count("budget_exceeded_observed")
    ctx.count("restarts_observed", max(0, len(m.starts) - n))
    return m


_CHILD_SEEN = set()


def run_sim(case, ctx):
    _, n, budget, script, reuse = case
    has_abnormal = any(e[0] == "x" and abnormal(e[2]) for e in script)
    ctx.mark((n, budget, script, reuse), has_abnormal)
    if has_abnormal and ctx.evaluations % 20011 == 5:
        ctx.sample({"n": n, "budget": budget, "history": [list(e) for e in script]})
    outcome, proxy = run_real(n, budget, script, None, reuse)
    ctx.count("parent_runs")
    ctx.count("oracle_evals")
    m = replay(ctx, n, budget, script, outcome, proxy, reuse)
    if m is None:
        return
    # child branches: fork call k returns 0; the worker must see the id the reference assigned to fork k
    for k, tid in enumerate(m.starts):
        key = (n, budget, reuse, script[: proxy.pos_at_fork[k]], k)
        if key in _CHILD_SEEN:
            continue
        if len(_CHILD_SEEN) < 2_000_000:
            _CHILD_SEEN.add(key)
        out, px = run_real(n, budget, script, k, reuse)
        ctx.count("child_runs")
        ctx.count("oracle_evals")
        def wit(k=k, tid=tid, out=out, px=px):
            return {"n": n, "budget": budget, "history": [list(e) for e in script], "child_branch_at_fork": k,
                    "expected_task_id": tid, "outcome": list(out), "trace": [list(t) for t in px.trace]}
        if out[0] != "return":
            ctx.violation("child/did-not-return", "in the child branch fork_processes did not return", wit())
            return
        if out[1] != tid or type(out[1]) is not int:
            mech = "child/initial-worker-wrong-id" if k < n else "child/restarted-worker-got-different-id"
            ctx.violation(mech, "fork_processes returned a task id different from the one this worker must have", wit())
            return
        if out[2] != tid:
            ctx.violation("child/task_id()-differs-from-returned-id", "task_id() in the worker is not its id", wit())
            return
        if px.trace[-1] != ("child", k):
            ctx.violation("child/kept-supervising", "the child branch went on forking/waiting", wit())
            return


# ---------------------------------------------------------------------------------------------
# real fork layer

def _scenario(plan):
    """Runs in a forked copy of the shard process (tornado already imported, real os): the real
    fork_processes with real fork()/wait(). Every path ends in os._exit."""
    import faulthandler
    import resource
    import time
    try:
        faulthandler.disable()      # workers that kill themselves with SIGSEGV/SIGABRT must not print a dump
        tp.os = REAL_OS
        tp._task_id = None
        resource.setrlimit(resource.RLIMIT_CORE, (0, 0))
        fd = os.open(plan["log"], os.O_WRONLY | os.O_APPEND | os.O_CREAT, 0o600)
        me = os.getpid()

        def drain():
            while True:
                try:
                    os.wait()
                except ChildProcessError:
                    return

        try:
            tid = tp.fork_processes(plan["n"], max_restarts=plan["budget"])
        except SystemExit as e:
            if os.getpid() == me:
                drain()
                os.write(fd, ("P exit %r\n" % (e.code,)).encode())
            os._exit(0)
        except BaseException as e:  # noqa: BLE001
            if os.getpid() == me:
                drain()
                os.write(fd, ("P raise %s\n" % type(e).__name__).encode())
            os._exit(0)
        if os.getpid() == me:
            os.write(fd, b"P returned\n")
            os._exit(0)
        with open(plan["log"]) as f:
            attempt = sum(1 for ln in f if ln.startswith("C %d " % tid))
        os.write(fd, ("C %d %r %d\n" % (tid, tp.task_id(), attempt)).encode())
        acts = plan["plans"][str(tid)]
        act = acts[attempt] if attempt < len(acts) else "exit0"
        if act.startswith("exit"):
            os._exit(int(act[4:]))
        os.kill(os.getpid(), int(act[4:]))
        time.sleep(30)
        os._exit(98)
    finally:
        os._exit(97)


def run_realfork(case, ctx):
    _, n, budget, plans = case
    total_abn = sum(len(p) - 1 for p in plans.values())
    ctx.mark(("real", n, budget, json.dumps(plans, sort_keys=True)), total_abn > 0)
    d = tempfile.mkdtemp(prefix="vf-c41-")
    try:
        log = os.path.join(d, "log")
        plan = {"n": n, "budget": budget, "plans": plans, "log": log}
        sys.stdout.flush()
        sys.stderr.flush()
        pid = os.fork()
        if pid == 0:
            _scenario(plan)          # never returns
        import time
        deadline = time.time() + 120   # watchdog only (firing => harness error => INCONCLUSIVE), never a verdict
        while True:
            wpid, st = os.waitpid(pid, os.WNOHANG)
            if wpid == pid:
                break
            if time.time() > deadline:
                os.kill(pid, 9)
                os.waitpid(pid, 0)
                raise RuntimeError("real-fork scenario watchdog fired")
            time.sleep(0.002)
        rc = os.waitstatus_to_exitcode(st)
        lines = open(log).read().split("\n") if os.path.exists(log) else []
    finally:
        shutil.rmtree(d, ignore_errors=True)
    ctx.count("real_fork_runs")
    ctx.count("oracle_evals")
    wit = {"n": n, "budget": budget, "plans": plans, "log": lines, "rc": rc}
    parent = [ln for ln in lines if ln.startswith("P ")]
    children = [ln.split() for ln in lines if ln.startswith("C ")]
    if rc != 0 or len(parent) != 1:
        raise RuntimeError(f"real-fork driver broke: {wit}")
    for c in children:
        if c[1] != c[2]:
            ctx.violation("real/task_id()-differs-from-returned-id", "a real worker saw task_id() != returned id", wit)
            return
    starts = {}
    for c in children:
        starts.setdefault(int(c[1]), []).append(int(c[3]))
    bad_ids = [i for i in starts if not (0 <= i < n)]
    if bad_ids or any(sorted(a) != list(range(len(a))) for a in starts.values()):
        ctx.violation("real/worker-ids-or-attempts-inconsistent", "real workers saw ids outside 0..n-1 or gaps in restarts", wit)
        return
    if total_abn <= budget:
        ok = parent[0] in ("P exit 0", "P exit None") and all(len(starts.get(i, [])) == len(plans[str(i)]) for i in range(n))
        if not ok:
            ctx.violation("real/clean-run-mismatch", "real run: restarts/exit differ from the reference (every abnormal exit "
                          "restarted with the same id, exit 0 after all exited normally)", wit)
    else:
        ok = parent[0].startswith("P raise") and len(children) == n + budget and \
            all(1 <= len(starts.get(i, [])) <= len(plans[str(i)]) for i in range(n))
        if not ok:
            ctx.violation("real/budget-run-mismatch", "real run: supervisor did not fail after exactly `budget` restarts", wit)
        else:
            ctx.count("real_budget_exceeded")


def run_case(case, ctx):
    if case[0] == "sim":
        run_sim(case, ctx)
    else:
        run_realfork(case, ctx)
