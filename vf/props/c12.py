"""C12 — IOStream writes deliver every byte once, in order; futures resolve in order
only after their bytes were handed to the transport; over-limit writes are refused
without side effects; `_StreamBuffer` behaves like a bytearray FIFO.

Two engines in one module:

* stream scenarios: the real BaseIOStream write path on a socketpair, `write_to_fd`
  dictated by a plan (partial k bytes, 0-byte returns, BlockingIOError, catch-up).
  A harness subclass wraps `_handle_write` and samples `bytes_to_transport`
  *immediately after the base method returns* (the only place futures are resolved),
  and again right after every `write()` returns, so "future done" is compared with
  the byte count at resolution time, not at callback time.
* `_StreamBuffer` scenarios: every op sequence up to a bounded length over sizes
  {1, 2047, 2048, 2049} and advance amounts at every boundary, against a bytearray.
"""
from __future__ import annotations

import array
import asyncio
import gc
import itertools

from vf import core, vloop, wire, logmon
from vf.vloop import settle

core.use_repo()
from tornado.iostream import _StreamBuffer, StreamBufferFullError, StreamClosedError  # noqa: E402

PROP = "C12"
META = {
    "level": "exploration",
    "technique": "byte-exact transport log + resolution-time sampling of write futures under scripted partial sends; exhaustive small-scope bytearray model of _StreamBuffer",
    "level_text": "Generated write sequences (bytes and memoryviews of several formats, sizes around the 2 KiB coalescing threshold) run on the real BaseIOStream with write_to_fd following partial-send/EAGAIN plans; the bytes accepted by the transport and received by the peer are compared with the concatenation of accepted writes at every step, each future's resolution is compared with the transport byte count sampled inside a _handle_write wrapper, and refusals at max_write_buffer_size are checked for side effects. _StreamBuffer is compared with a bytearray after every append/peek/advance for every operation sequence up to the stated length.",
    "level_note": "Trusts the kernel socketpair and the bytearray model; strided (non-contiguous) memoryviews are UNSPECIFIED (executed, only no-contradiction demanded); mutation of a large caller buffer while it is queued is not exercised (zero-copy by design).",
    "design_ref": "DESIGN.md §4 C12",
    "engine": "wire",
}
RULE = ("stream case = (<=10 writes of bytes/memoryview[B,H,I,2-D,slice,strided] with sizes from "
        "{0,1,2,3,100,2047,2048,2049,4096,4097,70000,...}, settle points, write_to_fd plan, max_write_buffer_size at "
        "prefix-sum-1/prefix-sum/prefix-sum+1); non-trivial = >=3 accepted non-empty writes and >=1 partial/blocked send; "
        "buffer case = op sequence (append size x type | advance at a boundary selector); distinct by whole case")
FLOORS = {"quick": 1500, "thorough": 100000}
ASSUMPTIONS = [
    "AF_UNIX socketpair delivers the bytes given to send() in order",
    "bytearray FIFO model of _StreamBuffer is correct",
    "a write is refused iff buffered (accepted minus sent) + len(data) > max_write_buffer_size; zero-length writes are never refused",
    "strided memoryviews are outside the documented input types (UNSPECIFIED)",
]
REQUIRED_COUNTERS = ["oracle_evals", "futures_resolved", "partial_sends", "refusals_checked", "sb_ops",
                     "sb_peeks", "type:bytes", "type:mv_B", "type:mv_H", "type:mv_I", "type:mv_2d", "type:mv_slice",
                     "handle_write_samples", "final_equalities"]

SB_SIZES = [1, 2047, 2048, 2049]
SB_SEL = ["1", "f-1", "f", "f+1", "n-1", "n"]
SB_FULL = [("a", s, t) for s in SB_SIZES for t in ("bytes", "bytearray")] + [("v", s) for s in SB_SEL]
SB_REDUCED = [("a", s, "bytes") for s in SB_SIZES] + [("v", s) for s in SB_SEL]


def EXHAUSTIVE(tier):
    if tier == "quick":
        return "_StreamBuffer: all op sequences of length <= 4 over 8 append symbols (4 sizes x bytes/bytearray) and 6 advance selectors"
    return ("_StreamBuffer: all op sequences of length <= 5 over the 14-symbol alphabet and length <= 6 over the "
            "10-symbol alphabet (4 sizes, 6 advance selectors)")


# --------------------------------------------------------------------------
# data construction

_P = bytes(range(1, 252))


def pattern(seed, size):
    s = seed % 251
    pat = _P[s:] + _P[:s]
    return (pat * (size // 251 + 1))[:size]


def make_data(typ, size, seed):
    """Returns (object handed to write(), expected bytes, keepalive)."""
    raw = pattern(seed, size)
    if typ == "bytes":
        return raw, raw, None
    if typ == "mv_B":
        ba = bytearray(raw)
        return memoryview(ba), raw, ba
    if typ == "mv_H":
        raw = raw[:size - size % 2]
        arr = array.array("H")
        arr.frombytes(raw)
        return memoryview(arr), raw, arr
    if typ == "mv_I":
        raw = raw[:size - size % 4]
        arr = array.array("I")
        arr.frombytes(raw)
        return memoryview(arr), raw, arr
    if typ == "mv_2d":
        raw = raw[:size - size % 6]
        if not raw:
            return memoryview(b""), b"", None
        mv = memoryview(raw).cast("B", shape=[len(raw) // 3, 3])
        return mv, raw, None
    if typ == "mv_slice":
        big = bytearray(pattern(seed + 7, 13) + raw + pattern(seed + 11, 5))
        return memoryview(big)[13:13 + len(raw)], raw, big
    if typ == "mv_strided":
        big = bytearray(pattern(seed, size * 2))
        mv = memoryview(big)[::2]
        return mv, bytes(mv), big
    raise ValueError(typ)


TYPES = ["bytes", "bytes", "bytes", "mv_B", "mv_B", "mv_H", "mv_I", "mv_2d", "mv_slice", "mv_slice"]
SIZES = [0, 1, 1, 2, 3, 100, 2047, 2047, 2048, 2048, 2049, 2049, 4096, 4097, 6000]


def gen_stream_case(rng):
    n = rng.randint(1, 10)
    ops = []
    big_left = 1
    sizes = []
    for i in range(n):
        size = rng.choice(SIZES)
        r = rng.random()
        if r < 0.08 and big_left:
            size = 70000
            big_left -= 1
        elif r < 0.2:
            size = rng.randint(1, 5000)
        typ = rng.choice(TYPES)
        if rng.random() < 0.03:
            typ = "mv_strided"
            size = min(size, 3000)
        ops.append(("w", typ, size, rng.randrange(251)))
        sizes.append(size)
        if rng.random() < 0.35:
            ops.append(("settle",))
    steps = [1, 2, 3, 7, 100, 1000, 2047, 2048, 2049, 4096, 65536, 0, 0, "block", "block"]
    style = rng.random()
    if style < 0.15:
        wplan = []
    elif style < 0.4:
        wplan = ["block"] * rng.randint(1, n + 2) + [rng.choice(steps) for _ in range(rng.randint(0, 20))]
    else:
        wplan = [rng.choice(steps) for _ in range(rng.randint(1, 40))]
    maxw = None
    if rng.random() < 0.45:
        k = rng.randint(1, n)
        ps = sum(sizes[:k])
        maxw = max(1, ps + rng.choice([-1, 0, 1]))
        if rng.random() < 0.5 and not (wplan and wplan[0] == "block"):
            wplan = ["block"] * rng.randint(1, n + 2) + wplan
    return {"kind": "w", "ops": ops, "wplan": wplan, "maxw": maxw}


def gen_sb_random(rng):
    ops = []
    for _ in range(rng.randint(3, 14)):
        if rng.random() < 0.55:
            size = rng.choice(SB_SIZES + [2, 100, 1024, 4096, 5000, rng.randint(1, 6000)])
            ops.append(("a", size, rng.choice(["bytes", "bytearray", "memoryview", "mv_bytearray"])))
        else:
            ops.append(("v", rng.choice(SB_SEL + ["half"])))
    return {"kind": "sb", "ops": ops}


def shards(tier, seed):
    out = []
    if tier == "quick":
        for j in range(10):
            out.append({"kind": "w", "n": 450, "j": j})
        for i in range(len(SB_FULL)):
            if SB_FULL[i][0] == "a":
                out.append({"kind": "sbx", "alpha": "full", "first": i, "maxlen": 4})
        out.append({"kind": "sbr", "n": 3000, "j": 0})
    else:
        for j in range(32):
            out.append({"kind": "w", "n": 9500, "j": j})
        for i in range(len(SB_FULL)):
            if SB_FULL[i][0] == "a":
                out.append({"kind": "sbx", "alpha": "full", "first": i, "maxlen": 5})
        for i in range(len(SB_REDUCED)):
            if SB_REDUCED[i][0] == "a":
                for k in range(len(SB_REDUCED)):
                    out.append({"kind": "sbx", "alpha": "reduced", "first": i, "second": k, "maxlen": 6})
        for j in range(4):
            out.append({"kind": "sbr", "n": 50000, "j": j})
    return out


def gen_cases(spec):
    rng = core.rng_for(spec["seed"], PROP, f"{spec['kind']}{spec.get('j', '')}")
    if spec["kind"] == "w":
        for _ in range(spec["n"]):
            yield gen_stream_case(rng)
    elif spec["kind"] == "sbr":
        for _ in range(spec["n"]):
            yield gen_sb_random(rng)
    else:
        alpha = SB_FULL if spec["alpha"] == "full" else SB_REDUCED
        head = (alpha[spec["first"]],)
        if "second" in spec:
            head += (alpha[spec["second"]],)
        yield {"kind": "sb", "ops": head, "x": 1}
        for L in range(1, spec["maxlen"] - len(head) + 1):
            for rest in itertools.product(alpha, repeat=L):
                yield {"kind": "sb", "ops": head + rest, "x": 1}


def directed_cases():
    # second small append after the first bytearray chunk was partly consumed
    yield {"kind": "sb", "ops": (("a", 2047, "bytearray"), ("v", "1"), ("a", 1, "bytes"), ("a", 1, "bytes"), ("v", "f")), "x": 0}
    # format 'H' memoryview behind a blocked write: its future must wait for nbytes, not len()
    yield {"kind": "w", "ops": [("w", "bytes", 3, 1), ("w", "mv_H", 100, 2), ("settle",), ("w", "bytes", 0, 3)],
           "wplan": ["block", 3, 50, 0, 49, "block", 1], "maxw": None}
    yield {"kind": "w", "ops": [("w", "bytes", 2048, 1), ("w", "bytes", 1, 2), ("w", "bytes", 1, 3)],
           "wplan": ["block", "block", "block"], "maxw": 2049}


# --------------------------------------------------------------------------
# _StreamBuffer vs bytearray

def _sb_make(typ, size, seed):
    raw = pattern(seed, size)
    if typ == "bytes":
        return raw, raw
    if typ == "bytearray":
        return bytearray(raw), raw
    if typ == "memoryview":
        return memoryview(raw), raw
    if typ == "mv_bytearray":
        return memoryview(bytearray(raw)), raw
    raise ValueError(typ)


def _sb_invariant(sb):
    """DESIGN §2.8: _size = sum(len) - first_pos; first_pos < len(first)."""
    bufs = sb._buffers
    total = sum(len(b) for _, b in bufs)
    if sb._size != total - sb._first_pos:
        return "size-vs-chunks"
    if bufs and not (0 <= sb._first_pos < len(bufs[0][1])):
        return "first-pos-out-of-range"
    if not bufs and sb._first_pos != 0:
        return "first-pos-nonzero-when-empty"
    return None


def run_sb(case, ctx):
    sb = _StreamBuffer()
    model = bytearray()
    inputs = []
    applied = 0
    for idx, op in enumerate(case["ops"]):
        if op[0] == "a":
            obj, raw = _sb_make(op[2], op[1], idx * 37 + op[1])
            try:
                sb.append(obj)
            except Exception as e:
                ctx.violation(f"streambuffer/append-raises-{type(e).__name__}", "append raised",
                              {"op": op, "idx": idx, "err": repr(e)})
                return applied
            model += raw
            inputs.append((obj, raw))
        else:
            if not model:
                return None if case.get("x") else applied      # inapplicable op: sequence not in the space
            first = sb.peek(1 << 30)
            f = len(first)
            first.release()
            n = len(model)
            k = {"1": 1, "f-1": f - 1, "f": f, "f+1": f + 1, "n-1": n - 1, "n": n, "half": n // 2}[op[1]]
            if not (0 < k <= n):
                return None if case.get("x") else applied
            try:
                sb.advance(k)
            except Exception as e:
                ctx.violation(f"streambuffer/advance-raises-{type(e).__name__}", "advance raised for 0 < size <= len",
                              {"op": op, "idx": idx, "k": k, "len": n, "err": repr(e)})
                return applied
            del model[:k]
        applied += 1
        ctx.count("sb_ops")
        ctx.count("oracle_evals")
        if len(sb) != len(model):
            ctx.violation("streambuffer/len", "len(buffer) differs from the bytearray model",
                          {"ops": case["ops"][:idx + 1], "got": len(sb), "want": len(model)})
            return applied
        inv = _sb_invariant(sb)
        if inv:
            ctx.violation("streambuffer/invariant-" + inv, "structural invariant of _StreamBuffer broken",
                          {"ops": case["ops"][:idx + 1]})
            return applied
        for s in (1, 2, max(1, len(model)), 1 << 20):
            v = sb.peek(s)
            ctx.count("sb_peeks")
            got = bytes(v)
            v.release()
            if len(got) > s or (model and not got) or (not model and got):
                ctx.violation("streambuffer/peek-length", "peek(size) returned more than size bytes, or nothing from a "
                              "non-empty buffer", {"ops": case["ops"][:idx + 1], "size": s, "got_len": len(got),
                                                   "model_len": len(model)})
                return applied
            if got != model[:len(got)]:
                ctx.violation("streambuffer/peek-content", "peek returned bytes that are not the head of the FIFO",
                              {"ops": case["ops"][:idx + 1], "size": s, "got": got[:40], "want": bytes(model[:40])})
                return applied
        for obj, raw in inputs:
            if bytes(obj) != raw:
                ctx.violation("streambuffer/caller-object-mutated", "an object passed to append() was modified by a "
                              "later buffer operation (aliasing)", {"ops": case["ops"][:idx + 1]})
                return applied
    # drain through the public API and compare the whole content
    guard = 0
    while model:
        guard += 1
        v = sb.peek(len(model))
        got = bytes(v)
        v.release()
        if not got or got != model[:len(got)] or guard > 64:
            ctx.violation("streambuffer/drain-content", "draining with peek/advance does not reproduce the appended bytes",
                          {"ops": case["ops"], "got": got[:40], "want": bytes(model[:40]), "remaining": len(model)})
            return applied
        sb.advance(len(got))
        del model[:len(got)]
    ctx.count("oracle_evals")
    if len(sb) != 0:
        ctx.violation("streambuffer/len", "len(buffer) differs from the bytearray model", {"ops": case["ops"], "got": len(sb), "want": 0})
    return applied


# --------------------------------------------------------------------------
# stream write scenarios

class WStream(wire.ScriptedIOStream):
    obs = None

    def write_to_fd(self, data):
        offered = len(data)
        before = self.bytes_to_transport
        try:
            return super().write_to_fd(data)
        finally:
            if self.obs is not None:
                self.obs.fd_write(offered, self.bytes_to_transport - before)

    hw_calls = 0

    def _handle_write(self):
        super()._handle_write()
        if self.obs is not None:
            self.obs.sample("handle_write")
            self.hw_calls += 1
            if self.hw_calls > 5000 and not self.closed():
                # level-triggered WRITE readiness with a send loop that makes no progress: the virtual
                # loop would spin forever; report and break the loop by closing
                self.obs.bad("stream/write-livelock", "_handle_write is invoked endlessly without making progress",
                             {"calls": self.hw_calls})
                self.close()


class WObs:
    def __init__(self, st, ctx, case):
        self.st, self.ctx, self.case = st, ctx, case
        self.W = bytearray()
        self.tracked = []        # dicts: i, fut, E, resolved, cb_seq
        self.checked = 0
        self.ok = True
        self.partial = 0
        self.cb_order = []
        self.keep = []
        self.accepted_nonempty = 0

    def bad(self, mech, what, extra=None):
        self.ok = False
        w = {"bytes_to_transport": self.st.bytes_to_transport, "accepted_total": len(self.W),
             "futures": [(t["i"], t["E"], t["fut"].done()) for t in self.tracked]}
        if extra:
            w.update(extra)
        self.ctx.violation(mech, what, w)

    def fd_write(self, offered, accepted):
        if accepted < offered:
            self.partial += 1
            self.ctx.count("partial_sends")

    def sample(self, where):
        st = self.st
        self.ctx.count("handle_write_samples" if where == "handle_write" else "other_samples")
        T = st.bytes_to_transport
        log = st.sent_log
        if len(log) > self.checked:
            new = bytes(log[self.checked:])
            want = bytes(self.W[self.checked:self.checked + len(new)])
            self.ctx.count("oracle_evals")
            if new != want:
                off = next((i for i in range(min(len(new), len(want))) if new[i] != want[i]), min(len(new), len(want)))
                self.bad("transport/bytes-differ", "bytes handed to the transport are not the concatenation of the written data",
                         {"offset": self.checked + off, "got": new[off:off + 24], "want": want[off:off + 24],
                          "extra_bytes": len(new) - len(want)})
            self.checked = len(log)
        earlier_pending = None
        for t in self.tracked:
            if t["resolved"]:
                continue
            if not t["fut"].done():
                if earlier_pending is None:
                    earlier_pending = t["i"]
                continue
            t["resolved"] = True
            self.ctx.count("futures_resolved")
            self.ctx.count("oracle_evals")
            exc = None if t["fut"].cancelled() else t["fut"].exception()
            if exc is not None:
                self.bad("future/failed-on-open-stream", "write future failed although the stream was not closed",
                         {"write": t["i"], "error": repr(exc), "where": where})
                continue
            if T < t["E"]:
                self.bad("future/resolved-before-bytes-sent",
                         "write future resolved while fewer bytes than its cumulative end had been handed to the transport",
                         {"write": t["i"], "end_index": t["E"], "at_resolution": T, "where": where})
            if earlier_pending is not None:
                self.bad("future/resolved-out-of-order", "a write future resolved while an earlier one was still pending",
                         {"write": t["i"], "earlier": earlier_pending, "where": where})

    def snapshot(self):
        st = self.st
        return {"buffer_len": len(st._write_buffer), "total_write_index": st._total_write_index,
                "queued_futures": len(st._write_futures), "bytes_to_transport": st.bytes_to_transport,
                "fd_writes": st.fd_writes}

    def write(self, op):
        st, ctx = self.st, self.ctx
        _, typ, size, seed = op
        obj, raw, keep = make_data(typ, size, seed)
        self.keep.append((obj, keep))
        ctx.count("type:" + typ)
        maxw = self.case["maxw"]
        buffered = len(self.W) - st.bytes_to_transport
        expect_refuse = maxw is not None and len(raw) > 0 and buffered + len(raw) > maxw
        before = self.snapshot()
        fut = None
        err = None
        # the sampler runs inside write() (via _handle_write): the data must already be part of the
        # expected stream; rolled back below if the write is rejected
        self.W += raw
        try:
            fut = st.write(obj)
        except Exception as e:  # judged below
            err = e
        if err is not None and raw:
            del self.W[-len(raw):]
        if typ == "mv_strided":
            if err is not None:
                ctx.count("unspecified_strided_rejected")
                if self.snapshot() != before:
                    self.bad("write/rejected-input-with-side-effects", "a rejected write changed stream state",
                             {"before": before, "after": self.snapshot(), "error": repr(err)})
                return
            ctx.count("unspecified_strided_accepted")
        elif isinstance(err, StreamBufferFullError):
            ctx.count("refusals_checked")
            ctx.count("oracle_evals")
            if not expect_refuse:
                self.bad("write/refused-within-limit", "write refused although buffered + len(data) <= max_write_buffer_size",
                         {"write": op, "buffered": buffered, "max": maxw})
            after = self.snapshot()
            if after != before:
                self.bad("write/refused-with-side-effects", "a refused write changed the write buffer / indices / future queue",
                         {"write": op, "before": before, "after": after})
            return
        elif err is not None:
            self.bad(f"write/raises-{type(err).__name__}", "write() raised unexpectedly", {"write": op, "error": repr(err)})
            return
        elif expect_refuse:
            ctx.count("oracle_evals")
            self.bad("write/accepted-over-limit", "write accepted although it exceeds max_write_buffer_size",
                     {"write": op, "buffered": buffered, "max": maxw})
        if raw:
            self.accepted_nonempty += 1
        i = len(self.tracked)
        t = {"i": i, "fut": fut, "E": len(self.W), "resolved": False}
        self.tracked.append(t)
        fut.add_done_callback(lambda f, i=i: self.cb_order.append(i))
        self.sample("after_write")


async def _wscenario(case, ctx, lm):
    lm.attach_loop(asyncio.get_running_loop())
    a, b = wire.socketpair()
    kw = {}
    if case["maxw"] is not None:
        kw["max_write_buffer_size"] = case["maxw"]
    st = WStream(a, write_plan=list(case["wplan"]), **kw)
    st.sent_log = bytearray()
    obs = WObs(st, ctx, case)
    st.obs = obs
    peer = wire.Peer(b)
    rx_checked = 0

    def check_rx():
        nonlocal rx_checked
        peer.pump()
        if len(peer.rx) > rx_checked:
            ctx.count("oracle_evals")
            new = bytes(peer.rx[rx_checked:])
            if new != bytes(obs.W[rx_checked:rx_checked + len(new)]):
                obs.bad("peer/bytes-differ", "bytes received by the peer are not a prefix of the written data",
                        {"offset": rx_checked})
            rx_checked = len(peer.rx)

    try:
        for op in case["ops"]:
            if not obs.ok:
                break
            if op[0] == "w":
                obs.write(op)
            else:
                await settle()
                obs.sample("settle")
                check_rx()
        for _ in range(len(case["wplan"]) + 40):
            if not obs.ok:
                break
            await settle()
            obs.sample("settle")
            check_rx()
            if all(t["fut"].done() for t in obs.tracked) and rx_checked == len(obs.W):
                break
        if obs.ok:
            ctx.count("final_equalities")
            ctx.count("oracle_evals")
            W = bytes(obs.W)
            if st.closed():
                obs.bad("stream/closed-unexpectedly", "stream closed during a write-only workload", {"error": repr(st.error)})
            elif bytes(st.sent_log) != W or st.bytes_to_transport != len(W):
                obs.bad("transport/incomplete-at-quiescence", "not every written byte was handed to the transport at quiescence",
                        {"sent": len(st.sent_log), "plan_left": len(list(st.write_plan))})
            elif bytes(peer.rx) != W:
                obs.bad("peer/incomplete", "peer did not receive exactly the written bytes", {"rx": len(peer.rx)})
            pend = [t["i"] for t in obs.tracked if not t["fut"].done()]
            if pend and obs.ok:
                obs.bad("future/pending-although-bytes-sent", "write future still pending after all bytes were sent", {"pending": pend})
            if obs.ok and obs.cb_order != sorted(obs.cb_order):
                obs.bad("future/callbacks-out-of-order", "write futures' done-callbacks ran out of write order", {"order": obs.cb_order})
            if obs.ok and len(obs.cb_order) != len(obs.tracked):
                obs.bad("future/callback-count", "a write future's done callback did not run exactly once",
                        {"order": obs.cb_order})
            bad = lm.uncaught()
            if bad and obs.ok:
                obs.bad("log/uncaught-exception", "write workload produced an uncaught-exception log record", {"records": bad[:3]})
    finally:
        st.obs = None
        try:
            if not st.closed():
                st.close()
        except Exception:
            pass
        peer.close()
    return obs


_LM = None
_N = 0


def run_case(case, ctx):
    global _LM, _N
    if case["kind"] == "sb":
        applied = run_sb(case, ctx)
        if applied is None:
            ctx.evaluations -= 1          # op sequence outside the enumerated space (advance on too-short buffer)
            ctx.count("sb_sequences_inapplicable")
            return
        ops = case["ops"]
        nontriv = sum(1 for o in ops if o[0] == "a") >= 1 and len(ops) >= 2
        ctx.mark(("sb", tuple(ops)), nontriv)
        return
    if _LM is None:
        _LM = logmon.LogMon()
        _LM.__enter__()
    _LM.records.clear()
    obs = vloop.run(_wscenario, case, ctx, _LM, collect=False)
    _N += 1
    gc.collect(1 if _N % 100 else 2)
    nontriv = obs.accepted_nonempty >= 3 and obs.partial >= 1
    ctx.mark(("w", tuple(case["ops"]), tuple(case["wplan"]), case["maxw"]), nontriv)
    if nontriv and len(obs.W) < 300:
        ctx.sample(case, limit=3)
