"""C25 — outgoing cookies are emitted exactly as set.

A handler executes a plan of set_cookie / set_signed_cookie / clear_cookie calls
(each wrapped in try/except: the statement allows the *call* to raise).  The
response's Set-Cookie lines are parsed by a small RFC 6265 §5.2-style splitter;
the name=value pair of every line is then presented as a browser would
(`Cookie: p1; p2`) in a second request to the same server, whose handler reports
what Tornado's request-side cookie parser sees.
"""
from __future__ import annotations

import calendar
import datetime
import math
import time

from vf import core
from vf.refs import webrig

core.use_repo()
import tornado.web  # noqa: E402

PROP = "C25"
META = {
    "level": "exploration",
    "technique": "set-then-read-back through the real server: reference Set-Cookie splitter for attributes, Tornado's own request cookie parser for name/value, per generated call plan",
    "level_text": "Generated plans of 1-3 cookie calls (names, values, domain/path/samesite strings over an alphabet with ; , = \" \\ space, controls, DEL, latin-1 and non-latin-1 characters; expires as number/tuple/datetime/expires_days; max_age incl. 0 and negatives; flags; deprecated **kwargs attributes; signed cookies of both formats; clear_cookie; repeated names) are executed in a real handler; for every call that did not raise, the response must carry exactly one Set-Cookie line for that name, the line's pair must read back on the next request as exactly that name/value (signed: get_signed_cookie returns the value), the attribute multiset must equal the requested one, and no other cookie may appear.",
    "level_note": "Trusts the 20-line Set-Cookie splitter and HTTP-date formatter. Arguments respect the documented types (max_age int, flags bool, expires number/tuple/datetime); empty-string domain/path/samesite count as 'not requested'; the Comment attribute value is not compared (library-quoted); when a later call for the same name raises, either the earlier setting or none is accepted; expires_days is compared against wall-clock samples taken around the request (±2 s).",
    "design_ref": "DESIGN.md §4 C25",
    "engine": "wire",
}
RULE = ("a case is a plan of 1-3 cookie calls; non-trivial when at least one call did not raise and its Set-Cookie line "
        "was read back through a second request; distinct by the plan")
FLOORS = {"quick": 4000, "thorough": 100000}
ASSUMPTIONS = ["reference Set-Cookie splitter is correct", "arguments have their documented types",
               "browser presents exactly the text before the first ';' of each Set-Cookie line"]
REQUIRED_COUNTERS = ["oracle_evals", "readback_evals", "attr_evals", "calls_ok", "calls_raised", "same_name_twice_evals",
                     "signed_readbacks", "safety_evals"]

SECRET = "c25-secret-not-so-secret"
PLANS, OUTCOMES, READS = {}, {}, {}
DAYS = ["Mon", "Tue", "Wed", "Thu", "Fri", "Sat", "Sun"]
MONTHS = ["Jan", "Feb", "Mar", "Apr", "May", "Jun", "Jul", "Aug", "Sep", "Oct", "Nov", "Dec"]
RESERVED = {"expires", "path", "comment", "domain", "max-age", "secure", "httponly", "version", "samesite"}


def shards(tier, seed):
    if tier == "quick":
        return [{"n": 1100} for _ in range(16)]
    return [{"n": 22000} for _ in range(32)]


# ------------------------------------------------------------------ application

class SetH(tornado.web.RequestHandler):
    def get(self):
        rid = self.request.headers["X-Rid"]
        out = []
        for kind, name, value, kw in PLANS.pop(rid):
            try:
                if kind == "set":
                    self.set_cookie(name, value, **kw)
                elif kind == "signed":
                    self.set_signed_cookie(name, value, **kw)
                else:
                    self.clear_cookie(name, **kw)
                out.append(None)
            except Exception as e:  # the statement allows the call to raise
                out.append(type(e).__name__)
        OUTCOMES[rid] = out
        self.write("done")


class ReadH(tornado.web.RequestHandler):
    def get(self):
        rid = self.request.headers["X-Rid"]
        signed = {}
        for n in PLANS.pop(rid):
            try:
                signed[n] = self.get_signed_cookie(n)
            except Exception as e:
                signed[n] = e
        READS[rid] = ({k: m.value for k, m in self.request.cookies.items()}, signed)
        self.write("ok")


def make_session(lm):
    import warnings
    warnings.simplefilter("ignore", DeprecationWarning)
    app = tornado.web.Application([("/set", SetH), ("/read", ReadH)], cookie_secret=SECRET, log_function=lambda h: None)
    return webrig.Session(app, lm)


# ------------------------------------------------------------------ generation

NAME_OK = "abcxyzABC019_-.!#$%&'*+^`|~:"
NAME_BAD = "; ,=\"\\\x00\x7f\né中()/<>?@[]{}"
VAL_PLAIN = "abcxyzABZ0189_-.|:/%+~!#$&'*^`"
VAL_QUOTED = ";,=\"\\()<>?@[]{}éÿ\x80\xa0"
VAL_BAD = " \t\n\x00\x1f\x7f中\u2028"
ATTR_OK = "abcxyz019.-_/=,:~%"
ATTR_ODD = "; \t\n\x00\x7f\"\\éÿ中"


def _text(rng, pools, lo, hi):
    """pools: [(alphabet, weight)]"""
    alph, w = zip(*pools)
    return "".join(rng.choice(rng.choices(alph, w)[0]) for _ in range(rng.randint(lo, hi)))


def _name(rng):
    k = rng.random()
    if k < 0.5:
        return rng.choice(["a", "b", "A", "sid", "x-y", "n1"])
    if k < 0.85:
        return _text(rng, [(NAME_OK, 1)], 1, 8)
    return _text(rng, [(NAME_OK, 5), (NAME_BAD, 1)], 0, 6)


def _value(rng):
    k = rng.random()
    if k < 0.3:
        return _text(rng, [(VAL_PLAIN, 1)], 0, 12)
    if k < 0.75:
        return _text(rng, [(VAL_PLAIN, 3), (VAL_QUOTED, 2)], 1, 12)
    if k < 0.9:
        return _text(rng, [(VAL_PLAIN, 6), (VAL_QUOTED, 3), (VAL_BAD, 1)], 1, 10)
    if k < 0.95:
        return _text(rng, [(VAL_PLAIN, 3), (VAL_QUOTED, 2)], 1, 8).encode("utf-8")
    return rng.choice([b"\xff\xfe", "x" * 3000, '"', '""', '"a"', "\\", "\\073", "a\\", "é" * 50, "=", "==", ";", "a;b=c"])


def _attr(rng, base):
    k = rng.random()
    if k < 0.55:
        return rng.choice(base)
    if k < 0.8:
        return _text(rng, [(ATTR_OK, 1)], 1, 10)
    return _text(rng, [(ATTR_OK, 6), (ATTR_ODD, 1)], 1, 10)


def _expires(rng):
    k = rng.random()
    t = rng.choice([0, 1, 86399, 86400, 951782400, 1.5e9, 1700000000.75, 2 ** 31 - 1, 2 ** 31, 4102444800, 32503680000])
    if rng.random() < 0.3:
        t = rng.randint(0, 4 * 10 ** 9)
    if k < 0.4:
        return ("num", t)
    if k < 0.55:
        return ("tuple", int(t))
    if k < 0.7:
        return ("struct", int(t))
    if k < 0.85:
        return ("dt-aware", int(t), rng.choice([0, 60, -330, 720]))
    return ("dt-naive", int(t))


def _kwargs(rng, kind):
    kw = {}
    if rng.random() < 0.35:
        kw["domain"] = _attr(rng, ["example.com", ".example.com", "a.b", ""])
    if rng.random() < 0.4:
        kw["path"] = _attr(rng, ["/", "/app", "/a/b/", "", "/a b", "/é"])
    if rng.random() < 0.3:
        kw["samesite"] = _attr(rng, ["Lax", "Strict", "None", "lax", ""])
    if rng.random() < 0.3:
        kw["httponly"] = rng.random() < 0.7
    if rng.random() < 0.3:
        kw["secure"] = rng.random() < 0.7
    if kind != "clear":
        if kind == "set" and rng.random() < 0.3:
            kw["expires"] = _expires(rng)
        if rng.random() < 0.25:
            kw["expires_days"] = rng.choice([0, 1, 30, 0.5, -1, 365, None])
        if rng.random() < 0.3:
            kw["max_age"] = rng.choice([0, 1, 10, 3600, -1, 2 ** 31, 10 ** 12, None])
    if kind == "signed" and rng.random() < 0.5:
        kw["version"] = rng.choice([1, 2, None])
    if kind != "signed" and rng.random() < 0.15:
        # deprecated **kwargs path (case-insensitive Morsel attributes)
        k = rng.choice(["Domain", "Path", "SameSite", "version", "comment", "Secure", "HttpOnly", "Expires", "Max_Age", "bogus", "DOMAIN"])
        if k.lower() in ("secure", "httponly"):
            kw[k] = rng.choice([True, False, 1, 0])
        else:
            kw[k] = _attr(rng, ["1", "x.example", "/p", "Lax", "note"])
    return kw


def gen_cases(spec):
    rng = core.rng_for(spec["seed"], PROP, spec["shard"])
    for _ in range(spec["n"]):
        n_ops = rng.choice([1, 1, 1, 2, 2, 3])
        ops = []
        for _ in range(n_ops):
            kind = rng.choice(["set", "set", "set", "signed", "clear"])
            name = _name(rng) if not ops or rng.random() < 0.5 else ops[-1][1]
            value = _value(rng) if kind != "clear" else None
            if kind == "signed" and rng.random() < 0.3:
                value = rng.randbytes(rng.randint(0, 12))
            ops.append((kind, name, value, _kwargs(rng, kind)))
        yield {"ops": ops}


def directed_cases():
    yield {"ops": [("set", "a", "中", {})]}
    yield {"ops": [("set", "a", "b", {"path": "/中"})]}
    yield {"ops": [("set", "a", "b", {"version": "1; Secure"})]}
    yield {"ops": [("set", "a", "b", {"Domain": "x; Secure; HttpOnly"})]}
    yield {"ops": [("set", "a", "b", {"max_age": 0})]}
    yield {"ops": [("set", "a", "b", {"expires": ("num", 0)})]}
    yield {"ops": [("set", "a", "1", {}), ("set", "a", "2", {"path": "/x"})]}
    yield {"ops": [("set", "a", "1", {"secure": True}), ("clear", "a", None, {})]}
    yield {"ops": [("signed", "s", b"\x00\xff=|:", {"version": 1}), ("signed", "t", "é;", {})]}
    yield {"ops": [("set", "a", "x;y,z\"\\é", {"domain": "a,b=c", "samesite": "é"})]}


# ------------------------------------------------------------------ oracle helpers

def httpdate(t):
    dt = datetime.datetime(1970, 1, 1) + datetime.timedelta(seconds=math.floor(t))
    return "%s, %02d %s %04d %02d:%02d:%02d GMT" % (DAYS[dt.weekday()], dt.day, MONTHS[dt.month - 1], dt.year,
                                                     dt.hour, dt.minute, dt.second)


def parse_httpdate(s):
    try:
        wd, rest = s.split(", ")
        d, mon, y, hms, gmt = rest.split(" ")
        h, m, sec = hms.split(":")
        if gmt != "GMT":
            return None
        t = calendar.timegm((int(y), MONTHS.index(mon) + 1, int(d), int(h), int(m), int(sec), 0, 0, 0))
        return t if httpdate(t) == s else None
    except Exception:
        return None


def materialise_expires(spec):
    kind = spec[0]
    if kind == "num":
        return spec[1], spec[1]
    if kind == "tuple":
        return tuple(time.gmtime(spec[1])), spec[1]
    if kind == "struct":
        return time.gmtime(spec[1]), spec[1]
    if kind == "dt-aware":
        tz = datetime.timezone(datetime.timedelta(minutes=spec[2]))
        return datetime.datetime.fromtimestamp(spec[1], tz), spec[1]
    return datetime.datetime.fromtimestamp(spec[1], datetime.timezone.utc).replace(tzinfo=None), spec[1]


def split_set_cookie(line: bytes):
    """-> (name, raw_pair_bytes, [(attr_lower, value_or_None)])"""
    s = line.decode("latin-1")
    parts = s.split(";")
    pair = parts[0]
    name = pair.split("=", 1)[0].strip(" \t") if "=" in pair else ""
    attrs = []
    for p in parts[1:]:
        p = p.strip(" \t")
        if "=" in p:
            k, v = p.split("=", 1)
            attrs.append((k.strip(" \t").lower(), v.strip(" \t")))
        else:
            attrs.append((p.lower(), None))
    return name, line.split(b";")[0], attrs


def expected_attrs(kind, kw):
    """-> (list of (attr, value|None|('approx-days', d)|('any',)), source tag) or None if the plan is outside the judged domain"""
    exp = []
    src = "named"
    kw = dict(kw)
    for k in list(kw):
        if k not in ("domain", "path", "samesite", "httponly", "secure", "expires", "expires_days", "max_age", "version") or \
                (k == "version" and kind != "signed"):
            src = "kwargs"
            v = kw.pop(k)
            lk = k.lower()
            if lk in kw or lk == "max-age" or (lk == "expires" and (kind == "clear" or kw.get("expires_days") is not None)):
                return None, src
            if lk in ("secure", "httponly"):
                if v:
                    exp.append((lk, None))
            elif lk == "comment":
                exp.append((lk, ("any",)))
            elif lk in RESERVED:
                exp.append((lk, v))
            else:
                exp.append((lk, ("must-raise",)))
    if kw.get("domain"):
        exp.append(("domain", kw["domain"]))
    path = kw.get("path", "/")
    if path and not any(a == "path" for a, _ in exp):
        exp.append(("path", path))
    elif path and any(a == "path" for a, _ in exp):
        return None, src          # named default path + kwargs Path: which one wins is not pinned
    if kw.get("samesite"):
        exp.append(("samesite", kw["samesite"]))
    if kw.get("httponly"):
        exp.append(("httponly", None))
    if kw.get("secure"):
        exp.append(("secure", None))
    if kw.get("max_age") is not None:
        exp.append(("max-age", str(kw["max_age"])))
    if kind == "clear":
        exp.append(("expires", ("approx-days", -365)))
    elif kw.get("expires") is not None:
        exp.append(("expires", httpdate(kw["expires"][1])))
    else:
        days = kw.get("expires_days", 30 if kind == "signed" else None)
        if days is not None:
            exp.append(("expires", ("approx-days", days)))
    return exp, src


def _falsy_shape(kw, problems):
    tags = []
    if "max-age" in problems["missing"] and kw.get("max_age") == 0:
        tags.append("max-age-zero")
    if "expires" in problems["missing"] + problems["value"] and kw.get("expires") is not None and kw["expires"][1] == 0:
        tags.append("expires-epoch")
    return tags


def _unvalidated_kwargs_text(kw):
    named = ("domain", "path", "samesite", "httponly", "secure", "expires", "expires_days", "max_age", "version")
    return any(isinstance(v, str) and any(ch == ";" or ord(ch) <= 0x20 or ord(ch) == 0x7F for ch in v)
               for k, v in kw.items() if k not in named or k == "version")


# ------------------------------------------------------------------ execution

_rid = [0]


def _u8(x):
    return x if isinstance(x, bytes) else x.encode("utf-8", "surrogatepass")


async def acase(case, ctx, sess):
    ops = case["ops"]
    _rid[0] += 1
    rid = "c%d" % _rid[0]
    real_ops = []
    for kind, name, value, kw in ops:
        kw2 = dict(kw)
        if kw2.get("expires") is not None:
            kw2["expires"] = materialise_expires(kw2["expires"])[0]
        real_ops.append((kind, name, value, kw2))
    PLANS[rid] = real_ops
    t_before = time.time()
    try:
        r = await sess.request(webrig.build_request("GET", "/set", [("X-Rid", rid)]))
    except webrig.WireError as e:
        ctx.violation(f"wire/{e.kind}", "response is not a well-framed HTTP message", {"why": e.why, "raw": e.raw, "ops": ops})
        return
    t_after = time.time()
    outcomes = OUTCOMES.pop(rid, None)
    PLANS.pop(rid, None)
    unc = sess.take_uncaught()
    ctx.count("safety_evals")
    ctx.count("oracle_evals")
    if outcomes is None:
        ctx.violation("harness/handler-not-reached", "set handler did not run", {"status": r and r.status})
        return
    n_ok = sum(1 for o in outcomes if o is None)
    ctx.count("calls_ok", n_ok)
    ctx.count("calls_raised", len(outcomes) - n_ok)
    for o in outcomes:
        if o is not None:
            ctx.seen("raise_types", o)
    if r is None or r.status != 200 or unc:
        exc = (unc[0].get("exc") if unc else None) or "none"
        shape = "all-calls-raised" if n_ok == 0 else "after-non-raising-call"
        nl1 = any(ord(ch) > 0xFF for k, n, v, kw in ops for s in [n, v if isinstance(v, str) else ""] +
                  [x for x in kw.values() if isinstance(x, str)] for ch in s)
        ctx.violation(f"response-failed/{shape}/status-{r.status if r else 'none'}/{exc}" + ("/non-latin1-text" if nl1 else ""),
                      "cookie calls returned normally but the response could not be sent (or an uncaught error was logged)",
                      {"ops": ops, "outcomes": outcomes, "status": r and r.status, "log": unc[:1]})
        return

    # ---- expectations per name (last non-raising call wins; a later raising call makes the name undetermined)
    final, undetermined = {}, set()
    per_name_calls = {}
    for (kind, name, value, kw), o in zip(ops, outcomes):
        nm = name if isinstance(name, str) else name.decode("latin-1")
        per_name_calls[nm] = per_name_calls.get(nm, 0) + 1
        if o is None:
            final[nm] = (kind, value, kw)
            undetermined.discard(nm)
        else:
            # a call that raised may or may not leave its cookie behind: not pinned by the statement
            undetermined.add(nm)
    lines = [split_set_cookie(v) for v in r.get_all("set-cookie")]
    by_name = {}
    for nm, pair, attrs in lines:
        by_name.setdefault(nm, []).append((pair, attrs))
    wit = {"ops": ops, "outcomes": outcomes, "set_cookie_lines": r.get_all("set-cookie")}

    for nm, got in by_name.items():
        ctx.count("oracle_evals")
        if nm not in final and nm in undetermined:
            ctx.count("unspecified_raised_call_left_cookie")
            continue
        if nm not in final:
            ctx.violation("set-cookie/unrequested-name", "a Set-Cookie line names a cookie no successful call set", wit)
            return
        if len(got) != 1:
            ctx.violation("set-cookie/same-name-emitted-twice", "more than one Set-Cookie line for one cookie name", wit)
            return
    for nm in final:
        ctx.count("oracle_evals")
        if nm not in by_name and nm not in undetermined:
            ctx.violation("set-cookie/missing-line", "a successful set_cookie call produced no Set-Cookie line", wit)
            return
    twice = [nm for nm, c in per_name_calls.items() if c >= 2 and nm in final and nm not in undetermined]
    if twice:
        ctx.count("same_name_twice_evals")

    # ---- attributes
    for nm, (kind, value, kw) in final.items():
        if nm in undetermined or nm not in by_name:
            ctx.count("unspecified_later_call_raised")
            continue
        exp, src = expected_attrs(kind, kw)
        if exp is None:
            ctx.count("unspecified_kwargs_overlap")
            continue
        got = list(by_name[nm][0][1])
        ctx.count("attr_evals")
        ctx.count("oracle_evals")
        problems = {"missing": [], "extra": [], "value": []}
        for a, want in exp:
            if isinstance(want, tuple) and want[0] == "must-raise":
                problems["value"].append(a)
                continue
            idx = next((i for i, (ga, gv) in enumerate(got) if ga == a), None)
            if idx is None:
                problems["missing"].append(a)
                continue
            ga, gv = got.pop(idx)
            if isinstance(want, tuple) and want[0] == "any":
                continue
            if isinstance(want, tuple) and want[0] == "approx-days":
                t = parse_httpdate(gv) if gv is not None else None
                lo = math.floor(t_before + want[1] * 86400) - 2
                hi = t_after + want[1] * 86400 + 2
                if t is None or not (lo <= t <= hi):
                    problems["value"].append(a)
                continue
            if gv != want:
                problems["value"].append(a)
        problems["extra"] = [ga for ga, gv in got]
        if any(problems.values()):
            tags = []
            for kind_, names in problems.items():
                if names:
                    tags.append(kind_ + "-" + "+".join(sorted(set(n if n in RESERVED else "other" for n in names))))
            tags += _falsy_shape(kw, problems)
            if src == "kwargs" and _unvalidated_kwargs_text(kw):
                tags = ["separator-space-or-control-in-kwargs-attribute"]
            ctx.violation(f"attrs/{src}/" + "/".join(tags),
                          "attributes of the emitted Set-Cookie line differ from the attributes requested in the call",
                          dict(wit, cookie=nm, expected=exp, got=by_name[nm][0][1], problems=problems))
            return

    # ---- read back through Tornado's request cookie parser (second request, browser-style Cookie header)
    if not by_name:
        ctx.mark(repr(ops), nontrivial=False)
        return
    pairs = [got[0][0] for got in by_name.values()]
    _rid[0] += 1
    rid2 = "c%d" % _rid[0]
    signed_names = [nm for nm, (kind, value, kw) in final.items() if kind == "signed" and nm in by_name]
    PLANS[rid2] = signed_names
    try:
        r2 = await sess.request(webrig.build_request("GET", "/read", [("X-Rid", rid2), ("Cookie", b"; ".join(pairs))]))
    except webrig.WireError as e:
        ctx.violation(f"wire/{e.kind}", "response is not a well-framed HTTP message", {"why": e.why, "raw": e.raw})
        return
    webrig.safety(ctx, sess, r2, "read-back request")
    got = READS.pop(rid2, None)
    PLANS.pop(rid2, None)
    ctx.count("readback_evals")
    ctx.count("oracle_evals")
    if r2 is None or r2.status != 200 or got is None:
        ctx.violation(f"readback/request-failed/status-{r2.status if r2 else 'none'}",
                      "the request presenting the emitted cookie pairs was not served", dict(wit, cookie_header=b"; ".join(pairs)))
        return
    cookies, signed = got
    wit2 = dict(wit, cookie_header=b"; ".join(pairs), read_back=cookies)
    for nm, (kind, value, kw) in final.items():
        if nm not in by_name or nm in undetermined:
            continue
        if nm not in cookies:
            ctx.violation("readback/cookie-missing", "the emitted cookie is not visible to the request-side parser", wit2)
            return
        if nm in undetermined:
            continue
        if kind == "set":
            want = value if isinstance(value, str) else value.decode("utf-8")
            if cookies[nm] != want:
                ctx.violation("readback/value-differs", "cookie value read back on the next request differs from the value set", dict(wit2, cookie=nm, want=want))
                return
        elif kind == "clear":
            if cookies[nm] != "":
                ctx.violation("readback/cleared-cookie-has-value", "clear_cookie emitted a non-empty value", dict(wit2, cookie=nm))
                return
        else:
            ctx.count("signed_readbacks")
            if signed.get(nm) != _u8(value):
                ctx.violation("readback/signed-value-differs", "get_signed_cookie on the next request does not return the value signed",
                              dict(wit2, cookie=nm, want=_u8(value), got=repr(signed.get(nm))))
                return
    extra = set(cookies) - set(by_name) - undetermined
    if extra:
        ctx.violation("readback/extra-cookie", "the request-side parser sees a cookie that was never set", dict(wit2, extra=sorted(extra)))
        return
    if ctx.mark(repr(ops), nontrivial=True):
        if any(not str(v).isalnum() for k, n, v, kw in ops if v):
            ctx.sample({"ops": ops, "set_cookie": r.get_all("set-cookie"), "read_back": cookies})


def run_shard(spec, ctx):
    import itertools
    directed = list(directed_cases()) if spec.get("shard", 0) == 0 else []
    ctx.count("directed_cases", len(directed))
    webrig.run_cases(make_session, itertools.chain(directed, gen_cases(spec)), acase, ctx)


def run_case(case, ctx):
    webrig.run_cases(make_session, [case], acase, ctx, count_evals=False)
