"""C11 — IOStream reads return exactly the incoming bytes, in order, per request contract.

Engine: the real BaseIOStream read machinery on one end of a socketpair
(`ScriptedIOStream`: every short read / spurious EWOULDBLOCK is dictated by a
plan), a harness-owned raw socket feeding a *known* stream S in a chosen arrival
pattern, everything on the virtual loop with `settle()` as the only wait.

Oracle: cursor model (vf/refs/iostream_model.py).  Every completed read must be
`S[c:c+k]` for the k its contract determines (any legal k for partial reads) and
advances c; a delimiter/regex read whose first match ends beyond max_bytes must
fail with StreamClosedError(real_error=UnsatisfiableReadError) and return no
data; at every quiescent point a read that the delivered bytes can satisfy must
be complete; after the peer's EOF every issued read must be settled, with data
iff the remaining stream satisfies it.
"""
from __future__ import annotations

import asyncio
import gc
import itertools
import socket

from vf import core, vloop, wire, logmon
from vf.vloop import settle
from vf.refs import iostream_model as M

core.use_repo()
from tornado.iostream import (StreamClosedError, UnsatisfiableReadError,  # noqa: E402
                              StreamBufferFullError)

PROP = "C11"
META = {
    "level": "exploration",
    "technique": "cursor-model oracle over a known byte stream; scripted short reads and arrival patterns on a virtual loop",
    "level_text": "Generated (stream, request sequence, arrival pattern, short-read plan, chunk/buffer size) scenarios are executed on the real BaseIOStream over a socketpair; every completed read is compared with the stream content at the model cursor and with the length its contract determines; unsatisfiable max_bytes reads must close with UnsatisfiableReadError; pending-although-satisfiable is checked at every quiescent point and after EOF. Arrival patterns of short streams are enumerated exhaustively.",
    "level_note": "Trusts the 150-line cursor model and the kernel's AF_UNIX byte delivery; regex reads restricted to arrival-independent pattern families (greedy patterns: prefix + ends-at-match only); after the first failed read or a max_buffer_size closure only contract conformance of returned data is demanded.",
    "design_ref": "DESIGN.md §4 C11",
    "engine": "wire",
}
RULE = ("a case is (stream over a 4-symbol or random alphabet, <=8 read requests of the six kinds with sizes around "
        "1/delimiter/chunk/2K/4K boundaries and max_bytes from 0 upwards, arrival cuts, A/R interleaving, read_from_fd plan, read_chunk_size, "
        "max_buffer_size, eof); non-trivial = >=3 reads judged, >=2 kinds, >=2 arrivals; distinct by the whole case; "
        "plus all 2^(L-1) arrival patterns of short streams under eager and lazy request issue")
FLOORS = {"quick": 1200, "thorough": 100000}
ASSUMPTIONS = [
    "cursor model of the documented read contracts is correct",
    "AF_UNIX socketpair delivers bytes in order (send makes data readable synchronously)",
    "regex requests use arrival-independent patterns; greedy patterns only checked for prefix/ends-at-match",
    "max_buffer_size closures and reads after the first failed read are UNSPECIFIED beyond contract conformance of returned data",
]
REQUIRED_COUNTERS = ["oracle_evals", "reads_data", "reads_failed", "unsat_expected", "unsat_expected_max_bytes_0", "eof_settled",
                     "kind:bytes", "kind:bytes_partial", "kind:into", "kind:into_partial", "kind:until",
                     "kind:until_max", "kind:regex", "kind:regex_max", "kind:close", "inline_completions",
                     "event_completions"]


def EXHAUSTIVE(tier):
    return ("all 2^(L-1) arrival patterns of %d short streams (L<=%d), each under eager and lazy request issue"
            % ((24, 7) if tier == "quick" else (200, 9)))


# --------------------------------------------------------------------------
# generator

ALPHAS = [b"ab\r\n", b"ab\r\n", b"abc\n", b"a\n\r\n"]
WEIGHTS = [[1, 1, 1, 1], [6, 3, 1, 1], [30, 8, 1, 1], [1, 1, 3, 3], [12, 1, 1, 1]]
GREEDY = [b"a+", b"ab*", b"\n+", b"b[a\r]*"]


def gen_stream(rng, L):
    if L == 0:
        return b"", b"ab\r\n"
    if rng.random() < 0.12:
        return rng.randbytes(L), b"ab\r\n"
    alpha = rng.choice(ALPHAS)
    return bytes(rng.choices(alpha, rng.choice(WEIGHTS), k=L)), alpha


def pick_n(rng, rem, chunk, dlen=2):
    ch = chunk or 65536
    cands = [0, 1, 1, 2, 3, dlen, 15, 16, 17, 63, 64, 65, ch - 1, ch, ch + 1, 2 * ch, 2047, 2048, 2049,
             4095, 4096, 4097, rem, rem - 1, rem // 2, rem // 3]
    cands = [n for n in cands if n >= 0]
    if rng.random() < 0.9:
        ok = [n for n in cands if n <= rem]
        if ok:
            return rng.choice(ok)
    return rng.choice([rem + 1, rem + 7, 1, 2])


def pick_delim(rng, S, c, alpha):
    r = rng.random()
    rem = len(S) - c
    if r < 0.45 and rem >= 1:
        # a substring that exists ahead of the cursor (possibly far, possibly straddling)
        w = rng.choice([1, 1, 2, 2, 3, 4, 4, 8])
        p = c + rng.randrange(0, rem)
        d = S[p:p + w]
        if d:
            return d
    if r < 0.9:
        return bytes(rng.choice(alpha) for _ in range(rng.choice([1, 2, 2, 3, 4])))
    return rng.choice([b"zz", b"\r\n\r\n", b"\x00", b"abab"])


def pick_regex(rng, S, c, alpha):
    r = rng.random()
    if r < 0.3:
        return ("http",)
    if r < 0.6:
        w = rng.choice([1, 2, 2, 3])
        return ("alt", tuple(sorted({bytes(rng.choice(alpha) for _ in range(w)) for _ in range(rng.choice([1, 2, 3]))})))
    if r < 0.9:
        w = rng.choice([1, 2, 3])
        return ("cls", tuple(bytes(sorted(set(rng.choices(alpha, k=rng.choice([1, 2, 3]))))) for _ in range(w)))
    return ("greedy", rng.choice(GREEDY))


def pick_max(rng, m, rem, chunk, dlen=1):
    """max_bytes around every boundary, including the smallest legal values: 0 (no delimiter fits: the read can only
    close the stream once a byte is there), and one less than / exactly the delimiter's own length."""
    ch = chunk or 65536
    cands = [0, 1, 2, dlen - 1, dlen, 16, 64, ch - 1, ch, ch + 1, rem, rem + 1, max(1, rem - 1), max(1, rem // 2)]
    if m is not None:
        cands += [m, m, m + 1, m + 1, m - 1, m - 1, m + 5, max(0, m - 5)]
    return max(0, rng.choice(cands))


def gen_reqs(rng, S, alpha, nreq, chunk):
    c = 0
    reqs = []
    failed = 0
    for i in range(nreq):
        rem = len(S) - c
        last = i == nreq - 1
        k = rng.choice(["bytes", "bytes", "bytesp", "into", "intop", "until", "until", "untilm", "untilm",
                        "regex", "regexm", "regexm"] + (["close"] * 4 if last else []))
        if k == "bytes":
            req = ("bytes", pick_n(rng, rem, chunk), False)
        elif k == "bytesp":
            req = ("bytes", max(1, pick_n(rng, rem, chunk)) if rng.random() < 0.95 else 0, True)
        elif k == "into":
            req = ("into", pick_n(rng, rem, chunk), False)
        elif k == "intop":
            req = ("into", max(1, pick_n(rng, rem, chunk)), True)
        elif k in ("until", "untilm"):
            d = pick_delim(rng, S, c, alpha)
            m = M.first_match_end(("until", d, None), S[c:])
            req = ("until", d, pick_max(rng, m, rem, chunk, len(d)) if k == "untilm" else None)
        elif k in ("regex", "regexm"):
            rx = pick_regex(rng, S, c, alpha)
            if rx[0] == "greedy":
                req = ("regex", rx, None)
            else:
                m = M.first_match_end(("regex", rx, None), S[c:])
                req = ("regex", rx, pick_max(rng, m, rem, chunk) if k == "regexm" else None)
        else:
            req = ("close",)
        reqs.append(req)
        m = M.first_match_end(req, S[c:]) if req[0] in ("until", "regex") and not M.is_greedy(req) else None
        e = M.expect(req, m, rem, True)
        if e[0] == "data":
            c += e[1]
        elif e[0] == "partial":
            c += e[2]
        elif e[0] == "unspec":
            mm = __import__("re").search(M.regex_source(req[1]), S[c:])
            if mm is None:
                failed += 1
            else:
                c += mm.end()
        else:
            failed += 1
        if failed and (failed > 2 or rng.random() < 0.5):
            break
    return reqs


def gen_cuts(rng, total, chunk):
    if total <= 1:
        return [total] if total else []
    r = rng.random()
    if r < 0.12:
        return [total]
    if r < 0.27 and total <= 150:
        return [1] * total
    if r < 0.37 and total <= 300:
        return [2] * ((total) // 2) + ([1] if total % 2 else [])
    if r < 0.6 and chunk and total > chunk:
        # cuts at chunk boundaries +-1
        out, pos = [], 0
        while pos < total and len(out) < 40:
            n = max(1, chunk * rng.choice([1, 1, 2]) + rng.choice([-1, 0, 0, 1]))
            n = min(n, total - pos)
            out.append(n)
            pos += n
        if pos < total:
            out.append(total - pos)
        return out
    return wire.cuts_for(rng, total, "random")


def gen_plan(rng, L, chunk):
    r = rng.random()
    if r < 0.35:
        return None
    if r < 0.5 and L <= 600:
        return ("one",)
    if r < 0.7:
        return [rng.choice([0, 1, 1, 2, 3, 5, 7, 16, 64, 4096]) for _ in range(rng.randint(4, 80))]
    if r < 0.85:
        out = []
        for _ in range(rng.randint(2, 40)):
            out += [0, rng.choice([1, 2, 64, 4096])]
        return out
    ch = chunk or 4096
    return [rng.choice([ch, ch, ch - 1, 1, 0]) for _ in range(rng.randint(4, 60))]


def gen_sched(rng, na, nr):
    r = rng.random()
    if r < 0.25:
        return "R" * nr + "A" * na          # eager: every read issued as soon as the previous one completes
    if r < 0.45:
        return "A" * na + "R" * nr          # lazy: everything already in the socket (inline path)
    toks = ["A"] * na + ["R"] * nr
    rng.shuffle(toks)
    return "".join(toks)


def gen_random_case(rng, big_ok=True):
    r = rng.random()
    if r < 0.08:
        L = rng.choice([0, 1, 2, 3])
    elif r < 0.75 or not big_ok:
        L = rng.randint(4, 300)
    elif r < 0.9:
        L = rng.randint(300, 2200)
    else:
        L = rng.randint(2200, 6144)
    S, alpha = gen_stream(rng, L)
    if L <= 300:
        chunk = rng.choice([16, 16, 64, 64, 4096, None])
    else:
        chunk = rng.choice([16, 64, 64, 4096, 4096, None])
    maxbuf = None
    if rng.random() < 0.12:
        maxbuf = rng.choice([32, 64, 128, 200, 1000, 4096])
    reqs = gen_reqs(rng, S, alpha, rng.randint(1, 8), chunk)
    cuts = gen_cuts(rng, L, chunk)
    return {"S": S, "reqs": reqs, "cuts": cuts, "sched": gen_sched(rng, len(cuts), len(reqs)),
            "plan": gen_plan(rng, L, chunk), "chunk": chunk, "maxbuf": maxbuf,
            "eof": rng.random() < 0.7}


def compositions(L):
    """All ordered compositions of L (2^(L-1))."""
    for mask in range(1 << (L - 1)):
        out, run = [], 1
        for i in range(L - 1):
            if mask >> i & 1:
                out.append(run)
                run = 1
            else:
                run += 1
        out.append(run)
        yield out


def gen_exhaustive(rng, nstreams, maxL):
    for _ in range(nstreams):
        L = rng.randint(max(4, maxL - 3), maxL)
        S, alpha = gen_stream(rng, L)
        chunk = rng.choice([2, 3, 16])
        reqs = gen_reqs(rng, S, alpha, rng.randint(3, 5), chunk)
        eof = rng.random() < 0.7
        plan = rng.choice([None, None, [1, 0, 2, 3, 0, 1, 1]])
        for cuts in compositions(L):
            for sched in ("R" * len(reqs) + "A" * len(cuts), "A" * len(cuts) + "R" * len(reqs)):
                yield {"S": S, "reqs": reqs, "cuts": cuts, "sched": sched, "plan": plan,
                       "chunk": chunk, "maxbuf": None, "eof": eof}


def shards(tier, seed):
    out = []
    if tier == "quick":
        for j in range(14):
            out.append({"kind": "rand", "n": 500, "j": j})
        for j in range(2):
            out.append({"kind": "exh", "streams": 12, "maxL": 7, "j": j})
    else:
        for j in range(40):
            out.append({"kind": "rand", "n": 10000, "j": j})
        for j in range(8):
            out.append({"kind": "exh", "streams": 25, "maxL": 9, "j": j})
    return out


def gen_cases(spec):
    rng = core.rng_for(spec["seed"], PROP, f"{spec['kind']}{spec['j']}")
    if spec["kind"] == "rand":
        for _ in range(spec["n"]):
            yield gen_random_case(rng)
    else:
        yield from gen_exhaustive(rng, spec["streams"], spec["maxL"])


def directed_cases():
    # delimiter arriving in the same read loop as EOF, after a non-searching (non-doubling) read
    yield {"S": b"aaaaaaaaaabb\r\nxyz", "reqs": [("until", b"\r\n", None), ("bytes", 3, False)],
           "cuts": [17], "sched": "RRA", "plan": [10, 3, 1, 1, 1, 1], "chunk": 16, "maxbuf": None, "eof": True}
    # read_into followed by another read: the bytes buffered behind the user buffer must not be lost
    yield {"S": b"0123456789abcdef", "reqs": [("bytes", 1, False), ("into", 5, False), ("bytes", 10, False)],
           "cuts": [16], "sched": "ARRR", "plan": None, "chunk": 64, "maxbuf": None, "eof": False}
    # regression witnesses of fixes/C11-stale-read-state-after-failed-read: a read that failed at close
    # left its request state behind and later reads on the closed stream were matched against it
    yield {"S": b"abcdefgh", "reqs": [("until", b"h", 3), ("regex", ("alt", (b"c",)), None)],
           "cuts": [8], "sched": "ARR", "plan": None, "chunk": 64, "maxbuf": None, "eof": False}
    yield {"S": b"abc", "reqs": [("into", 10, False), ("bytes", 2, False)],
           "cuts": [3], "sched": "RAR", "plan": None, "chunk": 64, "maxbuf": None, "eof": True}
    yield {"S": b"aaaaaab", "reqs": [("regex", ("cls", (b"b",)), 2), ("bytes", 65, False)],
           "cuts": [7], "sched": "ARR", "plan": None, "chunk": 64, "maxbuf": None, "eof": False}
    # first delimiter ends exactly at / one past max_bytes
    yield {"S": b"aaaa\r\naaaa\r\n", "reqs": [("until", b"\r\n", 6), ("until", b"\r\n", 5)],
           "cuts": [3, 9], "sched": "RARA", "plan": None, "chunk": 16, "maxbuf": None, "eof": True}
    # max_bytes=0 is a limit like any other: no delimiter fits, so the first byte makes the read unsatisfiable
    # (issued before the bytes arrive / with the bytes already buffered behind an earlier read / regex / delimiter
    # at the very front of the stream)
    yield {"S": b"ab\r\nab", "reqs": [("until", b"\r\n", 0)],
           "cuts": [2, 4], "sched": "RAA", "plan": None, "chunk": 16, "maxbuf": None, "eof": True}
    yield {"S": b"ab\r\nab", "reqs": [("bytes", 1, False), ("until", b"\r\n", 0)],
           "cuts": [6], "sched": "ARR", "plan": None, "chunk": 16, "maxbuf": None, "eof": False}
    yield {"S": b"\nabc", "reqs": [("regex", ("alt", (b"\n",)), 0)],
           "cuts": [4], "sched": "AR", "plan": None, "chunk": 64, "maxbuf": None, "eof": False}
    yield {"S": b"\r\n\r\nab", "reqs": [("regex", ("http",), 0)],
           "cuts": [1, 5], "sched": "RAA", "plan": ["one"], "chunk": None, "maxbuf": None, "eof": True}
    yield {"S": b"a\r\nb", "reqs": [("until", b"\r\n", 1), ("bytes", 1, False)],
           "cuts": [4], "sched": "ARR", "plan": None, "chunk": 16, "maxbuf": None, "eof": True}


# --------------------------------------------------------------------------
# execution + oracle

_LM = None
_NCASE = 0


def _lm():
    global _LM
    if _LM is None:
        _LM = logmon.LogMon()
        _LM.__enter__()
    return _LM


def _plan_iter(plan):
    if plan is None:
        return None
    if plan == ("one",) or plan == ["one"]:
        return itertools.repeat(1, 20000)
    return list(plan)


class Run:
    def __init__(self, case, ctx, lm):
        self.case, self.ctx, self.lm = case, ctx, lm
        self.S = case["S"]
        self.c = 0              # model cursor
        self.sent = 0
        self.eof = False
        self.relaxed = False    # after a failed read / buffer-full closure: conformance only
        self.pending = None
        self.judged = 0
        self.kinds = set()
        self.after_into = False
        self.ok = True
        self.stop = False       # max_buffer_size closure: nothing further is pinned (UNSPECIFIED)

    def bad(self, mech, what, extra=None):
        self.ok = False
        if self.relaxed:
            # reads issued after a read already failed on the (now closed) stream: one root-cause class
            mech = "after-failed-read/" + mech.split("/", 1)[1]
        w = {"cursor": self.c, "sent": self.sent, "eof": self.eof, "relaxed": self.relaxed,
             "stream_len": len(self.S), "around_cursor": self.S[max(0, self.c - 8):self.c + 40]}
        if extra:
            w.update(extra)
        self.ctx.violation(mech, what, w)

    def buffer_full_seen(self):
        return any("Reached maximum read buffer size" in r["msg"] for r in self.lm.records)

    # -- issue ---------------------------------------------------------
    def issue(self, st, req):
        S, c = self.S, self.c
        m = None
        if req[0] in ("until", "regex") and not M.is_greedy(req):
            m = M.first_match_end(req, S[c:])
        buf = None
        fut = None
        raised = None
        closed_at_issue = st.closed()
        try:
            k = req[0]
            if k == "bytes":
                fut = st.read_bytes(req[1], partial=req[2])
            elif k == "into":
                buf = bytearray(req[1])
                fut = st.read_into(buf, partial=req[2])
            elif k == "until":
                fut = st.read_until(req[1], max_bytes=req[2])
            elif k == "regex":
                fut = st.read_until_regex(M.regex_source(req[1]), max_bytes=req[2])
            else:
                fut = st.read_until_close()
        except (StreamClosedError, StreamBufferFullError) as e:
            raised = e
        except Exception as e:  # anything else out of a read call is never legal
            raised = e
        self.ctx.count("kind:" + M.kind_of(req))
        self.pending = {"req": req, "fut": fut, "buf": buf, "m": m, "raised": raised,
                        "closed_at_issue": closed_at_issue, "inline": True}
        self.poll(quiescent=False)
        if self.pending is not None:
            self.pending["inline"] = False

    # -- judge ---------------------------------------------------------
    def poll(self, quiescent):
        p = self.pending
        if p is None:
            return
        req, fut = p["req"], p["fut"]
        kind = M.kind_of(req)
        if self.buffer_full_seen() and not self.stop:
            # closure by max_buffer_size is outside the statement: judge what this read returned for
            # conformance only, then end the scenario
            self.stop = True
            self.ctx.count("unspecified_buffer_full_closures")
        avail = self.sent - self.c
        exp = M.expect(req, p["m"], avail, self.eof)
        if p["raised"] is not None:
            outcome, val = "exc", p["raised"]
        elif fut.done():
            if fut.cancelled():
                outcome, val = "exc", asyncio.CancelledError()
            elif fut.exception() is not None:
                outcome, val = "exc", fut.exception()
            else:
                outcome, val = "data", fut.result()
        else:
            if not quiescent:
                return
            self.ctx.count("oracle_evals")
            if exp[0] in ("pending", "unspec") or self.relaxed or self.stop:
                return
            self.bad(f"{kind}/pending-although-{exp[0]}",
                     "read still pending at quiescence although the delivered bytes determine its outcome",
                     {"req": req, "expected": exp})
            self.pending = None   # do not re-report
            return
        # settled
        self.pending = None
        self.judged += 1
        self.kinds.add(kind)
        self.ctx.count("oracle_evals")
        self.ctx.count("inline_completions" if p["inline"] else "event_completions")
        self.ctx.seen("oracle_branch", (kind, outcome, exp[0], self.relaxed))
        if outcome == "exc":
            self.ctx.count("reads_failed")
            e = val
            if isinstance(e, StreamBufferFullError) or self.stop:
                self.ctx.count("unspecified_buffer_full_raised")
                self.stop = True
                return
            if not isinstance(e, StreamClosedError):
                self.bad(f"{kind}/raised-{type(e).__name__}", "read failed with something other than StreamClosedError",
                         {"req": req, "error": repr(e), "expected": exp})
                self.relaxed = True
                return
            if self.relaxed:
                self.ctx.count("unspecified_post_failure_reads_failed")
            elif exp[0] == "unsat":
                self.ctx.count("unsat_expected")
                if req[2] == 0:
                    self.ctx.count("unsat_expected_max_bytes_0")
                if not p["closed_at_issue"] and not isinstance(e.real_error, UnsatisfiableReadError):
                    self.bad(f"{kind}/unsat-real-error", "max_bytes closure does not carry UnsatisfiableReadError",
                             {"req": req, "real_error": repr(e.real_error)})
            elif exp[0] == "fail":
                self.ctx.count("eof_settled")
            elif exp[0] == "unspec":
                self.ctx.count("unspecified_greedy_failed")
            else:
                self.bad(f"{kind}/failed-although-{exp[0]}",
                         "read failed with StreamClosedError although the delivered bytes satisfy it (bytes lost)",
                         {"req": req, "expected": exp, "real_error": repr(e.real_error)})
            self.relaxed = True
            return
        # data
        self.ctx.count("reads_data")
        if req[0] == "into":
            if not isinstance(val, int) or isinstance(val, bool) or val < 0 or val > len(p["buf"]):
                self.bad(f"{kind}/count-type", "read_into did not return a byte count within the buffer",
                         {"req": req, "got": repr(val)[:80]})
                self.relaxed = True
                return
            data = bytes(p["buf"][:val])
        else:
            if not isinstance(val, bytes):
                self.bad(f"{kind}/result-type", "read returned something other than bytes",
                         {"req": req, "got": repr(val)[:80]})
                self.relaxed = True
                return
            data = val
        probs = M.conformance(req, data, self.S, self.c, p["m"], self.sent)
        for suffix, text in probs:
            if suffix == "not-at-cursor" and self.after_into:
                suffix = "not-at-cursor-after-read_into"
            self.bad(f"{kind}/{suffix}", text, {"req": req, "got_len": len(data), "got": data[:80], "expected": exp,
                                                "want": self.S[self.c:self.c + len(data)][:80]})
        if not probs and not self.relaxed and not self.stop:
            if exp[0] == "data":
                if len(data) != exp[1]:
                    self.bad(f"{kind}/length-vs-model", "read returned a different length than its contract determines",
                             {"req": req, "got_len": len(data), "expected": exp})
            elif exp[0] == "partial":
                if not (exp[1] <= len(data) <= exp[2]):
                    self.bad(f"{kind}/partial-length", "partial read returned a length outside 1..min(n, available)",
                             {"req": req, "got_len": len(data), "expected": exp})
            elif exp[0] == "unspec":
                self.ctx.count("unspecified_greedy_returned")
            elif exp[0] == "unsat":
                self.bad(f"{kind}/returned-data-although-unsat",
                         "delimiter not found within max_bytes but the read returned data instead of closing",
                         {"req": req, "got_len": len(data), "expected": exp})
            else:
                self.bad(f"{kind}/returned-data-although-{exp[0]}",
                         "read completed although the available bytes do not satisfy it",
                         {"req": req, "got_len": len(data), "expected": exp})
        if probs and probs[0][0].startswith("not-at-cursor"):
            self.relaxed = True   # model and stream can no longer be aligned
            self.c = min(len(self.S), self.c + len(data))
        else:
            self.c += len(data)
        self.after_into = req[0] == "into"


async def _scenario(case, ctx, lm):
    lm.attach_loop(asyncio.get_running_loop())
    S = case["S"]
    a, b = wire.socketpair()
    b.setsockopt(socket.SOL_SOCKET, socket.SO_SNDBUF, 1 << 20)
    kw = {}
    if case.get("chunk"):
        kw["read_chunk_size"] = case["chunk"]
    if case.get("maxbuf"):
        kw["max_buffer_size"] = case["maxbuf"]
    st = wire.ScriptedIOStream(a, read_plan=_plan_iter(case["plan"]), **kw)
    run = Run(case, ctx, lm)
    reqs = list(case["reqs"])
    cuts = list(case["cuts"])
    ri = ai = 0
    deferred = 0
    peer_dead = False

    def issue_ready():
        nonlocal ri, deferred
        while deferred > 0 and run.pending is None and ri < len(reqs) and run.ok and not run.stop:
            deferred -= 1
            run.issue(st, reqs[ri])
            ri += 1

    async def arrive():
        nonlocal ai, peer_dead
        n = cuts[ai]
        ai += 1
        seg = S[run.sent:run.sent + n]
        run.sent += len(seg)
        if not peer_dead:
            try:
                if seg and b.send(seg) != len(seg):
                    raise RuntimeError("harness: short send on socketpair")
            except BlockingIOError:
                raise RuntimeError("harness: socketpair buffer full")
            except OSError:
                peer_dead = True
        await settle()
        run.poll(True)
        issue_ready()

    try:
        for tok in case["sched"]:
            if not run.ok or run.stop:
                break
            if tok == "R":
                deferred += 1
                issue_ready()
            elif ai < len(cuts):
                await arrive()
        while ai < len(cuts) and run.ok and not run.stop:
            await arrive()
        assert run.sent == len(S) or not run.ok or run.stop
        # every remaining request is wanted now
        deferred = len(reqs)
        issue_ready()
        await settle()
        run.poll(True)
        issue_ready()
        if case["eof"] and run.ok and not run.stop:
            try:
                b.shutdown(socket.SHUT_WR)
            except OSError:
                pass
            run.eof = True
            for _ in range(len(reqs) + 2):
                await settle()
                run.poll(True)
                issue_ready()
                if run.pending is None and ri >= len(reqs):
                    break
        if run.ok:
            bad = lm.uncaught()
            ctx.count("oracle_evals")
            if bad:
                run.bad("log/uncaught-exception", "read workload produced an uncaught-exception / never-retrieved log record",
                        {"records": bad[:3]})
    finally:
        try:
            if not st.closed():
                st.close()
        except Exception:
            pass
        b.close()
        try:
            a.close()
        except Exception:
            pass
    return run


def run_case(case, ctx):
    global _NCASE
    lm = _lm()
    lm.records.clear()
    lm.loop_exceptions.clear()
    run = vloop.run(_scenario, case, ctx, lm, collect=False)
    _NCASE += 1
    gc.collect(1 if _NCASE % 100 else 2)
    nontriv = run.judged >= 3 and len(run.kinds) >= 2 and len(case["cuts"]) >= 2
    ctx.mark((case["S"], tuple(case["reqs"]), tuple(case["cuts"]), case["sched"],
              repr(case["plan"]), case["chunk"], case["maxbuf"], case["eof"]), nontriv)
    if nontriv and len(case["S"]) <= 64:
        ctx.sample({"S": case["S"], "reqs": case["reqs"], "cuts": case["cuts"], "sched": case["sched"],
                    "plan": case["plan"], "chunk": case["chunk"], "eof": case["eof"]}, limit=3)
