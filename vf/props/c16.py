"""C16 — WebSocket close handshake is orderly and reported exactly once.

Fault enumeration over close scenarios in *virtual time*, both roles (tornado as
server behind HTTPServer/Application, tornado as websocket_connect client) against a
raw reference peer whose socket is watched by the loop, so every frame tornado sends
and the TCP EOF carry the exact virtual time at which they happened.

Checked per scenario (trace checkers + a small close state machine for the expectations):
  * at most one close frame from tornado, no data frame (opcode 0/1/2) after it;
  * a close frame sent in response to the peer's carries the peer's code;
  * TCP torn down within 5 s (+eps) after both close frames were exchanged / after
    tornado's own close with a silent peer; always torn down by the end of the scenario;
  * "once both sides have closed": when both close frames have been exchanged within the
    closing timeout and nothing delays tornado's reader, the teardown happens at that very
    virtual instant (no timer may have to fire first), whichever side closed first;
  * close notification (on_close / None message) exactly once, with the peer's code and
    reason when its close frame was received;
  * write_message after close()/after the notification raises WebSocketClosedError;
  * no uncaught-exception log records.
"""
from __future__ import annotations

import asyncio
import itertools
import random

from vf import core, vloop
from vf.logmon import LogMon
from vf.refs import ws, ws_rig
from vf.vloop import settle

core.use_repo()
import tornado.websocket as tws  # noqa: E402

PROP = "C16"
META = {
    "level": "fault_enumeration",
    "technique": "enumerated close/disconnect/ping-timeout scenarios in virtual time; time-stamped wire trace decoded by an "
                 "independent codec; at-most-once / never-after / deadline / exactly-once trace checkers",
    "level_text": "Scenario families (peer close with every payload shape, local close with every peer reaction and reaction "
                  "delay around the 5 s closing timeout, crossing closes in both orders, peer disconnect at every frame "
                  "boundary and mid-frame, close from inside sync/async on_message with messages in flight, async "
                  "on_message pending while the peer closes or disconnects, ping interval/timeout with pongs before/at/"
                  "after the deadline, repeated closes) are enumerated for both roles; the 5 s closing timeout and all "
                  "ping timers run on the virtual clock.",
    "level_note": "Deadlines are upper bounds only (statement gives no lower bound): 5 s after tornado's close for a "
                  "silent peer, and the instant of the second close frame (+1 ms virtual, i.e. without any timer firing) "
                  "when both sides have closed and tornado's reader is not held up by the application. Close frames with a 1-byte payload "
                  "(no decodable code) or frames after the peer's close are UNSPECIFIED for code/reason values; status codes "
                  "that are reserved, forbidden on the wire or unassigned (0-999, 1004-1006, 1015-2999, 5000+) are echoed and "
                  "reported like any other code (the statement's echo clause has no exception for the value). "
                  "Teardown is observed as EOF on the peer socket, so peers disconnect by half-close where teardown is "
                  "checked.",
    "design_ref": "DESIGN.md §4 C16",
    "engine": "vloop",
}
RULE = ("a case = role x family x parameters (close payload, codes/reasons, peer reaction and delay, cut offset, "
        "on_message behaviour and delay, ping interval/timeout/pong delay, deflate, reader style); every scenario closes "
        "or disconnects, so all are non-trivial; distinct by the scenario description")
FLOORS = {"quick": 1200, "thorough": 20000}
ASSUMPTIONS = ["virtual loop over AF_UNIX: a frame/EOF becomes readable at the instant tornado writes/closes",
               "eps = 1 ms virtual"]
REQUIRED_COUNTERS = ["oracle_evals", "teardown_checked", "echo_checked", "echo_checked/reserved-or-unassigned-code",
                     "notify_checked", "write_after_close_checked",
                     "prompt_teardown_checked/tornado-closed-first", "prompt_teardown_checked/peer-closed-first",
                     "timeout_path_scenarios", "ping_timeout_closes", "disconnect_scenarios"]
EPS = 1e-3
TIMEOUT = 5.0

CLOSE_PAYLOADS = [
    ("none", None, b""), ("code", 1000, b""), ("code", 1001, b""), ("code+reason", 1001, b"going away"),
    ("code+reason", 3000, "grund é水".encode()), ("code", 4999, b""), ("code+reason", 1011, b"x" * 123),
    ("code", 1002, b""), ("code+reason", 4000, b"r"),
]
# Status codes that RFC 6455 7.4 reserves, forbids on the wire or leaves unassigned.  The statement's echo clause
# ("echoes the peer's close code unless it had already sent its own close frame") and its notification clause ("with the
# peer's code and reason when one was received") are quantified over every peer close frame that carries a code; they make
# no exception for the value, tornado documents "Echo the received close code, if any" and does so for every 16-bit
# value - so these are gated like the registered codes.  Only a payload that carries no decodable code (1 byte) is
# UNSPECIFIED.
RESERVED_CODE_PAYLOADS = [
    ("code", 1005, b""), ("code+reason", 1005, b"no status"), ("code", 1006, b""), ("code+reason", 1006, b"abnormal"),
    ("code", 1015, b""), ("code+reason", 1015, b"tls"), ("code", 1004, b""), ("code", 0, b""), ("code+reason", 1, b"low"),
    ("code", 999, b""), ("code", 1016, b""), ("code+reason", 2999, b"unassigned"), ("code", 5000, b""),
    ("code+reason", 65535, b"z"), ("code", 1012, b""), ("code", 1014, b""),
]
RESERVED_CODES = sorted({p[1] for p in RESERVED_CODE_PAYLOADS})
UNSPEC_PAYLOADS = [("1byte", None, None)]
BADUTF8_PAYLOAD = ("badutf8-reason", 1000, b"\xff\xfe")
LOCAL = [(None, None), (1000, None), (None, "bye"), (1001, "going"), (4000, "x" * 100), (3001, "é")]


# ---------------------------------------------------------------------------
# scenario generation

def S(role, family, steps, **kw):
    d = {"role": role, "family": family, "steps": steps, "deflate": False, "ping": None, "pong_delay": "never",
         "reader": "callback", "seed": 0}
    d.update(kw)
    return d


def peer_close_step(p, do_settle=True):
    return ("peer_close", p[0], p[1], p[2], do_settle)


def enumerate_scenarios(tier):
    out = []
    for role in ("server", "client"):
        readers = ["callback"] if role == "server" else ["callback", "queue"]
        # F1 peer-initiated close
        for p in CLOSE_PAYLOADS + RESERVED_CODE_PAYLOADS + UNSPEC_PAYLOADS + [BADUTF8_PAYLOAD]:
            for pre in (0, 1, 2):
                for follow in ("stay", "half", "junk"):
                    if p in RESERVED_CODE_PAYLOADS and (pre, follow) not in ((0, "stay"), (1, "half"), (2, "stay")):
                        continue
                    for reader in readers:
                        steps = [("msg", "m%d" % i) for i in range(pre)]
                        steps.append(peer_close_step(p))
                        if follow == "half":
                            steps.append(("peer_eof", "half"))
                        elif follow == "junk":
                            steps.append(("msg", "after-close"))
                        steps.append(("local_write", "after-notify"))
                        out.append(S(role, "peer-close", steps, reader=reader, deflate=(pre == 2)))
        # F2 local close, peer reacts
        for lc in LOCAL:
            for react in ("echo", "other-code", "silent", "disconnect", "no-code"):
                for delay in (0.0, 1.0, 4.9, 5.0, 5.1):
                    if react in ("silent",) and delay:
                        continue
                    for pre in (0, 1):
                        steps = [("msg", "m%d" % i) for i in range(pre)]
                        steps.append(("local_write", "open"))
                        steps.append(("local_close", lc[0], lc[1]))
                        steps.append(("local_write", "after-local-close"))
                        if delay:
                            steps.append(("sleep", delay))
                        if react == "echo":
                            steps.append(peer_close_step(("code", lc[0] or 1000, b"")))
                        elif react == "other-code":
                            steps.append(peer_close_step(("code+reason", 4321, b"mine")))
                        elif react == "no-code":
                            steps.append(peer_close_step(("none", None, b"")))
                        elif react == "disconnect":
                            steps.append(("peer_eof", "half"))
                        steps.append(("local_write", "after-local-close"))
                        out.append(S(role, "local-close/" + react, steps))
        # F3 crossing closes
        for first in ("local", "peer"):
            for lc in LOCAL[:4]:
                for p in CLOSE_PAYLOADS[:5]:
                    out.append(S(role, "crossing/" + first, [("msg", "m0"), ("cross", first, lc[0], lc[1], p)]))
        for first in ("local", "peer"):
            for p in RESERVED_CODE_PAYLOADS[::2]:
                out.append(S(role, "crossing/" + first, [("cross", first, 1000, None, p)]))
        # local close answered by a close frame with a reserved code: own code stays, notification carries the peer's
        for p in RESERVED_CODE_PAYLOADS[1::3]:
            out.append(S(role, "local-close/other-code", [("local_close", 1001, "going"), ("local_write", "after-local-close"),
                                                          peer_close_step(p), ("local_write", "after-local-close")]))
        # F8 repeated closes
        for lc in LOCAL[:3]:
            out.append(S(role, "double-local-close", [("local_close", lc[0], lc[1]), ("local_close", 1001, "again"),
                                                      ("sleep", 1.0), ("local_close", None, None),
                                                      peer_close_step(("code", 1000, b""))]))
            out.append(S(role, "local-close-after-peer-close", [peer_close_step(CLOSE_PAYLOADS[3]),
                                                                ("local_close", lc[0], lc[1]),
                                                                ("local_write", "after-local-close")]))
        # F4 disconnect at every frame boundary and mid-frame
        script = disconnect_script(role)
        total = sum(len(f) for f in script)
        bounds = set(itertools.accumulate(len(f) for f in script)) | {0}
        offsets = sorted(bounds | {b + 1 for b in bounds if b + 1 < total} | {b - 1 for b in bounds if b > 0}
                         | set(range(0, total, 7 if tier == "quick" else 2)))
        for off in offsets:
            for how in ("half", "close", "reset"):
                for reader in readers:
                    out.append(S(role, "disconnect", [("script_cut", off, how)], reader=reader))
        # F5 close from inside on_message, messages in flight
        for kind in ("CLOSE", "CLOSESLEEP:1", "CLOSESLEEP:6"):
            if role == "client" and kind != "CLOSE":
                continue
            for inflight in (0, 2):
                for react in ("echo", "silent", "disconnect"):
                    steps = [("msgs_nosettle", [kind] + ["WRITE"] * inflight)]
                    if react == "echo":
                        steps.append(peer_close_step(("code", 1000, b""), False))
                    elif react == "disconnect":
                        steps.append(("peer_eof", "half"))
                    out.append(S(role, "close-in-on_message/" + kind.split(":")[0].lower(), steps))
        # F6 async on_message pending while the peer closes / disconnects / local close
        if role == "server":
            for d in (1, 6):
                for what in ("peer-close", "disconnect", "local-close", "peer-close+msgs"):
                    steps = [("msgs_nosettle", ["SLEEP:%d" % d])]
                    if what == "peer-close":
                        steps.append(peer_close_step(CLOSE_PAYLOADS[3], False))
                    elif what == "peer-close+msgs":
                        steps.append(("msgs_nosettle", ["q1", "q2"]))
                        steps.append(peer_close_step(CLOSE_PAYLOADS[1], False))
                    elif what == "disconnect":
                        steps.append(("peer_eof", "half"))
                    else:
                        steps.append(("local_close", 1000, "now"))
                        steps.append(("local_write", "after-local-close"))
                    out.append(S(role, "async-on_message/" + what, steps))
        else:
            for what in ("peer-close", "disconnect"):
                steps = [("msgs_nosettle", ["a", "b", "c"])]
                steps.append(peer_close_step(CLOSE_PAYLOADS[3], False) if what == "peer-close" else ("peer_eof", "half"))
                out.append(S(role, "slow-reader/" + what, steps, reader="queue-slow"))
        # F7 ping interval / timeout racing with pongs
        for (I, T) in ((1.0, 0.5), (2.0, 2.0), (1.0, None), (1.0, 0.0), (0.5, 0.25)):
            teff = I if T is None else T
            delays = ["never", 0.0, teff / 2, teff, teff + 0.1] if teff > 0 else ["never", 0.0]
            for pd in delays:
                for then in ("nothing", "peer-close@2.6", "local-close@2.6", "peer-answers-close", "disconnect@1.2",
                             "app-write-after-timeout-close"):
                    steps = []
                    if then == "app-write-after-timeout-close":
                        if teff <= 0 or pd not in ("never", teff + 0.1):
                            continue
                        # the library has started the close handshake on its own; the application then writes
                        steps = [("sleep", I + teff + 0.3), ("local_write", "after-ping-timeout-close")]
                    if then == "peer-close@2.6":
                        steps = [("sleep", 2.6), peer_close_step(("code", 1001, b""))]
                    elif then == "local-close@2.6":
                        steps = [("sleep", 2.6), ("local_close", 1000, None)]
                    elif then == "peer-answers-close":
                        steps = [("answer_close", 0.3)]
                    elif then == "disconnect@1.2":
                        steps = [("sleep", 1.2), ("peer_eof", "half")]
                    steps.append(("sleep", 9.0))
                    out.append(S(role, "ping/" + then.split("@")[0], steps, ping=(I, T), pong_delay=pd))
    return out


def disconnect_script(role):
    """A fixed frame script for the disconnect family: message, ping, fragmented message, 16-bit message."""
    k = (lambda i: bytes([i, 2 * i + 1, 7, 9])) if role == "server" else (lambda i: None)
    return [ws.build_frame(1, b"one", mask=k(1)), ws.build_frame(9, b"pi", mask=k(2)),
            ws.build_frame(2, b"fra", fin=False, mask=k(3)), ws.build_frame(0, b"gment", mask=k(4)),
            ws.build_frame(1, b"L" * 130, mask=k(5)), ws.build_frame(1, b"last", mask=k(6))]


SCRIPT_MSGS = ["one", b"fragment", "L" * 130, "last"]


def script_complete_messages(role, off):
    sc = disconnect_script(role)
    ends = list(itertools.accumulate(len(f) for f in sc))
    done = []
    # frame index -> message completed by it
    completes = {0: 0, 3: 1, 4: 2, 5: 3}
    for i, e in enumerate(ends):
        if e <= off and i in completes:
            done.append(SCRIPT_MSGS[completes[i]])
    return done


def random_scenario(rng, tier):
    """Random compositions beyond the enumerated products."""
    role = rng.choice(["server", "client"])
    steps = []
    for _ in range(rng.randint(0, 3)):
        steps.append(("msg", "r%d" % rng.randint(0, 9)))
    closers = rng.randint(1, 3)
    for _ in range(closers):
        x = rng.random()
        if x < 0.35:
            steps.append(peer_close_step(rng.choice(CLOSE_PAYLOADS + RESERVED_CODE_PAYLOADS[:8] + RESERVED_CODE_PAYLOADS),
                                         rng.random() < 0.7))
        elif x < 0.7:
            lc = rng.choice(LOCAL)
            steps.append(("local_close", lc[0], lc[1]))
            steps.append(("local_write", "after-local-close"))
        elif x < 0.8:
            steps.append(("peer_eof", "half"))
        else:
            steps.append(("sleep", rng.choice([0.5, 2.0, 4.999, 5.0, 5.001, 7.0])))
        if rng.random() < 0.3:
            steps.append(("sleep", rng.choice([0.1, 1.0, 4.9, 5.1])))
    ping = None
    pd = "never"
    if rng.random() < 0.3:
        ping = rng.choice([(1.0, 0.5), (0.7, 0.7), (3.0, 1.0)])
        pd = rng.choice(["never", 0.0, 0.2, 0.5, 0.6])
    return S(role, "random", steps, ping=ping, pong_delay=pd, deflate=rng.random() < 0.3,
             reader=rng.choice(["callback", "queue"]) if role == "client" else "callback", seed=rng.randrange(1 << 30))


def shards(tier, seed):
    n = 16 if tier == "quick" else 32
    return [{"j": i, "of": n, "nrand": 20 if tier == "quick" else 2000} for i in range(n)]


def gen_cases(spec):
    allsc = enumerate_scenarios(spec["tier"])
    for i, sc in enumerate(allsc):
        if i % spec["of"] == spec["j"]:
            yield sc
    rng = core.rng_for(spec["seed"], PROP, spec["j"])
    for _ in range(spec["nrand"]):
        yield random_scenario(rng, spec["tier"])


def EXHAUSTIVE(tier):
    return ("the enumerated products of the scenario families listed in RULE (every close payload x pre-messages x "
            "follow-up; every local close x peer reaction x delay in {0,1,4.9,5,5.1}; both crossing orders; every "
            "frame boundary +-1 of the disconnect script x 3 EOF kinds; ping (interval,timeout) x pong delay grid)")


def directed_cases():
    # found by this check: close frame whose reason is not UTF-8 -> notification lost (server) / uncaught (client)
    yield S("server", "peer-close", [peer_close_step(BADUTF8_PAYLOAD), ("local_write", "after-notify")])
    yield S("client", "peer-close", [peer_close_step(BADUTF8_PAYLOAD), ("local_write", "after-notify")])
    yield S("server", "local-close/silent", [("local_close", 1000, "x"), ("local_write", "after-local-close")])
    # found by this check: client application writes after the library closed for a ping timeout
    yield S("client", "ping/app-write-after-timeout-close",
            [("sleep", 1.8), ("local_write", "after-ping-timeout-close"), ("sleep", 9.0)], ping=(1.0, 0.5))
    # round-3 seeded change C16d: a peer close frame with a code that is never legal on the wire is still echoed
    for role in ("server", "client"):
        for p in (("code", 1005, b""), ("code+reason", 1006, b"abnormal"), ("code", 1015, b""), ("code", 999, b"")):
            yield S(role, "peer-close", [("msg", "m0"), peer_close_step(p), ("local_write", "after-notify")])


# ---------------------------------------------------------------------------
# execution

class TRec(ws_rig.Rec):
    def __init__(self, loop):
        super().__init__()
        self.loop = loop
        self.times = []

    def add(self, *ev):
        self.events.append(ev)
        self.times.append(self.loop.time())

    def time_of(self, kind):
        for e, t in zip(self.events, self.times):
            if e[0] == kind:
                return t
        return None


class Run:
    def __init__(self, case, loop):
        self.case, self.loop = case, loop
        self.role = case["role"]
        self.rec = TRec(loop)
        self.local_closes = []
        self.peer_close = None
        self.peer_eof_t = None
        self.peer_eof_how = None
        self.writes = []
        self.blocked = False          # an on_message coroutine / slow reader delays reading
        self.junk_after_close = False
        self.rng = random.Random(case["seed"])
        self.tp = None
        self.sess = None
        self.conn = None

    # --- application-side actions -----------------------------------------
    def key(self):
        return self.rng.randbytes(4) if self.role == "server" else None

    def app_close(self, code, reason):
        self.local_closes.append(self.loop.time())
        if self.role == "server":
            self.rec.handler.close(code, reason)
        else:
            self.conn.close(code, reason)

    def app_write(self, tag):
        t = self.loop.time()
        entry = [t, tag, None]
        self.writes.append(entry)
        try:
            if self.role == "server":
                fut = self.rec.handler.write_message("w:" + tag)
            else:
                fut = self.conn.write_message("w:" + tag)
        except Exception as e:
            entry[2] = type(e).__name__
            return
        entry[2] = "ok"
        if fut is not None:
            def done(f, entry=entry):
                if f.cancelled():
                    return
                ex = f.exception()
                if ex is not None:
                    entry[2] = type(ex).__name__
            asyncio.ensure_future(fut).add_done_callback(done)

    def on_app_message(self, msg):
        """Behaviour keyed by message text; returns an awaitable for the async kinds (server only)."""
        if not isinstance(msg, str):
            return None
        if msg == "CLOSE":
            self.app_close(1000, "from on_message")
            self.app_write("after-local-close")
            return None
        if msg.startswith("CLOSESLEEP:"):
            d = float(msg.split(":")[1])
            self.blocked = True

            async def co():
                self.app_close(1001, None)
                await asyncio.sleep(d)
                self.app_write("after-local-close")
            return co()
        if msg.startswith("SLEEP:"):
            d = float(msg.split(":")[1])
            self.blocked = True

            async def co2():
                await asyncio.sleep(d)
            return co2()
        if msg == "WRITE":
            self.app_write("after-local-close" if self.local_closes else "in-on_message")
        return None

    # --- peer-side actions ---------------------------------------------------
    def frame_text(self, text, defl=None):
        # with permessage-deflate negotiated the peer really uses it (RSV1 + deflated payload, shared context) for two
        # of every three data messages, so control frames arrive right after compressed *and* after plain messages
        if self.case["deflate"]:
            self._peer_msgs = getattr(self, "_peer_msgs", 0) + 1
            if self._peer_msgs % 3 != 0:
                if getattr(self, "_peer_deflater", None) is None:
                    self._peer_deflater = ws.Deflater()
                self.compressed_peer_msgs = getattr(self, "compressed_peer_msgs", 0) + 1
                return ws.build_frame(1, self._peer_deflater.compress(text.encode()), rsv=4, mask=self.key())
        return ws.build_frame(1, text.encode(), mask=self.key())

    def close_frame(self, kind, code, reason):
        if kind == "1byte":
            payload = b"\x03"
        else:
            payload = ws.close_payload(code, reason or b"")
        return ws.build_frame(8, payload, mask=self.key()), payload

    def note_peer_close(self, kind, code, reason, payload):
        if self.peer_close is None:
            self.peer_close = {"t": self.loop.time(), "kind": kind, "code": code, "reason": reason,
                               "payload": payload,
                               "tornado_close_before": any(f.opcode == 8 for _, f in self.tp.frames),
                               "local_close_before": bool(self.local_closes),
                               "eof_before": self.tp.eof_time is not None,
                               "peer_eof_before": self.peer_eof_t is not None}

    def peer_eof(self, how):
        if self.peer_eof_t is None:
            self.peer_eof_t = self.loop.time()
            self.peer_eof_how = how
        if how == "half":
            self.tp.half_close()
        elif how == "reset":
            self.tp._unwatch()
            self.tp.reset()
        else:
            self.tp.close()


async def _queue_reader(run: Run, slow):
    conn = run.conn
    while True:
        if slow:
            run.blocked = True
            await asyncio.sleep(3.0)
        m = await conn.read_message()
        if m is None:
            run.rec.add("close_msg")
            return
        run.rec.add("msg", m)
        run.on_app_message(m)


async def scenario(case):
    loop = asyncio.get_event_loop()
    run = Run(case, loop)
    role = case["role"]
    ping = case["ping"]
    reader_task = None
    try:
        if role == "server":
            settings = {}
            if ping:
                settings["websocket_ping_interval"] = ping[0]
                if ping[1] is not None:
                    settings["websocket_ping_timeout"] = ping[1]
            H = ws_rig.make_handler(run.rec, compression={} if case["deflate"] else None,
                                    on_message=lambda h, m: run.on_app_message(m))
            sess = ws_rig.ServerSession(H, settings=settings)
            head = await sess.handshake(ws.std_client_headers(
                ws_rig.HOST, ws_rig.KEY, extensions="permessage-deflate" if case["deflate"] else None))
            if head is None or head.status != 101 or run.rec.handler is None:
                raise RuntimeError("handshake failed")
            old = sess.peer
        else:
            kw = {}
            if ping:
                kw["ping_interval"] = ping[0]
                if ping[1] is not None:
                    kw["ping_timeout"] = ping[1]
            if case["deflate"]:
                kw["compression_options"] = {}
            sess = ws_rig.ClientSession(run.rec, callback_style=(case["reader"] == "callback"), **kw)
            sess.hook = lambda m: run.on_app_message(m) if m is not None else None
            sess.start()
            req = await sess.accept()
            conn = await sess.respond(ws.server_response(
                key=req.get("Sec-WebSocket-Key"), extensions="permessage-deflate" if case["deflate"] else None))
            if conn is None:
                raise RuntimeError("client handshake failed: %r" % sess.error)
            run.conn = conn
            if case["reader"] != "callback":
                reader_task = asyncio.ensure_future(_queue_reader(run, case["reader"] == "queue-slow"))
            old = sess.peer
        run.sess = sess
        tp = ws_rig.TimedPeer(old.sock, loop, leftover=bytes(old.rx))
        old.sock = None
        sess.peer = tp
        run.tp = tp
        t0 = loop.time()
        pd = case["pong_delay"]

        def on_frame(t, f):
            if f.opcode == 9 and pd != "never":
                loop.call_later(pd, lambda: tp.sock is not None and tp.send_now(
                    ws.build_frame(10, f.payload, mask=run.key())))
        tp.on_frame = on_frame

        for st in case["steps"]:
            op = st[0]
            if op == "msg":
                tp.send_now(run.frame_text(st[1]))
                if run.peer_close is not None:
                    run.junk_after_close = True
                await settle()
            elif op == "msgs_nosettle":
                tp.send_now(b"".join(run.frame_text(x) for x in st[1]))
            elif op == "peer_close":
                _, kind, code, reason, do_settle = st
                fr, payload = run.close_frame(kind, code, reason)
                run.note_peer_close(kind, code, reason, payload)
                tp.send_now(fr)
                if do_settle:
                    await settle()
            elif op == "local_close":
                run.app_close(st[1], st[2])
                await settle()
            elif op == "local_write":
                tag = st[1]
                if tag == "after-notify":
                    await settle(2)
                    if run.rec.count("close") + run.rec.count("close_msg") == 0:
                        continue        # notification not fired (reported elsewhere): phase not reached
                run.app_write(tag)
                await settle()
            elif op == "sleep":
                await asyncio.sleep(st[1])
            elif op == "peer_eof":
                run.peer_eof(st[1])
                await settle()
            elif op == "cross":
                _, first, lcode, lreason, p = st
                fr, payload = run.close_frame(p[0], p[1], p[2])
                if first == "local":
                    run.app_close(lcode, lreason)
                    run.note_peer_close(p[0], p[1], p[2], payload)
                    tp.send_now(fr)             # sent without having read tornado's close
                else:
                    run.note_peer_close(p[0], p[1], p[2], payload)
                    tp.send_now(fr)             # in the socket, not yet read by tornado
                    run.app_close(lcode, lreason)
                await settle()
            elif op == "script_cut":
                _, off, how = st
                data = b"".join(disconnect_script(role))[:off]
                if data:
                    tp.send_now(data)
                    await settle()
                run.peer_eof(how)
                await settle()
            elif op == "answer_close":
                # wait for tornado's close frame, then answer it after st[1] seconds
                for _ in range(400):
                    if any(f.opcode == 8 for _, f in tp.frames) or tp.eof_time is not None:
                        break
                    await asyncio.sleep(0.05)
                await asyncio.sleep(st[1])
                if tp.sock is not None and tp.eof_time is None:
                    code = None
                    for _, f in tp.frames:
                        if f.opcode == 8 and len(f.payload) >= 2:
                            code = int.from_bytes(f.payload[:2], "big")
                    fr, payload = run.close_frame("code", code or 1000, b"")
                    run.note_peer_close("code", code or 1000, b"", payload)
                    tp.send_now(fr)
                    await settle()
            else:
                raise RuntimeError("unknown step %r" % (st,))
        # let every deadline pass: closing timeout (5 s), on_message delays (<= 6 s), slow reader
        await asyncio.sleep(13.0)
        finished_by_harness = False
        if tp.eof_time is None and run.peer_eof_t is None:
            finished_by_harness = True
            run.peer_eof("half")
            await asyncio.sleep(7.0)
        elif tp.eof_time is None:
            await asyncio.sleep(7.0)
        await settle(2)
        # after-the-fact write: the connection is closed for good now
        run.app_write("final")
        await settle(2)
        conn_codes = None
        if role == "client":
            conn_codes = (run.conn.close_code, run.conn.close_reason)
        return run, finished_by_harness, conn_codes
    finally:
        if reader_task is not None:
            reader_task.cancel()
        if run.sess is not None:
            await run.sess.close()


def judge(case, run: Run, finished_by_harness, conn_codes, ctx):
    fam = case["family"].split("/")[0]
    role = case["role"]
    tp = run.tp
    frames = tp.frames
    closes = [(t, f) for t, f in frames if f.opcode == 8]
    wit = {"role": role, "family": case["family"], "steps": case["steps"], "ping": case["ping"],
           "pong_delay": case["pong_delay"], "reader": case["reader"],
           "tornado_frames": [(round(t, 4), f.brief()) for t, f in frames][:12],
           "eof_time": tp.eof_time, "peer_close": run.peer_close, "local_closes": run.local_closes,
           "peer_eof": (run.peer_eof_t, run.peer_eof_how), "events": list(zip(run.rec.times, run.rec.events))[-8:],
           "writes": run.writes}
    # 0. wire sanity of tornado's frames
    asm = ws.MessageAssembler(ws.Inflater() if case["deflate"] else None, expect_masked=(role == "client"))
    asm.feed_frames([f for _, f in frames])
    errs = [e for e in asm.events if e[0] == "error"]
    ctx.check(not errs, "wire/frame-anomaly", "tornado emitted a malformed frame", {**wit, "errors": errs[:2]})
    # 1. at most one close frame
    ctx.check(len(closes) <= 1, "close-frames/more-than-one", "tornado sent more than one close frame", wit)
    # 2. no data frame after the close frame
    if closes:
        idx = next(i for i, (_, f) in enumerate(frames) if f.opcode == 8)
        later_data = [f.brief() for _, f in frames[idx + 1:] if f.opcode in (0, 1, 2)]
        cause = ("ping-timeout" if frames[idx][1].payload[2:] == b"ping timed out"
                 else ("application-close" if run.local_closes else "answer-to-peer-close"))
        ctx.check(not later_data, "data-after-close/%s/%s" % (role, cause),
                  "tornado sent a data frame after its close frame", {**wit, "data": later_data[:2]})
    pc = run.peer_close
    tA = closes[0][0] if closes else None
    tB = pc["t"] if pc else None
    readable = (pc is not None and not pc["eof_before"] and not pc["peer_eof_before"]
                and not (tp.send_error is not None))
    specified_payload = pc is not None and pc["kind"] in ("none", "code", "code+reason")
    # 3. echo
    if pc is not None and readable and specified_payload and not run.junk_after_close:
        own_first = pc["tornado_close_before"] or pc["local_close_before"] or any(t <= (tA if tA is not None else 1e18) for t in run.local_closes)
        ping_timed_out = bool(closes) and closes[0][1].payload[2:] == b"ping timed out"
        if not own_first and not ping_timed_out:
            ctx.count("echo_checked")
            if not closes:
                # tornado must answer the close it received unless the connection went away first
                late = run.blocked and tp.eof_time is not None
                ctx.check(late, "echo/no-close-frame-in-response", "tornado received a close frame and never sent one", wit)
            elif pc["code"] is not None:
                got = int.from_bytes(closes[0][1].payload[:2], "big") if len(closes[0][1].payload) >= 2 else None
                registered = 1000 <= pc["code"] <= 1003 or 1007 <= pc["code"] <= 1014 or 3000 <= pc["code"] <= 4999
                if not registered:
                    ctx.count("echo_checked/reserved-or-unassigned-code")
                ctx.check(got == pc["code"], "echo/code-mismatch" + ("" if registered else "/reserved-or-unassigned-code"),
                          "tornado answered the peer's close frame with a different status code",
                          {**wit, "echoed": got, "peer_code": pc["code"]})
    # 4. teardown
    observable = run.peer_eof_how in (None, "half")
    if observable:
        ctx.count("teardown_checked")
        if tp.eof_time is None:
            ctx.violation("teardown/never/" + fam, "TCP connection still open at the end of the scenario", wit)
        else:
            deadline = None
            ctxname = None
            if tA is not None and (tB is None or tB > tA + TIMEOUT or not readable):
                deadline, ctxname = tA + TIMEOUT + EPS, "silent-peer"
            elif tA is not None and tB is not None:
                deadline, ctxname = max(tA, tB) + TIMEOUT + EPS, "both-closed"
            if deadline is not None:
                if ctxname == "silent-peer":
                    ctx.count("timeout_path_scenarios")
                ctx.check(tp.eof_time <= deadline, "teardown/late/" + ctxname,
                          "TCP connection torn down later than the 5 s closing timeout allows",
                          {**wit, "deadline": deadline})
            # "once both sides have closed": both close frames exchanged inside the closing timeout, the peer's was
            # readable and well-formed and the application does not hold up tornado's reader => tornado has seen the
            # second close frame at max(tA, tB) and must tear down at that instant, not when the 5 s timer fires.
            if (tA is not None and tB is not None and readable and specified_payload and not run.blocked
                    and not run.junk_after_close and tB <= tA + TIMEOUT - EPS):
                who = ("tornado-closed-first" if pc["tornado_close_before"] or pc["local_close_before"]
                       else "peer-closed-first")
                ctx.count("prompt_teardown_checked/" + who)
                both = max(tA, tB)
                ctx.check(tp.eof_time <= both + EPS, "teardown/not-prompt-after-both-closed/" + who,
                          "both sides had sent their close frame but the TCP connection was only torn down later "
                          "(it waited for a timer)", {**wit, "both_closed_at": both, "late_by": tp.eof_time - both})
    else:
        ctx.count("teardown_unobservable")
    if closes and closes[0][1].payload[2:] == b"ping timed out":
        ctx.count("ping_timeout_closes")
    # 5. notification exactly once
    kind = "close" if role == "server" else "close_msg"
    n = run.rec.count(kind)
    ctx.count("notify_checked")
    if n != 1:
        mech = "notify/%s/%s" % ("never" if n == 0 else "more-than-once", fam)
        ctx.violation(mech, "close notification fired %d times" % n, wit)
    # 6. code / reason
    if (n == 1 and pc is not None and readable and specified_payload and not run.blocked
            and not run.junk_after_close and (tp.eof_time is None or tB <= tp.eof_time)
            and not (tA is not None and tB > tA + TIMEOUT)):
        if role == "server":
            ev = [e for e in run.rec.events if e[0] == "close"][0]
            got = (ev[1], ev[2])
        else:
            got = conn_codes
        want = (pc["code"], pc["reason"].decode("utf-8") if pc["reason"] else None)
        ctx.count("code_reason_checked")
        ctx.check(got == want, "notify/code-or-reason-mismatch",
                  "close_code/close_reason differ from the peer's close frame", {**wit, "got": got, "want": want})
    # 7. writes
    for t, tag, outcome in run.writes:
        if tag in ("after-local-close", "after-notify", "final"):
            ctx.count("write_after_close_checked")
            if outcome == "ok":
                ctx.violation("write-after-close/no-error", "write_message after closing did not fail",
                              {**wit, "write": (t, tag, outcome)})
            elif outcome != "WebSocketClosedError":
                ctx.violation("write-after-close/raised-" + str(outcome),
                              "write_message after closing failed with something else than WebSocketClosedError",
                              {**wit, "write": (t, tag, outcome)})
        elif tag == "open":
            ctx.check(outcome == "ok", "write-on-open-connection/raised", "write_message failed on an open connection",
                      {**wit, "write": (t, tag, outcome)})
    # 8. disconnect family: messages completed before the cut are delivered
    if fam == "disconnect":
        ctx.count("disconnect_scenarios")
        off = case["steps"][0][1]
        want = script_complete_messages(role, off)
        ctx.check(run.rec.messages() == want, "disconnect/delivered-messages-differ",
                  "messages delivered before a disconnect differ from the complete ones", {**wit, "want": want})
    return wit


class Collect:
    """Same interface as Ctx for judge(); gathers symptoms so that one root cause yields one mechanism."""

    def __init__(self, ctx):
        self.ctx = ctx
        self.symptoms = []

    def count(self, key, n=1):
        self.ctx.count(key, n)

    def check(self, cond, mechanism, what, witness=None):
        self.ctx.count("oracle_evals")
        if not cond:
            self.symptoms.append(mechanism)
        return cond

    def violation(self, mechanism, what, witness=None):
        self.symptoms.append(mechanism)


def run_case(case, ctx):
    with LogMon() as lm:
        run, fbh, conn_codes = vloop.run(scenario, case)
    bad = lm.uncaught()
    pc = run.peer_close
    if pc is not None and pc["kind"] == "badutf8-reason" and not pc["eof_before"]:
        # malformed close frame (reason is not UTF-8): every symptom has the same root cause
        col = Collect(ctx)
        wit = judge(case, run, fbh, conn_codes, col)
        if bad:
            col.symptoms.append("log/uncaught")
        if col.symptoms:
            ctx.violation("peer-close/undecodable-reason-breaks-close-handling",
                          "a close frame whose reason is not valid UTF-8 is not handled: " + ", ".join(sorted(set(col.symptoms))),
                          {"symptoms": sorted(set(col.symptoms)), "records": bad[:1], **wit})
        bad = []
    else:
        wit = judge(case, run, fbh, conn_codes, ctx)
    if bad:
        ctx.violation("log/uncaught/" + case["family"].split("/")[0], "scenario produced an uncaught-exception log record",
                      {"records": bad[:2], **wit})
    ctx.count("oracle_evals")
    ctx.seen("families", case["family"])
    new = ctx.mark(case, True)
    if new and case["family"].startswith(("crossing", "ping", "close-in")):
        ctx.sample({"role": case["role"], "family": case["family"], "steps": case["steps"], "ping": case["ping"],
                    "pong_delay": case["pong_delay"]}, limit=5)
