"""C10 - tcpclient._Connector (happy eyeballs) resolves exactly once and leaks no sockets.

Layer 1 (fault enumeration): `_Connector(addrinfo, connect)` is driven through its public
constructor/start() with a fake `connect(af, addr)` returning (FakeStream, Future), exactly as
tornado/test/tcpclient_test.py does, on the virtual-time loop.  Every address gets a scripted
outcome {succeeds after t, fails after t, fails synchronously, never completes}; t lies on a
grid around the 0.3 s fallback timer and the connect_timeout.  All address lists of length <= 3
are enumerated completely, length 4 is sampled.

Oracles: (a) trace checks on the observed events (exactly once, winner = first success in
observed order, error only after every address failed or the timeout fired, conservation
opened = returned + closed (+ failed), <= 1 attempt in flight per family, no uncaught log);
(b) an independent reference happy-eyeballs model (integer milliseconds, all tie orders
explored) whose set of legal outcomes must contain the observed one.

Layer 2: the real TCPClient.connect with real AF_UNIX sockets (listening / refused / missing
paths, two family labels, resolver lists that repeat a path) and fd accounting.
"""
from __future__ import annotations

import asyncio
import itertools
import os
import socket

from vf import core, vloop
from vf.logmon import LogMon

core.use_repo()
from tornado.ioloop import IOLoop  # noqa: E402
from tornado.iostream import StreamClosedError  # noqa: E402
from tornado.tcpclient import TCPClient, _Connector  # noqa: E402
from tornado import gen  # noqa: E402

PROP = "C10"
META = {
    "level": "fault_enumeration",
    "technique": "exhaustive enumeration of address lists x per-address outcomes x timer placements on a virtual clock; trace checks + reference happy-eyeballs model",
    "level_text": "Every address list of length <= 3 over two families, every per-address outcome {success at t, failure at t, synchronous failure, never} with t on a grid around the 0.3 s fallback timer and the connect_timeout, both stream-close behaviours (real IOStream semantics: closing fails the pending connect; test-suite semantics: it stays pending) are executed against the real _Connector on a virtual-time loop; length-4 lists are sampled; lists in which a (family, address) pair is listed more than once are enumerated for length 2..3 (every labelling; outcomes scripted per listing) and sampled for length 4; a second layer drives the real TCPClient.connect over real AF_UNIX sockets with fd accounting.",
    "level_note": "For a list that repeats an address the model accepts a connector that tries it once per listing and one that tries it once (the statement speaks of addresses). Simultaneous events are explored in the order the loop happens to run them; the reference model accepts every tie order. The model also accepts both secondary-queue start times after a synchronous first failure (immediately / at the 0.3 s timer): the statement does not pin it. Real AF_INET/AF_INET6 connects and TLS upgrade are not exercised.",
    "design_ref": "DESIGN.md §4 C10",
    "engine": "vloop",
}
RULE = ("a case = (address list over two families, possibly listing an address more than once, outcome per address from {S(t), F(t), Fsync, never}, connect_timeout, "
        "stream-close semantics); exhaustive for length <= 3 over the stated time grid, seeded random for length 4; "
        "non-trivial = >= 2 addresses or a timer interacts (an attempt outlives 0.3 s or the connect_timeout); distinct by the case tuple")
FLOORS = {"quick": 20000, "thorough": 200000}
ASSUMPTIONS = ["the fake connect() mirrors tornado/test/tcpclient_test.py (stream object + Future)",
               "reference happy-eyeballs model (60 lines) is correct",
               "AF_UNIX connects complete or fail synchronously (layer 2)"]
REQUIRED_COUNTERS = ["oracle_evals", "model_evals", "conservation_evals", "inflight_evals", "wins", "errors_all_failed",
                     "errors_timeout", "real_connects", "duplicate_address_lists", "duplicate_lists_all_failing",
                     "real_duplicate_address_lists"]
SHARD_TIMEOUT = {"quick": 240, "thorough": 3600}

AF1, AF2 = socket.AF_INET, socket.AF_INET6
FALLBACK_MS = 300
GRID = {"quick": [100, 299, 300, 301, 600], "thorough": [50, 100, 290, 299, 300, 301, 310, 600, 1000]}
TIMEOUTS = {"quick": [None, 200, 300, 450, 1000], "thorough": [None, 100, 299, 300, 301, 450, 700, 1000, 1500]}
HORIZON = 6.0


def EXHAUSTIVE(tier):
    return (f"all address lists of length 1..3 (first family fixed, second free) x outcomes {{S(t),F(t) for t in {GRID[tier]} ms, "
            f"Fsync, never}} per address x connect_timeout in {TIMEOUTS[tier]} ms x 2 stream-close semantics; every labelling of "
            f"length-2..3 lists that repeats an address"
            + (" (length 3: outcomes %s)" % (DUP_OUTS_QUICK,) if tier == "quick" else " (outcome grid of the quick tier)"))


def outcomes_for(tier):
    out = [("S", t) for t in GRID[tier]] + [("F", t) for t in GRID[tier]] + [("FS",), ("N",)]
    return out


def shards(tier, seed):
    out = []
    outs = outcomes_for(tier)
    # exhaustive part, sharded by (length, family pattern, group of first outcomes); every shard
    # is a subprocess, so the quick tier uses few, larger shards
    group = 3 if tier == "quick" else 1
    out.append({"kind": "exh", "lists": [[0], [0, 0], [0, 1]], "first": None})
    for fams in itertools.product((0, 1), repeat=2):
        for i in range(0, len(outs), group):
            out.append({"kind": "exh", "lists": [[0] + list(fams)], "first": list(range(i, min(len(outs), i + group)))})
    # address lists in which an address occurs more than once (a resolver may well return such a list)
    pats = dup_patterns()
    if tier == "quick":
        # length-3 labellings without a real duplicate (same label under both families only) are left to thorough
        pats = [p for p in pats if len(p[0]) == 2 or is_dup_list(*p)]
        for j in range(4):
            out.append({"kind": "dup", "patterns": pats[j::4]})
    else:
        for pat in pats:
            out.append({"kind": "dup", "patterns": [pat]})
    n4 = 5000 if tier == "quick" else 400000
    k = 2 if tier == "quick" else 32
    for j in range(k):
        out.append({"kind": "rand4", "n": n4 // k, "j": j})
    out.append({"kind": "real", "n": 150 if tier == "quick" else 3000})
    return out


DUP_OUTS_QUICK = [("S", 100), ("S", 301), ("F", 100), ("F", 300), ("FS",), ("N",)]


def is_dup_list(fams, names):
    keys = list(zip(fams, names))
    return len(set(keys)) < len(keys)


def dup_patterns():
    """(fams, names) of length 2..3, first family fixed: every labelling in which some (family, address) pair occurs
    twice or more, plus the same address label under both families (which is NOT a duplicate)."""
    out = []
    for L in (2, 3):
        for fams in itertools.product((0, 1), repeat=L - 1):
            fams = (0,) + fams
            for names in itertools.product(range(L), repeat=L):
                # canonical labelling: labels appear in order of first use
                seen = []
                for x in names:
                    if x not in seen:
                        seen.append(x)
                if seen != list(range(len(seen))) or len(seen) == L:
                    continue
                out.append([list(fams), list(names)])
    return out


def gen_cases(spec):
    tier = spec["tier"]
    if spec["kind"] == "dup":
        batch = []
        for pat in spec["patterns"]:
            fams, names = tuple(pat[0]), tuple(pat[1])
            L = len(fams)
            # length 2 and the thorough tier: the full outcome grid of the quick tier; quick length 3: a reduced one
            outs = outcomes_for("quick") if (L == 2 or tier == "thorough") else DUP_OUTS_QUICK
            for combo in itertools.product(outs, repeat=L):
                for T in TIMEOUTS[tier]:
                    for mode in ("faithful", "lazy"):
                        batch.append((fams, combo, T, mode, 0, names))
                        if len(batch) >= 250:
                            yield ("batch", batch)
                            batch = []
        if batch:
            yield ("batch", batch)
    elif spec["kind"] == "exh":
        outs = outcomes_for(tier)
        batch = []
        for fams in spec["lists"]:
            fams = tuple(fams)
            L = len(fams)
            firsts = outs if spec["first"] is None else [outs[i] for i in spec["first"]]
            for first in firsts:
                for rest in itertools.product(outs, repeat=L - 1):
                    for T in TIMEOUTS[tier]:
                        for mode in ("faithful", "lazy"):
                            batch.append((fams, (first,) + rest, T, mode))
                            if len(batch) >= 250:
                                yield ("batch", batch)
                                batch = []
        if batch:
            yield ("batch", batch)
    elif spec["kind"] == "rand4":
        rng = core.rng_for(spec["seed"], PROP, "r4-%d" % spec["j"])
        batch = []
        for _ in range(spec["n"]):
            L = 4 if rng.random() < 0.85 else rng.choice([2, 3])
            fams = (0,) + tuple(rng.randrange(2) for _ in range(L - 1))
            outs = []
            for _ in range(L):
                r = rng.random()
                t = rng.choice([rng.randrange(1, 1300), rng.choice([299, 300, 301]), rng.choice([100, 200, 400])])
                outs.append(("S", t) if r < 0.3 else ("F", t) if r < 0.7 else ("FS",) if r < 0.85 else ("N",))
            T = rng.choice([None, None, rng.randrange(50, 1500), 300, 600])
            mode = rng.choice(["faithful", "lazy"])
            if rng.random() < 0.3:
                # some addresses listed more than once
                names = tuple(rng.randrange(2 if rng.random() < 0.5 else L) for _ in range(L))
                batch.append((fams, tuple(outs), T, mode, 0, names))
            else:
                batch.append((fams, tuple(outs), T, mode))
            if len(batch) >= 250:
                yield ("batch", batch)
                batch = []
        if batch:
            yield ("batch", batch)
    else:
        rng = core.rng_for(spec["seed"], PROP, "real")
        for _ in range(spec["n"]):
            L = rng.randint(1, 4)
            addrs = tuple((rng.randrange(2), rng.choice(["ok", "ok", "missing", "refused"])) for _ in range(L))
            kind = rng.choice(["scripted", "scripted", "plain"])
            if rng.random() < 0.4:
                # the resolver lists some address again (same family, same path); mostly lists where nothing accepts
                if rng.random() < 0.6:
                    addrs = tuple((f, rng.choice(["missing", "refused"])) for f, _ in addrs)
                addrs = list(addrs)
                dup_of = [None] * len(addrs)
                for _ in range(rng.randint(1, 2)):
                    src = rng.randrange(len(addrs))
                    while dup_of[src] is not None:
                        src = dup_of[src]
                    pos = rng.randint(src + 1, len(addrs))
                    addrs.insert(pos, addrs[src])
                    dup_of = [None if d is None else (d + 1 if d >= pos else d) for d in dup_of]
                    dup_of.insert(pos, src)
                yield ("real", tuple(addrs), kind, tuple(dup_of))
            else:
                yield ("real", addrs, kind)


def directed_cases():
    # the scenarios of tornado/test/tcpclient_test.py ConnectorTest, re-expressed, plus timer edge cases
    b = [
        ((0, 0, 1, 1), (("S", 100), ("N",), ("N",), ("N",)), None, "lazy"),
        ((0,), (("F", 100),), None, "lazy"),
        ((0, 0), (("F", 100), ("S", 100)), None, "lazy"),
        ((0, 0), (("F", 100), ("F", 100)), None, "faithful"),
        ((0, 0, 1, 1), (("N",), ("N",), ("S", 100), ("N",)), None, "faithful"),
        ((0, 0, 1, 1), (("S", 500), ("N",), ("S", 100), ("N",)), None, "lazy"),
        ((0, 0, 1, 1), (("F", 500), ("F", 100), ("F", 100), ("F", 100)), None, "faithful"),
        ((0, 1), (("FS",), ("S", 100)), 350, "faithful"),
        ((0, 1), (("N",), ("N",)), 1000, "faithful"),
        ((0, 1), (("S", 1200), ("S", 900)), 1000, "lazy"),
        ((0, 1, 0), (("F", 300), ("F", 300), ("S", 300)), 300, "faithful"),
        # duplicated addresses: everything fails / the second listing succeeds / duplicate in the secondary family
        ((0, 0), (("F", 100), ("F", 100)), None, "faithful", 0, (0, 0)),
        ((0, 0, 0), (("FS",), ("FS",), ("FS",)), None, "lazy", 0, (0, 1, 0)),
        ((0, 0), (("F", 100), ("S", 100)), None, "lazy", 0, (0, 0)),
        ((0, 1, 1), (("F", 100), ("F", 100), ("F", 400)), 1000, "faithful", 0, (0, 1, 1)),
    ]
    yield ("batch", b)


# ------------------------------------------------------------------ reference model

def skew_us(skew, i):
    """Per-attempt offset (microseconds) that forces one order of nominally simultaneous events."""
    if skew == 0:
        return 0
    if skew == 1:
        return -20 * (i + 1)
    if skew == 2:
        return 20 * (i + 1)
    return (20 if i % 2 else -20) * (i + 1)


def model_outcomes(fams, outs, T, sync_policy, skew=0, ids=None):
    """All legal (kind, idx, t) outcomes of a happy-eyeballs connector, times in integer
    microseconds.  kind in win/fail/timeout/pending.  Events with equal time are explored in
    every order."""
    n = len(fams)
    if ids is None:
        ids = list(range(n))     # identity of entry i in the caller's list (skew and reported winner)
    FALLBACK = FALLBACK_MS * 1000
    if T is not None:
        T = T * 1000
    P = [i for i in range(n) if fams[i] == fams[0]]
    S = [i for i in range(n) if fams[i] != fams[0]]
    results = set()

    def start_next(st, q, at_start):
        """Start the next address of queue q at st['now']; handles synchronous failures."""
        lst = P if q == 0 else S
        while True:
            k = st["pos"][q]
            if k >= len(lst):
                st["fl"][q] = None
                return
            st["pos"][q] = k + 1
            i = lst[k]
            o = outs[i]
            if o[0] == "FS":
                st["failed"] += 1
                # a failure starts the secondary queue at once (unless the policy under test says
                # that failures inside start() wait for the fallback timer)
                if not st["sec"] and not (at_start and sync_policy == "wait"):
                    st["sec"] = True
                    start_next(st, 1, at_start)
                continue
            st["fl"][q] = (i, None if o[0] == "N" else st["now"] + o[1] * 1000 + skew_us(skew, ids[i]), o[0])
            return

    def run(st):
        while True:
            if st["failed"] == n:
                results.add(("fail", None, st["now"]))
                return
            ev = []
            for q in (0, 1):
                f = st["fl"][q]
                if f is not None and f[1] is not None:
                    ev.append((f[1], "done", q))
            if not st["sec"]:
                ev.append((FALLBACK, "fallback", None))
            if T is not None:
                ev.append((T, "timeout", None))
            if not ev:
                results.add(("pending", None, None))
                return
            tmin = min(e[0] for e in ev)
            first = [e for e in ev if e[0] == tmin]
            if len(first) > 1:
                for e in first:
                    st2 = {"now": st["now"], "pos": list(st["pos"]), "fl": list(st["fl"]), "failed": st["failed"],
                           "sec": st["sec"]}
                    if step(st2, e):
                        run(st2)
                return
            if not step(st, first[0]):
                return

    def step(st, e):
        """Apply one event; returns False if the run ended."""
        st["now"] = e[0]
        if e[1] == "timeout":
            results.add(("timeout", None, st["now"]))
            return False
        if e[1] == "fallback":
            st["sec"] = True
            start_next(st, 1, False)
            return True
        q = e[2]
        i, _, kind = st["fl"][q]
        if kind == "S":
            results.add(("win", ids[i], st["now"]))
            return False
        st["failed"] += 1
        st["fl"][q] = None
        start_next(st, q, False)
        if not st["sec"]:
            st["sec"] = True
            start_next(st, 1, False)
        return True

    st = {"now": 0, "pos": [0, 0], "fl": [None, None], "failed": 0, "sec": False}
    start_next(st, 0, True)
    run(st)
    return results


# ------------------------------------------------------------------ fake transport

class FakeStream:
    __slots__ = ("h", "att", "closes", "closed_at")

    def __init__(self, h, att):
        self.h, self.att, self.closes, self.closed_at = h, att, 0, None

    def close(self):
        self.closes += 1
        h = self.h
        if self.closes == 1:
            self.closed_at = h.loop.time()
            h.events.append(("close", self.att["i"]))
            att = self.att
            if h.mode == "faithful" and not att["future"].done():
                # a real IOStream fails its pending connect future when it is closed
                att["state"] = "closed-while-pending"
                att["future"].set_exception(StreamClosedError())


class Harness:
    def __init__(self, loop, fams, outs, T, mode, ctx, skew=0, names=None):
        self.loop, self.fams, self.outs, self.T, self.mode, self.ctx = loop, fams, outs, T, mode, ctx
        self.skew = skew
        self.names = tuple(range(len(fams))) if names is None else names
        self.calls = {}
        self.extra_attempts = 0
        self.events = []
        self.attempts = []
        self.inflight_viol = None
        self.done_calls = 0
        self.done_at = None
        self.fut = None

    def resolved(self):
        """Has the connector future been settled already (asked at the instant of an event)?"""
        return self.fut is not None and self.fut.done()

    def connect(self, af, addr):
        # the k-th attempt on (af, addr) gets the outcome scripted for the k-th list entry carrying that address
        entries = [j for j in range(len(self.fams)) if (AF1, AF2)[self.fams[j]] == af and self.names[j] == addr]
        k = self.calls.get((af, addr), 0)
        self.calls[(af, addr)] = k + 1
        if k >= len(entries):
            self.extra_attempts += 1
        i = entries[min(k, len(entries) - 1)]
        now = self.loop.time()
        live = [a for a in self.attempts if a["af"] == af and not a["future"].done() and a["stream"].closes == 0]
        if live and self.inflight_viol is None:
            self.inflight_viol = {"new": i, "live": [a["i"] for a in live], "t": now - self.t0}
        fut = self.loop.create_future()
        att = {"i": i, "af": af, "name": addr, "t": now, "future": fut, "state": "pending", "after_done": self.resolved()}
        st = FakeStream(self, att)
        att["stream"] = st
        self.attempts.append(att)
        self.events.append(("connect", i))
        o = self.outs[i]
        if o[0] == "FS":
            att["state"] = "failed"
            self.events.append(("fail", i, self.resolved()))
            fut.set_exception(IOError("sync failure %d" % i))
        elif o[0] != "N":
            self.loop.call_later((o[1] * 1000 + skew_us(self.skew, i)) / 1e6, self._complete, att, o[0])
        return st, fut

    def _complete(self, att, kind):
        if att["future"].done():
            return  # closed while pending (faithful mode)
        if kind == "S":
            att["state"] = "succeeded"
            self.events.append(("success", att["i"], self.resolved(), self.loop.time()))
            att["future"].set_result(att["stream"])
        else:
            att["state"] = "failed"
            self.events.append(("fail", att["i"], self.resolved()))
            att["future"].set_exception(IOError("failure %d" % att["i"]))

    def on_done(self, f):
        self.done_calls += 1
        if self.done_at is None:
            self.done_at = self.loop.time()
            self.events.append(("resolved",))


_LM = None


def _logmon():
    global _LM
    if _LM is None:
        _LM = LogMon()
        _LM.__enter__()
    return _LM


async def _run_batch(batch, ctx, sink):
    loop = asyncio.get_event_loop()
    lm = _logmon()
    for spec in batch:
        fams, outs, T, mode = spec[:4]
        n0 = len(lm.records)
        h = Harness(loop, fams, outs, T, mode, ctx, spec[4] if len(spec) > 4 else 0, spec[5] if len(spec) > 5 else None)
        addrinfo = [((AF1, AF2)[fams[i]], h.names[i]) for i in range(len(fams))]
        conn = _Connector(addrinfo, h.connect)
        h.t0 = loop.time()
        io_t0 = IOLoop.current().time()
        fut = conn.future
        h.fut = fut
        fut.add_done_callback(h.on_done)
        started = conn.start(connect_timeout=None if T is None else io_t0 + T / 1000.0)
        assert started is fut
        await asyncio.sleep(HORIZON)
        await vloop.settle()
        if fut.done() and not fut.cancelled() and fut.exception() is not None:
            pass  # retrieved: no "never retrieved" noise from the harness itself
        sink.append((h, conn, fut, [r for r in lm.records[n0:]]))


def run_case(case, ctx):
    if case[0] == "real":
        return run_real(case, ctx)
    batch = case[1]
    sink = []
    vloop.run(_run_batch, batch, ctx, sink, collect=False)
    whole = ctx.current_case
    ties = []
    for spec, (h, conn, fut, recs) in zip(batch, sink):
        ctx.current_case = ("batch", [spec])  # a replay re-executes just this schedule
        if judge(spec, h, conn, fut, recs, ctx) and (len(spec) == 4 or spec[4] == 0):
            ties.append(spec)
    # Schedules with nominally simultaneous events: force the other orders too by shifting the
    # attempt completions a few microseconds before / after the timers and each other.
    if ties:
        extra = [spec[:4] + (k,) + spec[5:] for spec in ties for k in (1, 2, 3)]
        sink = []
        vloop.run(_run_batch, extra, ctx, sink, collect=False)
        for spec, (h, conn, fut, recs) in zip(extra, sink):
            ctx.current_case = ("batch", [spec])
            judge(spec, h, conn, fut, recs, ctx)
            ctx.count("tie_orders_forced")
        ctx.evaluations += len(extra)
    ctx.current_case = whole
    ctx.evaluations += len(batch) - 1


def judge(spec, h, conn, fut, recs, ctx):
    """Returns True when the reference model says the schedule has tie-dependent outcomes."""
    fams, outs, T, mode = spec[:4]
    skew = spec[4] if len(spec) > 4 else 0
    names = h.names
    keys = [(fams[i], names[i]) for i in range(len(fams))]
    dups = len(set(keys)) < len(keys)
    n = len(fams)
    interacts = any((o[0] in ("S", "F") and o[1] >= FALLBACK_MS) or o[0] == "N" for o in outs) or T is not None
    ctx.mark(spec, n >= 2 or interacts)
    if ctx.evaluations % 977 == 0:
        ctx.sample({"fams": fams, "outcomes": outs, "connect_timeout_ms": T, "close_semantics": mode})
    t0 = h.t0

    def wit(**kw):
        d = {"fams": fams, "addresses": names, "outcomes": outs, "connect_timeout_ms": T, "close_semantics": mode, "skew": skew,
             "events": h.events,
             "attempts": [{"i": a["i"], "state": a["state"], "t_ms": round((a["t"] - t0) * 1000, 3),
                           "closes": a["stream"].closes} for a in h.attempts],
             "resolved_ms": None if h.done_at is None else round((h.done_at - t0) * 1000, 3)}
        d.update(kw)
        return d

    # ---- observed outcome
    if not fut.done():
        obs = ("pending", None)
    elif fut.cancelled():
        obs = ("cancelled", None)
    elif fut.exception() is not None:
        e = fut.exception()
        obs = ("timeout" if isinstance(e, gen.TimeoutError) else "fail", None)
    else:
        af, addr, stream = fut.result()
        won = [a for a in h.attempts if a["stream"] is stream]
        obs = ("win", won[0]["i"] if won else None)      # identified by list position (addresses may repeat)
    ctx.count("oracle_evals")
    ctx.count({"win": "wins", "fail": "errors_all_failed", "timeout": "errors_timeout", "pending": "pending_legit"}.get(obs[0], "other"))
    # ---- (1) exactly once / no uncaught error
    bad = [r for r in recs if r["level"] in ("ERROR", "CRITICAL") or r["exc"]]
    if bad:
        exc = bad[0]["exc"] or "log"
        ctx.violation(f"log/{exc}", "the connector produced an error log (InvalidStateError = future set twice, "
                      "or an uncaught exception in a callback)", wit(records=bad[:3]))
    if h.done_calls > 1:
        ctx.violation("resolve/done-callback-twice", "connector future resolved more than once", wit())
    order = [e for e in h.events]
    # Successes that happened while the connector future was still unsettled.  A connect future
    # that resolves in the same loop iteration in which the timeout fires (same virtual instant)
    # is concurrent with it - its done-callback has not run yet - so only successes strictly
    # earlier than the resolution instant count as "had succeeded before".
    EPS = 2e-6
    succ_ev = [e for e in order if e[0] == "success" and not e[2]]
    succ_order = [e[1] for e in succ_ev]
    succ_before = [e[1] for e in succ_ev if h.done_at is None or e[3] < h.done_at - EPS]
    first_tie = [e[1] for e in succ_ev if e[3] <= succ_ev[0][3] + EPS] if succ_ev else []
    # ---- (2) winner is the first success
    if obs[0] == "win":
        att = [a for a in h.attempts if a["stream"] is stream]
        if not att or att[0]["name"] != addr or att[0]["af"] != af:
            ctx.violation("result/tuple-inconsistent", "(af, addr, stream) of the result do not belong together", wit(result=(af, addr)))
        elif att[0]["state"] != "succeeded":
            ctx.violation("result/attempt-did-not-succeed", "the returned stream's connect attempt had not succeeded", wit(result=addr))
        elif succ_order and att[0]["i"] not in first_tie:
            ctx.violation("result/not-first-success", "the connector returned a connection other than the first that succeeded",
                          wit(result=addr, first_success=succ_order[0]))
        if stream.closes:
            ctx.violation("leak/returned-stream-closed", "the stream handed to the caller was closed by the connector", wit(result=addr))
    # ---- (3) errors only when justified
    if obs[0] in ("fail", "timeout"):
        if succ_order and not succ_before:
            ctx.count("tie_success_concurrent_with_timeout")
        if succ_before:
            ctx.violation(f"error/{obs[0]}-although-an-attempt-had-succeeded", "connector failed although a connection had succeeded before",
                          wit())
        if obs[0] == "fail":
            # every *address* must have failed; a list entry repeating an address that already failed need not be
            # tried again (the statement speaks of addresses), so repeated entries are counted once
            failed = {keys[e[1]] for e in order if e[0] == "fail" and not e[2]}
            if len(failed) < len(set(keys)):
                ctx.violation("error/failed-before-every-address-failed",
                              "connector reported failure although not every address had been tried and failed", wit(failed=sorted(failed)))
        else:
            if T is None:
                ctx.violation("error/timeout-without-connect_timeout", "TimeoutError without a connect_timeout", wit())
            elif (h.done_at - t0) * 1000 < T - 0.01:
                ctx.violation("error/timeout-too-early", "TimeoutError before the connect_timeout", wit())
    if obs[0] == "cancelled":
        ctx.violation("resolve/cancelled", "connector future was cancelled", wit())
    # ---- (4) pending only while something is still in flight
    live = [a for a in h.attempts if not a["future"].done() and a["stream"].closes == 0]
    if obs[0] == "pending" and not live:
        ctx.violation("pending/nothing-in-flight", "connector future still pending at quiescence with no attempt in flight", wit())
    # ---- (5) conservation
    ctx.count("conservation_evals")
    if obs[0] != "pending":
        for a in h.attempts:
            if obs[0] == "win" and a["stream"] is stream:
                continue
            if a["state"] == "failed":
                continue  # a failed IOStream has closed itself
            if a["stream"].closes == 0:
                ctx.violation(f"leak/stream-neither-returned-nor-closed/{a['state']}",
                              "a stream opened by the connector was neither returned nor closed at quiescence",
                              wit(leaked=a["i"]))
                break
    if any(a["after_done"] for a in h.attempts):
        ctx.count("unspecified_connect_after_resolution")
    # ---- (6) one attempt per family
    ctx.count("inflight_evals", len(h.attempts))
    if h.inflight_viol is not None:
        ctx.violation("inflight/two-attempts-in-one-family", "a second attempt was started in a family that still had one in flight",
                      wit(detail=h.inflight_viol))
    # ---- (7) reference model
    ctx.count("model_evals")
    legal = model_outcomes(fams, outs, T, "now", skew) | model_outcomes(fams, outs, T, "wait", skew)
    tie_dependent = len({(k, i) for k, i, _ in legal}) > 1
    if dups:
        # A connector may also try a repeated address only once (first listing): both readings are legal.
        ctx.count("duplicate_address_lists")
        if all(o[0] in ("F", "FS") for o in outs):
            ctx.count("duplicate_lists_all_failing")
        kept = [i for i in range(n) if keys[i] not in keys[:i]]
        once = set()
        for pol in ("now", "wait"):
            once |= model_outcomes(tuple(fams[i] for i in kept), tuple(outs[i] for i in kept), T, pol, skew, ids=kept)
        tie_dependent = tie_dependent or len({(k, i) for k, i, _ in once}) > 1
        legal |= once
    if h.extra_attempts:
        ctx.count("unspecified_address_tried_more_often_than_listed")
    kinds = {(k, i) for k, i, _ in legal}
    if obs not in kinds and obs[0] != "cancelled":
        ctx.violation(f"model/{obs[0]}-where-model-expects-{'+'.join(sorted({k for k, _ in kinds}))}",
                      "observed outcome is not among the outcomes of the reference happy-eyeballs model",
                      wit(observed=obs, legal=sorted(legal, key=repr)))
    else:
        if h.done_at is not None:
            us = (h.done_at - t0) * 1e6
            if not any(k == obs[0] and i == obs[1] and abs(t - us) < 5 for k, i, t in legal):
                ctx.count("unspecified_resolution_time_differs_from_model")
    if tie_dependent:
        ctx.count("model_nondeterministic_cases")
        return True
    return False


# ------------------------------------------------------------------ layer 2: real sockets

def run_real(case, ctx):
    from vf.refs import clientrig
    _, addrs, kind = case[:3]
    dup_of = case[3] if len(case) > 3 else (None,) * len(addrs)
    state = {}

    async def scenario():
        rig = clientrig.Rig()
        state["rig"] = rig
        fd0 = clientrig.fd_count()
        listeners = []
        infos = []
        for k, (fam, what) in enumerate(addrs):
            if dup_of[k] is not None:
                infos.append(infos[dup_of[k]])       # the same (family, path) listed again
                continue
            path = os.path.join(rig.scratch, f"a{k}.sock")
            if what in ("ok", "refused"):
                s = socket.socket(socket.AF_UNIX)
                s.bind(path)
                if what == "ok":
                    s.listen(8)
                    listeners.append(s)
                else:
                    s.close()  # the path exists, nobody listens: ECONNREFUSED
            infos.append(((AF1, AF2)[fam] if kind == "scripted" else socket.AF_UNIX, path))
        rig.resolver.families = {("h.test", 80): infos}
        tc = clientrig.ScriptedTCPClient(rig.resolver, rig) if kind == "scripted" else TCPClient(resolver=rig.resolver)
        try:
            stream = await tc.connect("h.test", 80)
            out = ("ok", stream)
        except Exception as e:  # noqa: BLE001
            out = ("err", e)
        await vloop.settle(3)
        await asyncio.sleep(1.0)
        res = {"out": out[0]}
        if out[0] == "ok":
            st = out[1]
            res["closed"] = st.closed()
            try:
                res["peer"] = st.socket.getpeername()
            except OSError as e:
                res["peer"] = repr(e)
            res["others_open"] = [a for s, a in rig.streams if s is not st and not s.closed()]
            st.close()
        else:
            res["err"] = repr(out[1])[:200]
            res["others_open"] = [a for s, a in rig.streams if not s.closed()]
        for s in listeners:
            s.close()
        await vloop.settle(2)
        res["fd_delta"] = clientrig.fd_count() - fd0
        res["paths"] = [p for _, p in infos]
        await rig.close()
        return res

    lm = _logmon()
    n0 = len(lm.records)
    try:
        res = vloop.run(scenario, collect=False)
    except vloop.Quiescent:
        res = None
    finally:
        if state.get("rig"):
            state["rig"].cleanup_sync()
    ctx.mark(case, len(addrs) >= 2)
    ctx.count("real_connects")
    if any(d is not None for d in dup_of):
        ctx.count("real_duplicate_address_lists")
    ctx.count("oracle_evals")
    w = {"addresses": addrs, "client": kind, "result": res}
    if res is None:
        ctx.violation("real/pending-at-quiescence", "TCPClient.connect never completed although every address connects or fails at once", w)
        return
    oks = [i for i, (f, what) in enumerate(addrs) if what == "ok"]
    if oks and res["out"] != "ok":
        ctx.violation("real/error-although-an-address-accepts", "TCPClient.connect failed although a listed address accepts connections", w)
    if not oks and res["out"] == "ok":
        ctx.violation("real/success-without-listener", "TCPClient.connect succeeded although no address listens", w)
    if res["out"] == "ok":
        if res["closed"]:
            ctx.violation("real/returned-stream-closed", "TCPClient.connect returned a closed stream", w)
        elif res["peer"] not in [res["paths"][i] for i in oks]:
            ctx.violation("real/connected-to-wrong-address", "returned stream is not connected to a listening address", w)
    if res["others_open"]:
        ctx.violation("real/leak/stream-left-open", "a stream opened during connect was neither returned nor closed", w)
    if res["fd_delta"] != 0:
        ctx.violation("real/leak/fd", "file descriptors leaked by TCPClient.connect", w)
    bad = [r for r in lm.records[n0:] if (r["level"] in ("ERROR", "CRITICAL") or r["exc"]) and "clientrig" not in r["msg"]]
    if bad:
        ctx.violation(f"real/log/{bad[0]['exc'] or 'log'}", "error log during TCPClient.connect", dict(w, records=bad[:3]))
