"""C44 — command-line and config-file options parse to the values they denote.

The generator owns the denotation: it picks typed values, prints them to text with its own
printers (never tornado's, never strftime) in canonical and alternative forms, defines the options
on a fresh OptionParser, feeds a command line or a config file, and compares what the parser
holds with the value that was printed.  Negative cases add exactly one unknown command-line
option or one wrong-typed value and expect an error (any exception).

A case is (sub-seed,): everything is rebuilt deterministically from it in run_case, and the full
scenario (definitions, argv / config text, expectation) goes into the witness.

Gating classes
  MUST-ACCEPT  int: -?D+ ; float: repr / %.17e / upper-case exponent / integral "3" ; bool:
               true|false|1|0|t|f in any case, bare --flag ; str: itself (incl. values containing "_", "-",
               "=", leading dashes, i.e. the characters of the option syntax: only names are normalised) ; datetime: the ten
               formats of _DATETIME_FORMATS with zero-padded fields ; timedelta: <number><unit> or
               <number> <unit> over the unit table, whitespace-separated sums, bare seconds ;
               multiple: comma lists, integer ranges a:b (inclusive, a <= b) ; config files: typed
               literals or the same strings.
  MUST-REJECT  unknown command-line option names; values that are not of the option's type
               (catalogue in WRONG) incl. wrong literal types in config files.
  UNSPECIFIED  "+5", "007", " 5", "1_000", Unicode digits; "1h30m" (no separator), upper-case
               units, "" for timedelta/bool; yes/no/on/off for bool; reversed ranges; int literal
               for a float option, bool literal for an int option, None; repeated options;
               parse-callback counts (documented, but not part of the statement: observed only).

Callback scenarios (second case kind, (sub-seed, "cb")): the pattern documented with define(),
    define("config", type=str, callback=lambda path: parse_config_file(path, final=False))
used as `--port=1 --config=FILE --port=5`.  One or two options carry a callback that re-enters the parser (parses a
config file, parses a file of further command-line arguments, or assigns other options); they are placed anywhere among
ordinary flags and their files set any subset of the options.
  MUST         an option whose LAST assignment in command-line order is a flag holds the flag's value (the command line
               sets it, statement; 'can be overridden by later flags', documentation - both agree); right after the
               parse a callback performed returned, every option that parse sets holds its value (the statement applied to
               that parse; observed inside the callback); an option assigned only by such a parse still holds that value
               at the end (nothing else sets it); untouched options keep their defaults; one wrong-typed value / unknown
               option inside the parsed file or next to the callback option makes the outer parse raise.
  UNSPECIFIED  an option set by a flag and then by the file of a callback option given LATER: the documentation says the
               file wins, the statement read literally says the flag's value - either is accepted (a third value is a
               violation); whether/when/how often a callback runs (documentation only).
"""
from __future__ import annotations

import contextlib
import copy
import datetime
import io
import keyword
import os
import random
import shutil
import tempfile

from vf import core

core.use_repo()
from tornado.options import OptionParser  # noqa: E402

PROP = "C44"
META = {
    "level": "exploration",
    "technique": "generator-owned denotation: independent value printers (canonical + alternative forms) vs. values held by a fresh OptionParser after parse_command_line / parse_config_file; negative catalogue for unknown options and wrong-typed values",
    "level_text": "Random definition sets (1-6 options; str/int/float/bool/datetime/timedelta; str values from a word list, a list of words built from the option-syntax characters _ - = and random strings over them; scalar and multiple; defaults of the type or None; dash/underscore name spellings) are parsed from generated command lines (-/--/--- prefixes, name spellings, `--` terminator, positional tail, final on/off) and generated config files (typed literals and strings); every option's value, type and every untouched default is compared with the generator's denotation; one-fault negative cases expect an error. A second case kind puts options whose callback re-enters the parser (documented --config=FILE pattern: config file, arguments file, direct assignment) at every position among ordinary flags, with files that set any subset of the options: flags given after the callback option must win, values are also observed inside the callback right after the nested parse.",
    "level_note": "Any exception counts as rejection. Integer ranges are inclusive (code comment + options_test), the docstring's range(x, y) is recorded as a doc discrepancy. Time-only datetime formats are compared on the time part only.",
    "design_ref": "DESIGN.md §4 C44",
    "engine": "oracle",
}
RULE = ("cases are (definition set, source kind, assignments with their textual forms, optional single fault) rebuilt "
        "from a sub-seed; non-trivial if at least one option is assigned from text or a fault is injected; distinct by "
        "the rendered scenario (definitions + argv/config text); callback scenarios: (definitions, 1-2 callback options of "
        "kind file/argsfile/setattr with their payload, order of flags and callback options, optional single fault)")
FLOORS = {"quick": 12000, "thorough": 400000}
ASSUMPTIONS = ["C locale for %a/%b names", "integer ranges x:y are inclusive at both ends",
               "any exception raised by the parse call is a rejection",
               "a flag given after a callback option is the last assignment of its option (documented callback order)"]
REQUIRED_COUNTERS = ["oracle_evals", "value_checks", "default_checks", "cmdline_cases", "config_cases",
                     "neg_unknown_option", "neg_wrong_type", "type_int", "type_float", "type_bool", "type_str",
                     "type_datetime", "type_timedelta", "multiple_options", "int_ranges", "cb_cases",
                     "cb_flag_after_hook_same_option", "cb_in_callback_value_checks", "cb_set_only_by_callback_parse",
                     "cb_hook_file", "cb_hook_argsfile", "cb_hook_setattr", "cb_neg_payload", "cb_neg_outer"]

TYPES = {"str": str, "int": int, "float": float, "bool": bool, "datetime": datetime.datetime,
         "timedelta": datetime.timedelta}
DAY3 = ["Mon", "Tue", "Wed", "Thu", "Fri", "Sat", "Sun"]
MON3 = ["Jan", "Feb", "Mar", "Apr", "May", "Jun", "Jul", "Aug", "Sep", "Oct", "Nov", "Dec"]
UNITS = {"h": 3600 * 10 ** 6, "m": 60 * 10 ** 6, "min": 60 * 10 ** 6, "s": 10 ** 6, "sec": 10 ** 6, "ms": 1000,
         "us": 1, "d": 86400 * 10 ** 6, "w": 7 * 86400 * 10 ** 6, "hours": 3600 * 10 ** 6, "minutes": 60 * 10 ** 6,
         "seconds": 10 ** 6, "milliseconds": 1000, "microseconds": 1, "days": 86400 * 10 ** 6,
         "weeks": 7 * 86400 * 10 ** 6}
RESERVED = set(keyword.kwlist) | set(keyword.softkwlist) | {"help", "datetime", "True", "False", "None", "unrelated_name"}


def days_from_civil(y, m, d):
    y -= m <= 2
    era = y // 400
    yoe = y - era * 400
    doy = (153 * (m + (-3 if m > 2 else 9)) + 2) // 5 + d - 1
    doe = yoe * 365 + yoe // 4 - yoe // 100 + doy
    return era * 146097 + doe - 719468


# ---------------------------------------------------------------------------------------------
# values and printers.  gen_value returns (python value, [(text, time_only)] MUST forms)

def gen_int(rng):
    n = rng.choice([0, 1, -1, 7, 42, 80, 8888, 65535, -300, 2 ** 31, 10 ** 18 + 3, rng.randint(-10 ** 6, 10 ** 6)])
    return n, [(str(n), False)]


def gen_float(rng):
    x = rng.choice([0.0, 1.5, -2.25, 3.0, 100.0, 1e-7, 1e22, 0.1, 2.5e-3, 123456.789, rng.uniform(-1e6, 1e6),
                    rng.random(), float(rng.randint(-1000, 1000))])
    forms = [repr(x), "%.17e" % x, ("%.17e" % x).upper()]
    if x == int(x) and abs(x) < 1e15:
        forms.append(str(int(x)))
    return x, [(f, False) for f in forms]


def gen_bool(rng):
    b = rng.random() < 0.5
    forms = ["true", "True", "TRUE", "1", "t", "T", "tRuE"] if b else ["false", "False", "FALSE", "0", "f", "F", "fAlSe"]
    return b, [(f, False) for f in forms]


WORDS = ["x", "hello", "a b", "a=b", "k=v=w", "-dash", "--x=1", "caf\xe9", "中文", "100%", "a:b", "/tmp/p",
         "mydb.example.com:3306", " lead", "trail ", "q'uote\"s", "\\back", "#hash", "1", "true", "1.5"]


# values made of the very characters the option syntax itself uses (name separators "_" and "-", "=", leading
# dashes): a value is taken literally, only the option *name* is normalised
SYNTAX_WORDS = ["my_app", "/var/log/my_app", "alice_smith", "__root__", "_", "__", "_lead", "trail_", "a__b",
                "db_1.local", "a_b-c=d", "a-b_c", "snake_case_name", "kebab-case-name", "--log_dir=/x_y", "-_-",
                "x_y=z_w", "=", "==", "=a_b", "a_b=", "1_000", "1_0.5", "UPPER_CASE", "caf\xe9_\u4e2d", "_=-"]
WORD_ALPHABET = "abzAZ019__--==./:+@~% "


def gen_str(rng, in_list=False):
    r = rng.random()
    if r < 0.5:
        s = rng.choice(WORDS)
    elif r < 0.75:
        s = rng.choice(SYNTAX_WORDS)
    else:
        s = "".join(rng.choice(WORD_ALPHABET) for _ in range(rng.randint(1, 10)))
    if not in_list and rng.random() < 0.3:
        s = rng.choice(["", "a,b", ",", s + "," + s])
    return s, [(s, False)]


def gen_datetime(rng):
    y = rng.choice([1900, 1970, 1999, 2000, 2013, 2024, 2038, 2100, 9999, 1000, rng.randint(1000, 9999)])
    mo = rng.randint(1, 12)
    d = rng.randint(1, 28) if rng.random() < 0.9 else rng.choice([29, 30]) if mo != 2 else 28
    h, mi, s = rng.randint(0, 23), rng.randint(0, 59), rng.randint(0, 59)
    fmt = rng.randrange(10)
    date_part = fmt < 8
    if fmt in (2, 3, 5, 9):
        s = 0
    if fmt in (6, 7):
        h = mi = s = 0
    wd = (days_from_civil(y, mo, d) + 3) % 7
    text = [
        f"{DAY3[wd]} {MON3[mo - 1]} {d:02d} {h:02d}:{mi:02d}:{s:02d} {y:04d}",
        f"{y:04d}-{mo:02d}-{d:02d} {h:02d}:{mi:02d}:{s:02d}",
        f"{y:04d}-{mo:02d}-{d:02d} {h:02d}:{mi:02d}",
        f"{y:04d}-{mo:02d}-{d:02d}T{h:02d}:{mi:02d}",
        f"{y:04d}{mo:02d}{d:02d} {h:02d}:{mi:02d}:{s:02d}",
        f"{y:04d}{mo:02d}{d:02d} {h:02d}:{mi:02d}",
        f"{y:04d}-{mo:02d}-{d:02d}",
        f"{y:04d}{mo:02d}{d:02d}",
        f"{h:02d}:{mi:02d}:{s:02d}",
        f"{h:02d}:{mi:02d}",
    ][fmt]
    return datetime.datetime(y, mo, d, h, mi, s), [(text, not date_part)]


def gen_timedelta(rng):
    terms = []
    total = 0
    for _ in range(rng.choice([1, 1, 1, 2, 3])):
        unit = rng.choice(list(UNITS))
        if UNITS[unit] == 1:
            num_txt = str(rng.randint(0, 5000))
            num_q = int(num_txt) * 4
        else:
            q = rng.randint(0, 400)            # quarters
            if rng.random() < 0.6:
                q -= q % 4
            whole, frac = divmod(q, 4)
            num_txt = str(whole) if frac == 0 and rng.random() < 0.8 else f"{whole}.{['0', '25', '5', '75'][frac]}"
            if frac == 0 and whole % 10 == 0 and whole and rng.random() < 0.2:
                num_txt = f"{whole // 10}e1"
            num_q = q
        if rng.random() < 0.15 and num_q:
            num_txt, num_q = "-" + num_txt, -num_q
        assert (num_q * UNITS[unit]) % 4 == 0
        total += num_q * UNITS[unit] // 4
        terms.append(num_txt + rng.choice(["", " "]) + unit)
    if rng.random() < 0.15:
        n = rng.randint(0, 100000)
        return datetime.timedelta(seconds=n), [(str(n), False)]        # bare number = seconds
    return datetime.timedelta(microseconds=total), [(rng.choice([" ", "  "]).join(terms), False)]


GEN = {"str": gen_str, "int": gen_int, "float": gen_float, "bool": gen_bool, "datetime": gen_datetime,
       "timedelta": gen_timedelta}

# values that are not of the type (MUST-REJECT); bool is listed separately: known-finding candidate
WRONG = {
    "int": ["abc", "12x", "1.5", "", "1:2", "0x10", "one", "1e3"],
    "float": ["abc", "1.2.3", "", "1,5", "1.5x", "--"],
    "datetime": ["not a date", "2020-13-45", "25:61", "", "2020-01-01 10:70", "yesterday", "12/31/2020"],
    "timedelta": ["abc", "1 fortnight", "1h x", "h", "one hour"],
    "bool": ["banana", "maybe", "2", "truee", "1.5", "-1", "nope"],
}
WRONG_MULTI_INT = ["1:2:3", "a,b", "1,,2", ":3", "1,x", "1;2"]
UNSPEC_FORMS = {
    "int": lambda n: ["+%d" % n if n >= 0 else None, "%05d" % n if n >= 0 else None, " %d" % n, "%d " % n,
                      f"{n:_}" if abs(n) >= 1000 else None],
    "bool": lambda b: ["yes", "on", "y"] if b else ["no", "off", "n"],
}


def gen_name(rng, used):
    for _ in range(50):
        segs = []
        for _ in range(rng.choice([1, 1, 2, 2, 3])):
            segs.append(rng.choice("abcdefghijklmnopqrstuvwxyzABC") +
                        "".join(rng.choice("abcdefghijklmnopqrstuvwxyz0123456789") for _ in range(rng.randint(0, 5))))
        norm = "-".join(segs)
        if norm in used or norm.replace("-", "_") in RESERVED:
            continue
        used.add(norm)
        seps = [rng.choice("-_") for _ in segs[1:]]
        return segs, "".join(s + (seps[i] if i < len(seps) else "") for i, s in enumerate(segs))
    raise RuntimeError("name generator exhausted")


def spell(rng, segs):
    return "".join(s + (rng.choice("-_") if i < len(segs) - 1 else "") for i, s in enumerate(segs))


def py_literal(tname, v):
    if tname == "datetime":
        return "datetime.datetime(%d, %d, %d, %d, %d, %d)" % (v.year, v.month, v.day, v.hour, v.minute, v.second)
    if tname == "timedelta":
        us = v.days * 86400 * 10 ** 6 + v.seconds * 10 ** 6 + v.microseconds
        return "datetime.timedelta(microseconds=%d)" % us
    return repr(v)


def gen_def(rng, used):
    tname = rng.choice(list(TYPES))
    multiple = rng.random() < 0.3
    segs, defined = gen_name(rng, used)
    if rng.random() < 0.3:
        default = None
    elif multiple:
        default = [GEN[tname](rng)[0] if tname != "str" else gen_str(rng, True)[0] for _ in range(rng.randint(0, 3))]
    else:
        default = GEN[tname](rng)[0]
    return {"segs": segs, "name": defined, "type": tname, "multiple": multiple, "default": default,
            "explicit_type": default is None or multiple or rng.random() < 0.5}


def gen_assignment(rng, d, mode):
    """A value of d's type and one MUST-ACCEPT way of writing it in a command line ("cmdline") or a config file
    ("config").  Returns (value, source, time_only); source = ("text", s) | ("literal", python source) | ("flag", None)."""
    t = d["type"]
    if d["multiple"]:
        items, texts, any_time_only = [], [], False
        for _ in range(rng.randint(1, 4)):
            if t == "int" and rng.random() < 0.4:
                a = rng.randint(-50, 1000)
                b = a + rng.randint(0, 12)
                items.extend(range(a, b + 1))
                texts.append(f"{a}:{b}")
                d["_range"] = True
            else:
                v, forms = GEN[t](rng) if t != "str" else gen_str(rng, True)
                txt, to = rng.choice(forms)
                any_time_only |= to
                items.append(v)
                texts.append(txt)
        if mode == "config" and rng.random() < 0.5 and not d.get("_range"):
            src = ("literal", "[" + ", ".join(py_literal(t, v) for v in items) + "]")
            any_time_only = False
        else:
            src = ("text", ",".join(texts))
        return items, src, any_time_only
    v, forms = GEN[t](rng)
    txt, to = rng.choice(forms)
    if mode == "config" and (rng.random() < 0.5 or t == "str"):
        src, to = ("literal", py_literal(t, v)), False
    elif mode == "cmdline" and t == "bool" and v is True and rng.random() < 0.4:
        src = ("flag", None)
    else:
        src = ("text", txt)
    return v, src, to


class Scenario:
    pass


def build(sub):
    rng = random.Random(sub)
    sc = Scenario()
    used = set()
    sc.defs = [gen_def(rng, used) for _ in range(rng.randint(1, 6))]
    sc.mode = rng.choice(["cmdline", "cmdline", "config"])
    sc.final = rng.random() < 0.8
    sc.fault = rng.choice([None, None, None, "unknown", "wrongtype", "wrongtype"])
    if sc.mode == "config" and sc.fault == "unknown":
        sc.fault = None           # unknown names in config files are ignored by design
    sc.assign = []               # (def index, expected value, text or literal source, time_only, kind)
    sc.unspec = None
    order = list(range(len(sc.defs)))
    rng.shuffle(order)
    chosen = order[: rng.randint(1, len(order))] if rng.random() < 0.9 else []
    for i in chosen:
        sc.assign.append((i,) + gen_assignment(rng, sc.defs[i], sc.mode))
    # UNSPECIFIED alternative spelling on one assigned scalar option (counted, value checked if accepted)
    if sc.fault is None and sc.assign and rng.random() < 0.1:
        k = rng.randrange(len(sc.assign))
        i, v, src, to = sc.assign[k]
        d = sc.defs[i]
        if not d["multiple"] and d["type"] in UNSPEC_FORMS and src[0] == "text":
            alts = [a for a in UNSPEC_FORMS[d["type"]](v) if a is not None]
            sc.assign[k] = (i, v, ("text", rng.choice(alts)), to)
            sc.unspec = k
    # faults
    sc.fault_desc = None
    if sc.fault == "wrongtype":
        cands = [i for i, d in enumerate(sc.defs) if d["type"] != "str" or sc.mode == "config"]
        if not cands:
            sc.fault = None
        else:
            i = rng.choice(cands)
            d = sc.defs[i]
            t = d["type"]
            sc.assign = [a for a in sc.assign if a[0] != i]
            if sc.mode == "config" and rng.random() < 0.5:
                # wrong literal type
                if d["multiple"]:
                    lit = rng.choice(["5", "1.5", "(1, 2)", "{'a': 1}", "[object()]", "[1, 'a', 2.5, [1]]"])
                    if lit == "[1, 'a', 2.5, [1]]" or lit == "[object()]":
                        pass
                else:
                    wrong_lits = {"str": ["5", "1.5", "['a']", "b'x'"], "int": ["1.5", "[1]", "(1,)", "{}"],
                                  "float": ["[1.5]", "(1.5,)", "1j"], "bool": ["[True]", "1.5", "{}"],
                                  "datetime": ["5", "1.5", "datetime.date(2020, 1, 1)", "[]"],
                                  "timedelta": ["5", "1.5", "datetime.datetime(2020, 1, 1)", "[]"]}
                    lit = rng.choice(wrong_lits[t])
                sc.fault_desc = {"opt": i, "src": ("literal", lit), "what": f"config-literal-{t}{'-multiple' if d['multiple'] else ''}"}
            elif t == "str":
                sc.fault = None
            else:
                if d["multiple"] and t == "int" and rng.random() < 0.6:
                    txt = rng.choice(WRONG_MULTI_INT)
                elif d["multiple"]:
                    good = rng.choice(GEN[t](rng)[1])[0]
                    txt = good + "," + rng.choice([w for w in WRONG[t] if "," not in w and ":" not in w])
                else:
                    txt = rng.choice(WRONG[t])
                sc.fault_desc = {"opt": i, "src": ("text", txt), "what": t + ("-multiple" if d["multiple"] else "")}
    if sc.fault == "unknown":
        nm = rng.choice(["nosuch", "no-such-option", "x_y_z", "verbose", "config"])
        if rng.random() < 0.4 and sc.defs:
            base = rng.choice(sc.defs)["name"]
            nm = rng.choice([base + "x", base[:-1] if len(base) > 1 else base + "q", "x" + base])
        if nm.replace("_", "-") in {"-".join(d["segs"]) for d in sc.defs} or nm.replace("_", "-") == "help":
            nm = "zz-unknown-zz"
        sc.fault_desc = {"name": nm, "form": rng.choice(["--%s=1", "--%s", "-%s=x", "--%s="])}
    # command-line tail
    sc.tail = None
    if sc.mode == "cmdline" and rng.random() < 0.3:
        extra = []
        unassigned = [i for i in range(len(sc.defs)) if i not in [a[0] for a in sc.assign]
                      and not (sc.fault_desc and sc.fault_desc.get("opt") == i)]
        if unassigned:
            d = sc.defs[unassigned[0]]
            v, forms = GEN[d["type"]](rng) if d["type"] != "str" else gen_str(rng, True)
            extra.append("--" + d["name"] + "=" + forms[0][0])
        sc.tail = (rng.choice(["--", "positional", "pos=1"]), extra + rng.choice([[], ["more"], ["-x", "--"]]))
    sc.rng = rng
    return sc


def render(sc, scratch):
    """Returns (argv or None, config text or None, description)."""
    rng = sc.rng
    if sc.mode == "cmdline":
        argv = ["prog"]
        parts = []
        for (i, v, src, to) in sc.assign:
            d = sc.defs[i]
            name = spell(rng, d["segs"])
            dashes = rng.choice(["--", "--", "--", "-", "---"])
            parts.append(dashes + name if src[0] == "flag" else dashes + name + "=" + src[1])
        if sc.fault == "wrongtype" and sc.fault_desc:
            d = sc.defs[sc.fault_desc["opt"]]
            parts.insert(rng.randint(0, len(parts)), "--" + spell(rng, d["segs"]) + "=" + sc.fault_desc["src"][1])
        if sc.fault == "unknown":
            parts.insert(rng.randint(0, len(parts)), sc.fault_desc["form"] % sc.fault_desc["name"])
        argv += parts
        if sc.tail:
            if sc.tail[0] == "--":
                argv += ["--"] + sc.tail[1]
            else:
                argv += [sc.tail[0]] + sc.tail[1]
        return argv, None
    lines = ["import datetime", "unrelated_name = 12345"]
    entries = []
    for (i, v, src, to) in sc.assign:
        d = sc.defs[i]
        var = "_".join(d["segs"])
        entries.append(f"{var} = {src[1] if src[0] == 'literal' else repr(src[1])}")
    if sc.fault == "wrongtype" and sc.fault_desc:
        d = sc.defs[sc.fault_desc["opt"]]
        src = sc.fault_desc["src"]
        entries.insert(rng.randint(0, len(entries)), f"{'_'.join(d['segs'])} = {src[1] if src[0] == 'literal' else repr(src[1])}")
    return None, "\n".join(lines + entries) + "\n"


# ---------------------------------------------------------------------------------------------
# command lines with an option whose callback re-enters the parser (documented with define():
#     define("config", type=str, callback=lambda path: parse_config_file(path, final=False))
# "options in the file specified by --config will override options set earlier on the command line, but can be
# overridden by later flags").  Three kinds of such callbacks: parse a config file, parse a file of further
# command-line arguments, assign other options directly.

HOOK_NAMES = [("config",), ("conf", "file"), ("settings",), ("args", "file"), ("include",), ("profile",), ("preset",)]
HOOK_KINDS = ["file", "file", "file", "argsfile", "setattr"]


def gen_wrong_text(rng, d):
    t = d["type"]
    if t in ("str", "bool"):          # str takes any text; bool words are the recorded known finding
        return None
    if d["multiple"] and t == "int" and rng.random() < 0.6:
        return rng.choice(WRONG_MULTI_INT)
    if d["multiple"]:
        good = rng.choice(GEN[t](rng)[1])[0]
        return good + "," + rng.choice([w for w in WRONG[t] if "," not in w and ":" not in w])
    return rng.choice(WRONG[t])


def build_cb(sub):
    rng = random.Random("cb:%d" % sub)
    sc = Scenario()
    hook_names = rng.sample(HOOK_NAMES, rng.choice([1, 1, 1, 2]))
    used = {"-".join(h) for h in HOOK_NAMES}
    sc.defs = [gen_def(rng, used) for _ in range(rng.randint(1, 6))]
    sc.final = rng.random() < 0.8
    sc.hooks = []
    for segs in hook_names:
        kind = rng.choice(HOOK_KINDS)
        idx = [i for i in range(len(sc.defs)) if rng.random() < 0.65] or [rng.randrange(len(sc.defs))]
        rng.shuffle(idx)
        payload = []
        for i in idx:
            v, src, to = gen_assignment(rng, sc.defs[i], "config" if kind == "file" else "cmdline")
            if kind == "setattr":
                src, to = ("value", None), False
            payload.append((i, v, src, to))
        sc.hooks.append({"segs": list(segs), "kind": kind, "payload": payload, "given": rng.random() < 0.92,
                         "spelling": spell(rng, list(segs)), "dashes": rng.choice(["--", "--", "-"])})
    flags = [(i,) + gen_assignment(rng, sc.defs[i], "cmdline") for i in range(len(sc.defs)) if rng.random() < 0.6]
    sc.events = [("flag", a) for a in flags] + [("hook", k) for k, h in enumerate(sc.hooks) if h["given"]]
    rng.shuffle(sc.events)
    # one fault: a wrong-typed value (or, in an arguments file, an unknown option) inside what a callback parses, or on
    # the outer command line next to the callback option
    sc.fault = None
    if rng.random() < 0.15:
        given = [k for k, h in enumerate(sc.hooks) if h["given"] and h["kind"] != "setattr"]
        where = rng.choice(["payload", "payload", "outer"])
        if where == "payload" and given:
            k = rng.choice(given)
            h = sc.hooks[k]
            if h["kind"] == "argsfile" and rng.random() < 0.4:
                h["payload"].insert(rng.randint(0, len(h["payload"])), (None, None, ("raw", "--zz-unknown-zz=1"), False))
                sc.fault = {"where": "payload", "hook": k, "what": "unknown-option"}
            else:
                i = rng.randrange(len(sc.defs))
                txt = gen_wrong_text(rng, sc.defs[i])
                if txt is not None:
                    h["payload"] = [a for a in h["payload"] if a[0] != i]
                    h["payload"].insert(rng.randint(0, len(h["payload"])), (i, None, ("text", txt), False))
                    d = sc.defs[i]
                    sc.fault = {"where": "payload", "hook": k, "opt": i, "given": txt,
                                "what": d["type"] + ("-multiple" if d["multiple"] else "")}
        elif where == "outer":
            i = rng.randrange(len(sc.defs))
            txt = gen_wrong_text(rng, sc.defs[i])
            if txt is not None:
                sc.events = [e for e in sc.events if not (e[0] == "flag" and e[1][0] == i)]
                sc.events.insert(rng.randint(0, len(sc.events)), ("flag", (i, None, ("text", txt), False)))
                d = sc.defs[i]
                sc.fault = {"where": "outer", "opt": i, "given": txt, "what": d["type"] + ("-multiple" if d["multiple"] else "")}
    sc.rng = rng
    return sc


def render_cb(sc, directory):
    """Returns (argv, {file name: text}).  Hook files live in `directory`."""
    rng = sc.rng
    files = {}
    for k, h in enumerate(sc.hooks):
        h["path"] = os.path.join(directory, "h%d.%s" % (k, "cfg" if h["kind"] == "file" else "args"))
        if h["kind"] == "file":
            lines = ["import datetime", "unrelated_name = 12345"]
            for (i, v, src, to) in h["payload"]:
                var = "_".join(sc.defs[i]["segs"])
                lines.append(f"{var} = {src[1] if src[0] == 'literal' else repr(src[1])}")
            files[h["path"]] = "\n".join(lines) + "\n"
        elif h["kind"] == "argsfile":
            lines = []
            for (i, v, src, to) in h["payload"]:
                if src[0] == "raw":
                    lines.append(src[1])
                    continue
                name = spell(rng, sc.defs[i]["segs"])
                lines.append("--" + name if src[0] == "flag" else "--" + name + "=" + src[1])
            files[h["path"]] = "".join(ln + "\n" for ln in lines)
    argv = ["prog"]
    for ev in sc.events:
        if ev[0] == "hook":
            h = sc.hooks[ev[1]]
            argv.append(h["dashes"] + h["spelling"] + "=" + (h["path"] if h["kind"] != "setattr" else "dev"))
        else:
            i, v, src, to = ev[1]
            name = spell(rng, sc.defs[i]["segs"])
            dashes = rng.choice(["--", "--", "--", "-", "---"])
            argv.append(dashes + name if src[0] == "flag" else dashes + name + "=" + src[1])
    return argv, files


# ---------------------------------------------------------------------------------------------

def shards(tier, seed):
    n = 24000 if tier == "quick" else 640000
    k = 16
    out = [{"n": n // k, "j": j} for j in range(k)]
    cn, ck = (3000, 4) if tier == "quick" else (40000, 4)
    out += [{"kind": "cb", "n": cn // ck, "j": 100 + j} for j in range(ck)]
    return out


def gen_cases(spec):
    rng = core.rng_for(spec["seed"], PROP, spec["j"])
    for _ in range(spec["n"]):
        yield (rng.getrandbits(52), "cb") if spec.get("kind") == "cb" else (rng.getrandbits(52),)


def directed_cases():
    return []


_SCRATCH = None


def scratch_dir():
    global _SCRATCH
    if _SCRATCH is None:
        _SCRATCH = tempfile.mkdtemp(prefix="vf-c44-")
    return _SCRATCH


def finish_shard(spec, ctx):
    global _SCRATCH
    if _SCRATCH:
        shutil.rmtree(_SCRATCH, ignore_errors=True)
        _SCRATCH = None


def same(tname, got, want, time_only):
    if tname == "datetime" and time_only:
        return isinstance(got, datetime.datetime) and got.time() == want.time()
    if tname == "float":
        return type(got) is float and got == want
    if tname == "int":
        return type(got) is int and got == want
    if tname == "bool":
        return type(got) is bool and got == want
    return type(got) is type(want) and got == want


def run_case(case, ctx):
    if len(case) > 1 and case[1] == "cb":
        return run_cb_case(case, ctx)
    sc = build(case[0])
    argv, cfg = render(sc, None)
    desc = {"defs": [{k: (ascii(v) if k == "default" else v) for k, v in d.items() if not k.startswith("_") and k != "segs"}
                     for d in sc.defs],
            "mode": sc.mode, "final": sc.final, "argv": argv, "config": cfg, "fault": sc.fault,
            "fault_desc": ascii(sc.fault_desc) if sc.fault_desc else None}
    nontrivial = bool(sc.assign) or sc.fault is not None
    new = ctx.mark((ascii(desc["defs"]), argv, cfg), nontrivial)
    if new and nontrivial and ctx.evaluations % 1777 == 13:
        ctx.sample(desc)
    ctx.count("cmdline_cases" if sc.mode == "cmdline" else "config_cases")

    p = OptionParser()
    defaults_snapshot = []
    option_cb = {}
    parse_cb = []
    try:
        for i, d in enumerate(sc.defs):
            kw = {}
            if d["explicit_type"]:
                kw["type"] = TYPES[d["type"]]
            if d["multiple"]:
                kw["multiple"] = True
            dflt = copy.deepcopy(d["default"])
            defaults_snapshot.append(copy.deepcopy(dflt))
            d["_live_default"] = dflt
            option_cb[i] = []
            p.define(d["name"], default=dflt, callback=(lambda v, i=i: option_cb[i].append(copy.deepcopy(v))), **kw)
        p.add_parse_callback(lambda: parse_cb.append(1))
    except Exception as e:  # noqa: BLE001
        ctx.violation(f"define/raises-{type(e).__name__}", "defining a fresh, uniquely named option on a new OptionParser raised",
                      dict(desc, error=repr(e)))
        return
    # effective declared type when not explicit: type(default)
    err = None
    remaining = None
    stderr = io.StringIO()
    try:
        with contextlib.redirect_stderr(stderr):
            if sc.mode == "cmdline":
                remaining = p.parse_command_line(list(argv), final=sc.final)
            else:
                path = os.path.join(scratch_dir(), "c.cfg")
                with open(path, "w", encoding="utf-8") as f:
                    f.write(cfg)
                p.parse_config_file(path, final=sc.final)
    except Exception as e:  # noqa: BLE001
        err = e
    except SystemExit as e:
        ctx.violation("parse/SystemExit", "parsing called sys.exit", dict(desc, error=repr(e)))
        return
    ctx.count("oracle_evals")

    if sc.fault == "unknown":
        ctx.count("neg_unknown_option")
        if err is None:
            ctx.violation("unknown-option-accepted", "an undefined command-line option was accepted without error",
                          dict(desc, values=ascii(p.as_dict())))
        return
    if sc.fault == "wrongtype" and sc.fault_desc:
        ctx.count("neg_wrong_type")
        d = sc.defs[sc.fault_desc["opt"]]
        ctx.seen("wrong_type_kinds", sc.fault_desc["what"])
        if err is None:
            got = getattr(p, d["name"].replace("-", "_"))
            if d["type"] == "bool" and sc.fault_desc["src"][0] == "text":
                mech = "wrong-type-accepted/bool-any-string-is-true"
                what = "a non-boolean word given for a bool option is silently parsed (as True)"
            elif sc.fault_desc["src"][0] == "literal":
                mech = "wrong-type-accepted/" + sc.fault_desc["what"]
                what = "a config-file literal of the wrong type was accepted"
            else:
                mech = "wrong-type-accepted/" + sc.fault_desc["what"]
                what = "a value that is not of the option's type was accepted without error"
            ctx.violation(mech, what, dict(desc, option=d["name"], given=sc.fault_desc["src"][1], parsed_as=ascii(got)))
        return
    if err is not None:
        if sc.unspec is not None:
            ctx.count("unspecified_form_rejected")
            return
        ctx.violation(f"valid-input-rejected/{sc.mode}/{type(err).__name__}",
                      "a command line / config file that sets options to textual forms of values of their types was rejected",
                      dict(desc, error=repr(err)))
        return

    assigned = {a[0]: a for a in sc.assign}
    for i, d in enumerate(sc.defs):
        t = d["type"]
        ctx.count("type_" + t)
        if d["multiple"]:
            ctx.count("multiple_options")
        if d.get("_range") and i in assigned:
            ctx.count("int_ranges")
        attr = d["name"].replace("-", "_")
        try:
            got = getattr(p, attr)
            got2 = p[d["name"]]
            got3 = p.as_dict()[d["name"]]
        except Exception as e:  # noqa: BLE001
            ctx.violation(f"lookup/raises-{type(e).__name__}", "reading a defined option raised",
                          dict(desc, option=d["name"], error=repr(e)))
            continue
        if not (got == got2 == got3) and not (got != got):
            ctx.violation("lookup/accessors-disagree", "attribute, item and as_dict access return different values",
                          dict(desc, option=d["name"], values=ascii([got, got2, got3])))
        if i in assigned:
            _, want, src, time_only = assigned[i]
            is_unspec = sc.unspec is not None and sc.assign[sc.unspec][0] == i
            ctx.count("value_checks")
            if d["multiple"]:
                ok = isinstance(got, list) and len(got) == len(want) and all(
                    (g == w if t == "bool" else same(t, g, w, time_only and t == "datetime")) for g, w in zip(got, want))
            else:
                ok = same(t, got, want, time_only)
            if is_unspec:
                ctx.count("unspecified_form_accepted")
            if not ok:
                if d["multiple"] and d.get("_range") and isinstance(got, list):
                    mech = "value/int-range-expansion"
                elif is_unspec and t == "bool":
                    # "no"/"off"/"n": not a documented form; parsed as True by the same rule as "banana"
                    mech = "wrong-type-accepted/bool-any-string-is-true"
                elif is_unspec:
                    mech = f"value/unspecified-form-parsed-to-other-value/{t}"
                else:
                    mech = f"value/{sc.mode}/{t}{'-multiple' if d['multiple'] else ''}"
                what = ("a non-boolean word given for a bool option is silently parsed (as True)"
                        if mech == "wrong-type-accepted/bool-any-string-is-true"
                        else "the parsed value is not the value whose textual form was given")
                ctx.violation(mech, what,
                              dict(desc, option=d["name"], source=ascii(src), got=ascii(got), want=ascii(want)))
            cbs = option_cb[i]
            if cbs:
                ctx.count("option_callback_observed")
                last = cbs[-1]
                if not (last == got):
                    ctx.violation("callback/option-callback-got-other-value",
                                  "the option's callback was not handed the value the option now holds",
                                  dict(desc, option=d["name"], callback_values=ascii(cbs), value=ascii(got)))
        else:
            ctx.count("default_checks")
            want = defaults_snapshot[i]
            ok = (got == want and type(got) is type(want)) or (want is None and d["multiple"] and got == [])
            if not ok:
                ctx.violation("default/unset-option-lost-its-default", "an option that was not set does not hold its default",
                              dict(desc, option=d["name"], got=ascii(got), default=ascii(want)))
            if d["_live_default"] != defaults_snapshot[i]:
                ctx.violation("default/default-object-mutated", "parsing mutated the default object of an option",
                              dict(desc, option=d["name"], now=ascii(d["_live_default"]), was=ascii(want)))
    if sc.mode == "cmdline":
        want_rem = []
        if sc.tail:
            want_rem = sc.tail[1] if sc.tail[0] == "--" else [sc.tail[0]] + sc.tail[1]
        ctx.count("remaining_checks")
        if remaining != want_rem:
            ctx.violation("cmdline/remaining-args", "parse_command_line did not return the arguments after the options",
                          dict(desc, got=remaining, want=want_rem))
    ctx.seen("parse_callback_runs", (sc.final, len(parse_cb)))
    ctx.count("parse_callback_runs_total", len(parse_cb))


# ---------------------------------------------------------------------------------------------
# callback scenarios: execution and oracle

def _valstr(t, multiple):
    return t + ("-multiple" if multiple else "")


def value_ok(d, got, want, time_only):
    t = d["type"]
    if d["multiple"]:
        return isinstance(got, list) and len(got) == len(want) and all(
            (g == w if t == "bool" else same(t, g, w, time_only and t == "datetime")) for g, w in zip(got, want))
    return same(t, got, want, time_only)


def run_cb_case(case, ctx):
    sc = build_cb(case[0])
    directory = os.path.join(scratch_dir(), "cb")
    os.makedirs(directory, exist_ok=True)
    argv, files = render_cb(sc, directory)
    shown = lambda x: x.replace(directory, "{DIR}")  # noqa: E731
    desc = {"defs": [{k: (ascii(v) if k == "default" else v) for k, v in d.items() if not k.startswith("_") and k != "segs"}
                     for d in sc.defs],
            "hooks": [{"name": "-".join(h["segs"]), "kind": h["kind"], "given": h["given"],
                       "callback": {"file": "lambda path: parser.parse_config_file(path, final=False)",
                                    "argsfile": "lambda path: parser.parse_command_line(['prog'] + lines_of(path), final=False)",
                                    "setattr": "lambda v: [setattr(parser, name, value) for name, value in assigns]"}[h["kind"]],
                       "assigns": [[sc.defs[a[0]]["name"], ascii(a[1])] for a in h["payload"] if a[0] is not None]
                       if h["kind"] == "setattr" else None} for h in sc.hooks],
            "mode": "cmdline+callback", "final": sc.final, "argv": [shown(a) for a in argv],
            "files": {shown(k): v for k, v in files.items()}, "fault": ascii(sc.fault) if sc.fault else None}
    new = ctx.mark((ascii(desc["defs"]), ascii(desc["hooks"]), desc["argv"], ascii(desc["files"])), True)
    if new and ctx.evaluations % 397 == 13:
        ctx.sample(desc)
    ctx.count("cb_cases")
    for path, text in files.items():
        with open(path, "w", encoding="utf-8", newline="\n") as f:
            f.write(text)

    p = OptionParser()
    attrs = [d["name"].replace("-", "_") for d in sc.defs]
    defaults_snapshot = []
    hook_runs = {k: [] for k in range(len(sc.hooks))}

    def snapshot():
        return [copy.deepcopy(getattr(p, a)) for a in attrs]

    def make_cb(k, h):
        def cb(value):
            rec = {"arg": value, "entry": snapshot(), "exit": None}
            hook_runs[k].append(rec)
            if h["kind"] == "file":
                p.parse_config_file(value, final=False)
            elif h["kind"] == "argsfile":
                with open(value, encoding="utf-8", newline="\n") as f:
                    lines = f.read().split("\n")[:-1]
                p.parse_command_line(["prog"] + lines, final=False)
            else:
                for (i, v, src, to) in h["payload"]:
                    setattr(p, attrs[i], copy.deepcopy(v))
            rec["exit"] = snapshot()
        return cb

    try:
        for i, d in enumerate(sc.defs):
            kw = {}
            if d["explicit_type"]:
                kw["type"] = TYPES[d["type"]]
            if d["multiple"]:
                kw["multiple"] = True
            dflt = copy.deepcopy(d["default"])
            defaults_snapshot.append(copy.deepcopy(dflt))
            p.define(d["name"], default=dflt, **kw)
        for k, h in enumerate(sc.hooks):
            p.define("-".join(h["segs"]), type=str, callback=make_cb(k, h))
    except Exception as e:  # noqa: BLE001
        ctx.violation(f"define/raises-{type(e).__name__}", "defining a fresh, uniquely named option on a new OptionParser raised",
                      dict(desc, error=repr(e)))
        return
    err = None
    remaining = None
    try:
        with contextlib.redirect_stderr(io.StringIO()):
            remaining = p.parse_command_line(list(argv), final=sc.final)
    except Exception as e:  # noqa: BLE001
        err = e
    except SystemExit as e:
        ctx.violation("parse/SystemExit", "parsing called sys.exit", dict(desc, error=repr(e)))
        return
    ctx.count("oracle_evals")
    for h in sc.hooks:
        if h["given"]:
            ctx.count("cb_hook_" + h["kind"])

    if sc.fault:
        ctx.count("cb_neg_" + sc.fault["where"])
        if err is None:
            if sc.fault["what"] == "unknown-option":
                ctx.violation("unknown-option-accepted/inside-option-callback",
                              "an undefined option in a command line parsed from an option callback was accepted without error",
                              dict(desc, values=ascii(p.as_dict())))
            else:
                d = sc.defs[sc.fault["opt"]]
                ctx.violation("wrong-type-accepted/" + sc.fault["what"] +
                              ("/inside-option-callback" if sc.fault["where"] == "payload" else "/next-to-option-callback"),
                              "a value that is not of the option's type was accepted without error",
                              dict(desc, option=d["name"], given=sc.fault["given"], parsed_as=ascii(getattr(p, attrs[sc.fault["opt"]]))))
        return
    if err is not None:
        ctx.violation(f"valid-input-rejected/cmdline+callback/{type(err).__name__}",
                      "a command line (with an option whose callback parses a further file) that sets options to textual "
                      "forms of values of their types was rejected", dict(desc, error=repr(err)))
        return

    # (1) inside each callback: what the nested parse sets holds when it returns (the statement applied to that parse)
    for k, h in enumerate(sc.hooks):
        for rec in hook_runs[k]:
            set_here = {}
            for (i, v, src, to) in h["payload"]:
                set_here[i] = (v, to)
            for i, d in enumerate(sc.defs):
                got = rec["exit"][i]
                if i in set_here:
                    ctx.count("cb_in_callback_value_checks")
                    if not value_ok(d, got, set_here[i][0], set_here[i][1]):
                        ctx.violation(f"callback-parse/value/{h['kind']}/{_valstr(d['type'], d['multiple'])}",
                                      "right after the parse performed inside an option callback returned, an option it sets does "
                                      "not hold the value whose textual form was given",
                                      dict(desc, option=d["name"], got=ascii(got), want=ascii(set_here[i][0])))
                else:
                    before, dflt = rec["entry"][i], defaults_snapshot[i]
                    if not (got == before and type(got) is type(before)) and not (got == dflt and type(got) is type(dflt)):
                        ctx.violation(f"callback-parse/changed-option-it-does-not-set/{h['kind']}",
                                      "a parse performed inside an option callback changed an option it does not mention",
                                      dict(desc, option=d["name"], before=ascii(before), after=ascii(got)))
    # (2) after the whole command line
    setters = {i: [] for i in range(len(sc.defs))}
    for ev in sc.events:
        if ev[0] == "flag":
            i, v, src, to = ev[1]
            setters[i].append(("flag", None, v, to))
        else:
            k = ev[1]
            for (i, v, src, to) in sc.hooks[k]["payload"]:
                setters[i].append(("hook", k, v, to))
    for i, d in enumerate(sc.defs):
        t = d["type"]
        ctx.count("type_" + t)
        try:
            got = getattr(p, attrs[i])
            got2 = p[d["name"]]
            got3 = p.as_dict()[d["name"]]
        except Exception as e:  # noqa: BLE001
            ctx.violation(f"lookup/raises-{type(e).__name__}", "reading a defined option raised",
                          dict(desc, option=d["name"], error=repr(e)))
            continue
        if not (got == got2 == got3) and not (got != got):
            ctx.violation("lookup/accessors-disagree", "attribute, item and as_dict access return different values",
                          dict(desc, option=d["name"], values=ascii([got, got2, got3])))
        ss = setters[i]
        if not ss:
            ctx.count("default_checks")
            want = defaults_snapshot[i]
            ok = (got == want and type(got) is type(want)) or (want is None and d["multiple"] and got == [])
            if not ok:
                ctx.violation("default/unset-option-lost-its-default", "an option that was not set does not hold its default",
                              dict(desc, option=d["name"], got=ascii(got), default=ascii(want)))
            continue
        ctx.count("value_checks")
        last = ss[-1]
        if last[0] == "flag":
            # the command line itself sets the option last: explicitly (statement) and by the documented order
            # ("options in the file ... can be overridden by later flags")
            if any(x[0] == "hook" for x in ss):
                ctx.count("cb_flag_after_hook_same_option")
            else:
                ctx.count("cb_flag_only")
            if not value_ok(d, got, last[2], last[3]):
                overridden = any(value_ok(d, got, x[2], x[3]) for x in ss[:-1])
                mech = ("value/cmdline-flag-overridden-by-callback-option-given-earlier" if overridden else
                        "value/cmdline+callback/" + _valstr(t, d["multiple"]))
                ctx.violation(mech, "an option set by a command-line flag holds, after parsing, the value assigned by an option "
                              "callback given EARLIER on the command line instead of the flag's value (documented: 'can be "
                              "overridden by later flags')" if overridden else
                              "the parsed value is not the value whose textual form was given",
                              dict(desc, option=d["name"], got=ascii(got), want=ascii(last[2]),
                                   all_assignments_in_order=ascii([(x[0], x[1], x[2]) for x in ss])))
            continue
        ran = [x for x in ss if x[0] == "flag" or hook_runs[x[1]]]
        if len(ss) == 1:
            if not hook_runs[last[1]]:
                ctx.count("unspecified_option_callback_not_run")      # callback invocation itself is documentation, not statement
                continue
            ctx.count("cb_set_only_by_callback_parse")
            if not value_ok(d, got, last[2], last[3]):
                ctx.violation(f"value/set-only-inside-option-callback/{sc.hooks[last[1]]['kind']}/{_valstr(t, d['multiple'])}",
                              "an option assigned only by the parse an option callback performed (checked there) no longer holds "
                              "that value after the command line was parsed, although nothing else sets it",
                              dict(desc, option=d["name"], got=ascii(got), want=ascii(last[2])))
            continue
        # the last assignment in command-line order comes from a callback and earlier flags / callbacks also set the option:
        # documented ("will override options set earlier on the command line") but the statement read literally says the
        # flag's value -> either is accepted, anything else is a value from nowhere
        if value_ok(d, got, last[2], last[3]):
            ctx.count("unspecified_callback_overrode_earlier_assignment")
        elif any(value_ok(d, got, x[2], x[3]) for x in ran or ss):
            ctx.count("unspecified_earlier_assignment_survived_callback")
        else:
            ctx.violation(f"value/callback-scenario-value-from-nowhere/{_valstr(t, d['multiple'])}",
                          "after parsing, an option holds none of the values the command line or the callbacks' files set it to",
                          dict(desc, option=d["name"], got=ascii(got),
                               all_assignments_in_order=ascii([(x[0], x[1], x[2]) for x in ss])))
    for k, h in enumerate(sc.hooks):
        got = getattr(p, "_".join(h["segs"]))
        if h["given"]:
            want = h["path"] if h["kind"] != "setattr" else "dev"
            if not (type(got) is str and got == want):
                ctx.violation("value/cmdline+callback/str", "the parsed value is not the value whose textual form was given",
                              dict(desc, option="-".join(h["segs"]), got=ascii(got), want=shown(want)))
        elif got is not None:
            ctx.violation("default/unset-option-lost-its-default", "an option that was not set does not hold its default",
                          dict(desc, option="-".join(h["segs"]), got=ascii(got), default="None"))
        ctx.seen("hook_callback_runs", (h["given"], len(hook_runs[k])))
    ctx.count("remaining_checks")
    if remaining != []:
        ctx.violation("cmdline/remaining-args", "parse_command_line did not return the arguments after the options",
                      dict(desc, got=remaining, want=[]))
