"""C44 — command-line and config-file options parse to the values they denote.

The generator owns the denotation: it picks typed values, prints them to text with its own
printers (never tornado's, never strftime) in canonical and alternative forms, defines the options
on a fresh OptionParser, feeds a command line or a config file, and compares what the parser
holds with the value that was printed.  Negative cases add exactly one unknown command-line
option or one wrong-typed value and expect an error (any exception).

A case is (sub-seed,): everything is rebuilt deterministically from it in run_case, and the full
scenario (definitions, argv / config text, expectation) goes into the witness.

Gating classes
  MUST-ACCEPT  int: -?D+ ; float: repr / %.17e / upper-case exponent / integral "3" ; bool:
               true|false|1|0|t|f in any case, bare --flag ; str: itself (incl. values containing "_", "-",
               "=", leading dashes, i.e. the characters of the option syntax: only names are normalised) ; datetime: the ten
               formats of _DATETIME_FORMATS with zero-padded fields ; timedelta: <number><unit> or
               <number> <unit> over the unit table, whitespace-separated sums, bare seconds ;
               multiple: comma lists, integer ranges a:b (inclusive, a <= b) ; config files: typed
               literals or the same strings.
  MUST-REJECT  unknown command-line option names; values that are not of the option's type
               (catalogue in WRONG) incl. wrong literal types in config files.
  UNSPECIFIED  "+5", "007", " 5", "1_000", Unicode digits; "1h30m" (no separator), upper-case
               units, "" for timedelta/bool; yes/no/on/off for bool; reversed ranges; int literal
               for a float option, bool literal for an int option, None; repeated options;
               parse-callback counts (documented, but not part of the statement: observed only).
"""
from __future__ import annotations

import contextlib
import copy
import datetime
import io
import keyword
import os
import random
import shutil
import tempfile

from vf import core

core.use_repo()
from tornado.options import OptionParser  # noqa: E402

PROP = "C44"
META = {
    "level": "exploration",
    "technique": "generator-owned denotation: independent value printers (canonical + alternative forms) vs. values held by a fresh OptionParser after parse_command_line / parse_config_file; negative catalogue for unknown options and wrong-typed values",
    "level_text": "Random definition sets (1-6 options; str/int/float/bool/datetime/timedelta; str values from a word list, a list of words built from the option-syntax characters _ - = and random strings over them; scalar and multiple; defaults of the type or None; dash/underscore name spellings) are parsed from generated command lines (-/--/--- prefixes, name spellings, `--` terminator, positional tail, final on/off) and generated config files (typed literals and strings); every option's value, type and every untouched default is compared with the generator's denotation; one-fault negative cases expect an error.",
    "level_note": "Any exception counts as rejection. Integer ranges are inclusive (code comment + options_test), the docstring's range(x, y) is recorded as a doc discrepancy. Time-only datetime formats are compared on the time part only.",
    "design_ref": "DESIGN.md §4 C44",
    "engine": "oracle",
}
RULE = ("cases are (definition set, source kind, assignments with their textual forms, optional single fault) rebuilt "
        "from a sub-seed; non-trivial if at least one option is assigned from text or a fault is injected; distinct by "
        "the rendered scenario (definitions + argv/config text)")
FLOORS = {"quick": 12000, "thorough": 400000}
ASSUMPTIONS = ["C locale for %a/%b names", "integer ranges x:y are inclusive at both ends",
               "any exception raised by the parse call is a rejection"]
REQUIRED_COUNTERS = ["oracle_evals", "value_checks", "default_checks", "cmdline_cases", "config_cases",
                     "neg_unknown_option", "neg_wrong_type", "type_int", "type_float", "type_bool", "type_str",
                     "type_datetime", "type_timedelta", "multiple_options", "int_ranges"]

TYPES = {"str": str, "int": int, "float": float, "bool": bool, "datetime": datetime.datetime,
         "timedelta": datetime.timedelta}
DAY3 = ["Mon", "Tue", "Wed", "Thu", "Fri", "Sat", "Sun"]
MON3 = ["Jan", "Feb", "Mar", "Apr", "May", "Jun", "Jul", "Aug", "Sep", "Oct", "Nov", "Dec"]
UNITS = {"h": 3600 * 10 ** 6, "m": 60 * 10 ** 6, "min": 60 * 10 ** 6, "s": 10 ** 6, "sec": 10 ** 6, "ms": 1000,
         "us": 1, "d": 86400 * 10 ** 6, "w": 7 * 86400 * 10 ** 6, "hours": 3600 * 10 ** 6, "minutes": 60 * 10 ** 6,
         "seconds": 10 ** 6, "milliseconds": 1000, "microseconds": 1, "days": 86400 * 10 ** 6,
         "weeks": 7 * 86400 * 10 ** 6}
RESERVED = set(keyword.kwlist) | set(keyword.softkwlist) | {"help", "datetime", "True", "False", "None", "unrelated_name"}


def days_from_civil(y, m, d):
    y -= m <= 2
    era = y // 400
    yoe = y - era * 400
    doy = (153 * (m + (-3 if m > 2 else 9)) + 2) // 5 + d - 1
    doe = yoe * 365 + yoe // 4 - yoe // 100 + doy
    return era * 146097 + doe - 719468


# ---------------------------------------------------------------------------------------------
# values and printers.  gen_value returns (python value, [(text, time_only)] MUST forms)

def gen_int(rng):
    n = rng.choice([0, 1, -1, 7, 42, 80, 8888, 65535, -300, 2 ** 31, 10 ** 18 + 3, rng.randint(-10 ** 6, 10 ** 6)])
    return n, [(str(n), False)]


def gen_float(rng):
    x = rng.choice([0.0, 1.5, -2.25, 3.0, 100.0, 1e-7, 1e22, 0.1, 2.5e-3, 123456.789, rng.uniform(-1e6, 1e6),
                    rng.random(), float(rng.randint(-1000, 1000))])
    forms = [repr(x), "%.17e" % x, ("%.17e" % x).upper()]
    if x == int(x) and abs(x) < 1e15:
        forms.append(str(int(x)))
    return x, [(f, False) for f in forms]


def gen_bool(rng):
    b = rng.random() < 0.5
    forms = ["true", "True", "TRUE", "1", "t", "T", "tRuE"] if b else ["false", "False", "FALSE", "0", "f", "F", "fAlSe"]
    return b, [(f, False) for f in forms]


WORDS = ["x", "hello", "a b", "a=b", "k=v=w", "-dash", "--x=1", "caf\xe9", "中文", "100%", "a:b", "/tmp/p",
         "mydb.example.com:3306", " lead", "trail ", "q'uote\"s", "\\back", "#hash", "1", "true", "1.5"]


# values made of the very characters the option syntax itself uses (name separators "_" and "-", "=", leading
# dashes): a value is taken literally, only the option *name* is normalised
SYNTAX_WORDS = ["my_app", "/var/log/my_app", "alice_smith", "__root__", "_", "__", "_lead", "trail_", "a__b",
                "db_1.local", "a_b-c=d", "a-b_c", "snake_case_name", "kebab-case-name", "--log_dir=/x_y", "-_-",
                "x_y=z_w", "=", "==", "=a_b", "a_b=", "1_000", "1_0.5", "UPPER_CASE", "caf\xe9_\u4e2d", "_=-"]
WORD_ALPHABET = "abzAZ019__--==./:+@~% "


def gen_str(rng, in_list=False):
    r = rng.random()
    if r < 0.5:
        s = rng.choice(WORDS)
    elif r < 0.75:
        s = rng.choice(SYNTAX_WORDS)
    else:
        s = "".join(rng.choice(WORD_ALPHABET) for _ in range(rng.randint(1, 10)))
    if not in_list and rng.random() < 0.3:
        s = rng.choice(["", "a,b", ",", s + "," + s])
    return s, [(s, False)]


def gen_datetime(rng):
    y = rng.choice([1900, 1970, 1999, 2000, 2013, 2024, 2038, 2100, 9999, 1000, rng.randint(1000, 9999)])
    mo = rng.randint(1, 12)
    d = rng.randint(1, 28) if rng.random() < 0.9 else rng.choice([29, 30]) if mo != 2 else 28
    h, mi, s = rng.randint(0, 23), rng.randint(0, 59), rng.randint(0, 59)
    fmt = rng.randrange(10)
    date_part = fmt < 8
    if fmt in (2, 3, 5, 9):
        s = 0
    if fmt in (6, 7):
        h = mi = s = 0
    wd = (days_from_civil(y, mo, d) + 3) % 7
    text = [
        f"{DAY3[wd]} {MON3[mo - 1]} {d:02d} {h:02d}:{mi:02d}:{s:02d} {y:04d}",
        f"{y:04d}-{mo:02d}-{d:02d} {h:02d}:{mi:02d}:{s:02d}",
        f"{y:04d}-{mo:02d}-{d:02d} {h:02d}:{mi:02d}",
        f"{y:04d}-{mo:02d}-{d:02d}T{h:02d}:{mi:02d}",
        f"{y:04d}{mo:02d}{d:02d} {h:02d}:{mi:02d}:{s:02d}",
        f"{y:04d}{mo:02d}{d:02d} {h:02d}:{mi:02d}",
        f"{y:04d}-{mo:02d}-{d:02d}",
        f"{y:04d}{mo:02d}{d:02d}",
        f"{h:02d}:{mi:02d}:{s:02d}",
        f"{h:02d}:{mi:02d}",
    ][fmt]
    return datetime.datetime(y, mo, d, h, mi, s), [(text, not date_part)]


def gen_timedelta(rng):
    terms = []
    total = 0
    for _ in range(rng.choice([1, 1, 1, 2, 3])):
        unit = rng.choice(list(UNITS))
        if UNITS[unit] == 1:
            num_txt = str(rng.randint(0, 5000))
            num_q = int(num_txt) * 4
        else:
            q = rng.randint(0, 400)            # quarters
            if rng.random() < 0.6:
                q -= q % 4
            whole, frac = divmod(q, 4)
            num_txt = str(whole) if frac == 0 and rng.random() < 0.8 else f"{whole}.{['0', '25', '5', '75'][frac]}"
            if frac == 0 and whole % 10 == 0 and whole and rng.random() < 0.2:
                num_txt = f"{whole // 10}e1"
            num_q = q
        if rng.random() < 0.15 and num_q:
            num_txt, num_q = "-" + num_txt, -num_q
        assert (num_q * UNITS[unit]) % 4 == 0
        total += num_q * UNITS[unit] // 4
        terms.append(num_txt + rng.choice(["", " "]) + unit)
    if rng.random() < 0.15:
        n = rng.randint(0, 100000)
        return datetime.timedelta(seconds=n), [(str(n), False)]        # bare number = seconds
    return datetime.timedelta(microseconds=total), [(rng.choice([" ", "  "]).join(terms), False)]


GEN = {"str": gen_str, "int": gen_int, "float": gen_float, "bool": gen_bool, "datetime": gen_datetime,
       "timedelta": gen_timedelta}

# values that are not of the type (MUST-REJECT); bool is listed separately: known-finding candidate
WRONG = {
    "int": ["abc", "12x", "1.5", "", "1:2", "0x10", "one", "1e3"],
    "float": ["abc", "1.2.3", "", "1,5", "1.5x", "--"],
    "datetime": ["not a date", "2020-13-45", "25:61", "", "2020-01-01 10:70", "yesterday", "12/31/2020"],
    "timedelta": ["abc", "1 fortnight", "1h x", "h", "one hour"],
    "bool": ["banana", "maybe", "2", "truee", "1.5", "-1", "nope"],
}
WRONG_MULTI_INT = ["1:2:3", "a,b", "1,,2", ":3", "1,x", "1;2"]
UNSPEC_FORMS = {
    "int": lambda n: ["+%d" % n if n >= 0 else None, "%05d" % n if n >= 0 else None, " %d" % n, "%d " % n,
                      f"{n:_}" if abs(n) >= 1000 else None],
    "bool": lambda b: ["yes", "on", "y"] if b else ["no", "off", "n"],
}


def gen_name(rng, used):
    for _ in range(50):
        segs = []
        for _ in range(rng.choice([1, 1, 2, 2, 3])):
            segs.append(rng.choice("abcdefghijklmnopqrstuvwxyzABC") +
                        "".join(rng.choice("abcdefghijklmnopqrstuvwxyz0123456789") for _ in range(rng.randint(0, 5))))
        norm = "-".join(segs)
        if norm in used or norm.replace("-", "_") in RESERVED:
            continue
        used.add(norm)
        seps = [rng.choice("-_") for _ in segs[1:]]
        return segs, "".join(s + (seps[i] if i < len(seps) else "") for i, s in enumerate(segs))
    raise RuntimeError("name generator exhausted")


def spell(rng, segs):
    return "".join(s + (rng.choice("-_") if i < len(segs) - 1 else "") for i, s in enumerate(segs))


def py_literal(tname, v):
    if tname == "datetime":
        return "datetime.datetime(%d, %d, %d, %d, %d, %d)" % (v.year, v.month, v.day, v.hour, v.minute, v.second)
    if tname == "timedelta":
        us = v.days * 86400 * 10 ** 6 + v.seconds * 10 ** 6 + v.microseconds
        return "datetime.timedelta(microseconds=%d)" % us
    return repr(v)


class Scenario:
    pass


def build(sub):
    rng = random.Random(sub)
    sc = Scenario()
    used = set()
    sc.defs = []
    for _ in range(rng.randint(1, 6)):
        tname = rng.choice(list(TYPES))
        multiple = rng.random() < 0.3
        segs, defined = gen_name(rng, used)
        if rng.random() < 0.3:
            default = None
        elif multiple:
            default = [GEN[tname](rng)[0] if tname != "str" else gen_str(rng, True)[0] for _ in range(rng.randint(0, 3))]
        else:
            default = GEN[tname](rng)[0]
        sc.defs.append({"segs": segs, "name": defined, "type": tname, "multiple": multiple, "default": default,
                        "explicit_type": default is None or multiple or rng.random() < 0.5})
    sc.mode = rng.choice(["cmdline", "cmdline", "config"])
    sc.final = rng.random() < 0.8
    sc.fault = rng.choice([None, None, None, "unknown", "wrongtype", "wrongtype"])
    if sc.mode == "config" and sc.fault == "unknown":
        sc.fault = None           # unknown names in config files are ignored by design
    sc.assign = []               # (def index, expected value, text or literal source, time_only, kind)
    sc.unspec = None
    order = list(range(len(sc.defs)))
    rng.shuffle(order)
    chosen = order[: rng.randint(1, len(order))] if rng.random() < 0.9 else []
    for i in chosen:
        d = sc.defs[i]
        t = d["type"]
        if d["multiple"]:
            items, texts, any_time_only = [], [], False
            for _ in range(rng.randint(1, 4)):
                if t == "int" and rng.random() < 0.4:
                    a = rng.randint(-50, 1000)
                    b = a + rng.randint(0, 12)
                    items.extend(range(a, b + 1))
                    texts.append(f"{a}:{b}")
                    d["_range"] = True
                else:
                    v, forms = GEN[t](rng) if t != "str" else gen_str(rng, True)
                    txt, to = rng.choice(forms)
                    any_time_only |= to
                    items.append(v)
                    texts.append(txt)
            if sc.mode == "config" and rng.random() < 0.5 and not d.get("_range"):
                src = ("literal", "[" + ", ".join(py_literal(t, v) for v in items) + "]")
                any_time_only = False
            else:
                src = ("text", ",".join(texts))
            sc.assign.append((i, items, src, any_time_only))
        else:
            v, forms = GEN[t](rng)
            txt, to = rng.choice(forms)
            if sc.mode == "config" and (rng.random() < 0.5 or t == "str"):
                src, to = ("literal", py_literal(t, v)), False
            elif sc.mode == "cmdline" and t == "bool" and v is True and rng.random() < 0.4:
                src = ("flag", None)
            else:
                src = ("text", txt)
            sc.assign.append((i, v, src, to))
    # UNSPECIFIED alternative spelling on one assigned scalar option (counted, value checked if accepted)
    if sc.fault is None and sc.assign and rng.random() < 0.1:
        k = rng.randrange(len(sc.assign))
        i, v, src, to = sc.assign[k]
        d = sc.defs[i]
        if not d["multiple"] and d["type"] in UNSPEC_FORMS and src[0] == "text":
            alts = [a for a in UNSPEC_FORMS[d["type"]](v) if a is not None]
            sc.assign[k] = (i, v, ("text", rng.choice(alts)), to)
            sc.unspec = k
    # faults
    sc.fault_desc = None
    if sc.fault == "wrongtype":
        cands = [i for i, d in enumerate(sc.defs) if d["type"] != "str" or sc.mode == "config"]
        if not cands:
            sc.fault = None
        else:
            i = rng.choice(cands)
            d = sc.defs[i]
            t = d["type"]
            sc.assign = [a for a in sc.assign if a[0] != i]
            if sc.mode == "config" and rng.random() < 0.5:
                # wrong literal type
                if d["multiple"]:
                    lit = rng.choice(["5", "1.5", "(1, 2)", "{'a': 1}", "[object()]", "[1, 'a', 2.5, [1]]"])
                    if lit == "[1, 'a', 2.5, [1]]" or lit == "[object()]":
                        pass
                else:
                    wrong_lits = {"str": ["5", "1.5", "['a']", "b'x'"], "int": ["1.5", "[1]", "(1,)", "{}"],
                                  "float": ["[1.5]", "(1.5,)", "1j"], "bool": ["[True]", "1.5", "{}"],
                                  "datetime": ["5", "1.5", "datetime.date(2020, 1, 1)", "[]"],
                                  "timedelta": ["5", "1.5", "datetime.datetime(2020, 1, 1)", "[]"]}
                    lit = rng.choice(wrong_lits[t])
                sc.fault_desc = {"opt": i, "src": ("literal", lit), "what": f"config-literal-{t}{'-multiple' if d['multiple'] else ''}"}
            elif t == "str":
                sc.fault = None
            else:
                if d["multiple"] and t == "int" and rng.random() < 0.6:
                    txt = rng.choice(WRONG_MULTI_INT)
                elif d["multiple"]:
                    good = rng.choice(GEN[t](rng)[1])[0]
                    txt = good + "," + rng.choice([w for w in WRONG[t] if "," not in w and ":" not in w])
                else:
                    txt = rng.choice(WRONG[t])
                sc.fault_desc = {"opt": i, "src": ("text", txt), "what": t + ("-multiple" if d["multiple"] else "")}
    if sc.fault == "unknown":
        nm = rng.choice(["nosuch", "no-such-option", "x_y_z", "verbose", "config"])
        if rng.random() < 0.4 and sc.defs:
            base = rng.choice(sc.defs)["name"]
            nm = rng.choice([base + "x", base[:-1] if len(base) > 1 else base + "q", "x" + base])
        if nm.replace("_", "-") in {"-".join(d["segs"]) for d in sc.defs} or nm.replace("_", "-") == "help":
            nm = "zz-unknown-zz"
        sc.fault_desc = {"name": nm, "form": rng.choice(["--%s=1", "--%s", "-%s=x", "--%s="])}
    # command-line tail
    sc.tail = None
    if sc.mode == "cmdline" and rng.random() < 0.3:
        extra = []
        unassigned = [i for i in range(len(sc.defs)) if i not in [a[0] for a in sc.assign]
                      and not (sc.fault_desc and sc.fault_desc.get("opt") == i)]
        if unassigned:
            d = sc.defs[unassigned[0]]
            v, forms = GEN[d["type"]](rng) if d["type"] != "str" else gen_str(rng, True)
            extra.append("--" + d["name"] + "=" + forms[0][0])
        sc.tail = (rng.choice(["--", "positional", "pos=1"]), extra + rng.choice([[], ["more"], ["-x", "--"]]))
    sc.rng = rng
    return sc


def render(sc, scratch):
    """Returns (argv or None, config text or None, description)."""
    rng = sc.rng
    if sc.mode == "cmdline":
        argv = ["prog"]
        parts = []
        for (i, v, src, to) in sc.assign:
            d = sc.defs[i]
            name = spell(rng, d["segs"])
            dashes = rng.choice(["--", "--", "--", "-", "---"])
            parts.append(dashes + name if src[0] == "flag" else dashes + name + "=" + src[1])
        if sc.fault == "wrongtype" and sc.fault_desc:
            d = sc.defs[sc.fault_desc["opt"]]
            parts.insert(rng.randint(0, len(parts)), "--" + spell(rng, d["segs"]) + "=" + sc.fault_desc["src"][1])
        if sc.fault == "unknown":
            parts.insert(rng.randint(0, len(parts)), sc.fault_desc["form"] % sc.fault_desc["name"])
        argv += parts
        if sc.tail:
            if sc.tail[0] == "--":
                argv += ["--"] + sc.tail[1]
            else:
                argv += [sc.tail[0]] + sc.tail[1]
        return argv, None
    lines = ["import datetime", "unrelated_name = 12345"]
    entries = []
    for (i, v, src, to) in sc.assign:
        d = sc.defs[i]
        var = "_".join(d["segs"])
        entries.append(f"{var} = {src[1] if src[0] == 'literal' else repr(src[1])}")
    if sc.fault == "wrongtype" and sc.fault_desc:
        d = sc.defs[sc.fault_desc["opt"]]
        src = sc.fault_desc["src"]
        entries.insert(rng.randint(0, len(entries)), f"{'_'.join(d['segs'])} = {src[1] if src[0] == 'literal' else repr(src[1])}")
    return None, "\n".join(lines + entries) + "\n"


# ---------------------------------------------------------------------------------------------

def shards(tier, seed):
    n = 24000 if tier == "quick" else 640000
    k = 16
    return [{"n": n // k, "j": j} for j in range(k)]


def gen_cases(spec):
    rng = core.rng_for(spec["seed"], PROP, spec["j"])
    for _ in range(spec["n"]):
        yield (rng.getrandbits(52),)


def directed_cases():
    return []


_SCRATCH = None


def scratch_dir():
    global _SCRATCH
    if _SCRATCH is None:
        _SCRATCH = tempfile.mkdtemp(prefix="vf-c44-")
    return _SCRATCH


def finish_shard(spec, ctx):
    global _SCRATCH
    if _SCRATCH:
        shutil.rmtree(_SCRATCH, ignore_errors=True)
        _SCRATCH = None


def same(tname, got, want, time_only):
    if tname == "datetime" and time_only:
        return isinstance(got, datetime.datetime) and got.time() == want.time()
    if tname == "float":
        return type(got) is float and got == want
    if tname == "int":
        return type(got) is int and got == want
    if tname == "bool":
        return type(got) is bool and got == want
    return type(got) is type(want) and got == want


def run_case(case, ctx):
    sc = build(case[0])
    argv, cfg = render(sc, None)
    desc = {"defs": [{k: (ascii(v) if k == "default" else v) for k, v in d.items() if not k.startswith("_") and k != "segs"}
                     for d in sc.defs],
            "mode": sc.mode, "final": sc.final, "argv": argv, "config": cfg, "fault": sc.fault,
            "fault_desc": ascii(sc.fault_desc) if sc.fault_desc else None}
    nontrivial = bool(sc.assign) or sc.fault is not None
    new = ctx.mark((ascii(desc["defs"]), argv, cfg), nontrivial)
    if new and nontrivial and ctx.evaluations % 1777 == 13:
        ctx.sample(desc)
    ctx.count("cmdline_cases" if sc.mode == "cmdline" else "config_cases")

    p = OptionParser()
    defaults_snapshot = []
    option_cb = {}
    parse_cb = []
    try:
        for i, d in enumerate(sc.defs):
            kw = {}
            if d["explicit_type"]:
                kw["type"] = TYPES[d["type"]]
            if d["multiple"]:
                kw["multiple"] = True
            dflt = copy.deepcopy(d["default"])
            defaults_snapshot.append(copy.deepcopy(dflt))
            d["_live_default"] = dflt
            option_cb[i] = []
            p.define(d["name"], default=dflt, callback=(lambda v, i=i: option_cb[i].append(copy.deepcopy(v))), **kw)
        p.add_parse_callback(lambda: parse_cb.append(1))
    except Exception as e:  # noqa: BLE001
        ctx.violation(f"define/raises-{type(e).__name__}", "defining a fresh, uniquely named option on a new OptionParser raised",
                      dict(desc, error=repr(e)))
        return
    # effective declared type when not explicit: type(default)
    err = None
    remaining = None
    stderr = io.StringIO()
    try:
        with contextlib.redirect_stderr(stderr):
            if sc.mode == "cmdline":
                remaining = p.parse_command_line(list(argv), final=sc.final)
            else:
                path = os.path.join(scratch_dir(), "c.cfg")
                with open(path, "w", encoding="utf-8") as f:
                    f.write(cfg)
                p.parse_config_file(path, final=sc.final)
    except Exception as e:  # noqa: BLE001
        err = e
    except SystemExit as e:
        ctx.violation("parse/SystemExit", "parsing called sys.exit", dict(desc, error=repr(e)))
        return
    ctx.count("oracle_evals")

    if sc.fault == "unknown":
        ctx.count("neg_unknown_option")
        if err is None:
            ctx.violation("unknown-option-accepted", "an undefined command-line option was accepted without error",
                          dict(desc, values=ascii(p.as_dict())))
        return
    if sc.fault == "wrongtype" and sc.fault_desc:
        ctx.count("neg_wrong_type")
        d = sc.defs[sc.fault_desc["opt"]]
        ctx.seen("wrong_type_kinds", sc.fault_desc["what"])
        if err is None:
            got = getattr(p, d["name"].replace("-", "_"))
            if d["type"] == "bool" and sc.fault_desc["src"][0] == "text":
                mech = "wrong-type-accepted/bool-any-string-is-true"
                what = "a non-boolean word given for a bool option is silently parsed (as True)"
            elif sc.fault_desc["src"][0] == "literal":
                mech = "wrong-type-accepted/" + sc.fault_desc["what"]
                what = "a config-file literal of the wrong type was accepted"
            else:
                mech = "wrong-type-accepted/" + sc.fault_desc["what"]
                what = "a value that is not of the option's type was accepted without error"
            ctx.violation(mech, what, dict(desc, option=d["name"], given=sc.fault_desc["src"][1], parsed_as=ascii(got)))
        return
    if err is not None:
        if sc.unspec is not None:
            ctx.count("unspecified_form_rejected")
            return
        ctx.violation(f"valid-input-rejected/{sc.mode}/{type(err).__name__}",
                      "a command line / config file that sets options to textual forms of values of their types was rejected",
                      dict(desc, error=repr(err)))
        return

    assigned = {a[0]: a for a in sc.assign}
    for i, d in enumerate(sc.defs):
        t = d["type"]
        ctx.count("type_" + t)
        if d["multiple"]:
            ctx.count("multiple_options")
        if d.get("_range") and i in assigned:
            ctx.count("int_ranges")
        attr = d["name"].replace("-", "_")
        try:
            got = getattr(p, attr)
            got2 = p[d["name"]]
            got3 = p.as_dict()[d["name"]]
        except Exception as e:  # noqa: BLE001
            ctx.violation(f"lookup/raises-{type(e).__name__}", "reading a defined option raised",
                          dict(desc, option=d["name"], error=repr(e)))
            continue
        if not (got == got2 == got3) and not (got != got):
            ctx.violation("lookup/accessors-disagree", "attribute, item and as_dict access return different values",
                          dict(desc, option=d["name"], values=ascii([got, got2, got3])))
        if i in assigned:
            _, want, src, time_only = assigned[i]
            is_unspec = sc.unspec is not None and sc.assign[sc.unspec][0] == i
            ctx.count("value_checks")
            if d["multiple"]:
                ok = isinstance(got, list) and len(got) == len(want) and all(
                    (g == w if t == "bool" else same(t, g, w, time_only and t == "datetime")) for g, w in zip(got, want))
            else:
                ok = same(t, got, want, time_only)
            if is_unspec:
                ctx.count("unspecified_form_accepted")
            if not ok:
                if d["multiple"] and d.get("_range") and isinstance(got, list):
                    mech = "value/int-range-expansion"
                elif is_unspec and t == "bool":
                    # "no"/"off"/"n": not a documented form; parsed as True by the same rule as "banana"
                    mech = "wrong-type-accepted/bool-any-string-is-true"
                elif is_unspec:
                    mech = f"value/unspecified-form-parsed-to-other-value/{t}"
                else:
                    mech = f"value/{sc.mode}/{t}{'-multiple' if d['multiple'] else ''}"
                what = ("a non-boolean word given for a bool option is silently parsed (as True)"
                        if mech == "wrong-type-accepted/bool-any-string-is-true"
                        else "the parsed value is not the value whose textual form was given")
                ctx.violation(mech, what,
                              dict(desc, option=d["name"], source=ascii(src), got=ascii(got), want=ascii(want)))
            cbs = option_cb[i]
            if cbs:
                ctx.count("option_callback_observed")
                last = cbs[-1]
                if not (last == got):
                    ctx.violation("callback/option-callback-got-other-value",
                                  "the option's callback was not handed the value the option now holds",
                                  dict(desc, option=d["name"], callback_values=ascii(cbs), value=ascii(got)))
        else:
            ctx.count("default_checks")
            want = defaults_snapshot[i]
            ok = (got == want and type(got) is type(want)) or (want is None and d["multiple"] and got == [])
            if not ok:
                ctx.violation("default/unset-option-lost-its-default", "an option that was not set does not hold its default",
                              dict(desc, option=d["name"], got=ascii(got), default=ascii(want)))
            if d["_live_default"] != defaults_snapshot[i]:
                ctx.violation("default/default-object-mutated", "parsing mutated the default object of an option",
                              dict(desc, option=d["name"], now=ascii(d["_live_default"]), was=ascii(want)))
    if sc.mode == "cmdline":
        want_rem = []
        if sc.tail:
            want_rem = sc.tail[1] if sc.tail[0] == "--" else [sc.tail[0]] + sc.tail[1]
        ctx.count("remaining_checks")
        if remaining != want_rem:
            ctx.violation("cmdline/remaining-args", "parse_command_line did not return the arguments after the options",
                          dict(desc, got=remaining, want=want_rem))
    ctx.seen("parse_callback_runs", (sc.final, len(parse_cb)))
    ctx.count("parse_callback_runs_total", len(parse_cb))
